---------------------------- MODULE Floats ----------------------------
(* Abstract f64 domain.  A value is a record [c, n]:  c = "fin" (the integer n, concretised as n x scale),
   "nz" (negative zero), "pinf", "ninf", "nan".  Comparison and addition follow IEEE-754.
   (Records, not a mix of integers and strings: TLC cannot compare an integer with a string.)          *)
EXTENDS Integers, Sequences

Fin(n)  == [c |-> "fin", n |-> n]
NegZero == [c |-> "nz", n |-> 0]
PosInf  == [c |-> "pinf", n |-> 0]
NegInf  == [c |-> "ninf", n |-> 0]
NaN     == [c |-> "nan", n |-> 0]
Zero    == Fin(0)

IsNaN(a) == a.c = "nan"
IsNum(a) == a.c # "nan"
\* position on the extended real line (negative zero = zero)
Num(a) == IF a.c = "fin" THEN a.n ELSE 0
FLt(a, b) == /\ IsNum(a) /\ IsNum(b)
             /\ \/ a.c = "ninf" /\ b.c # "ninf"
                \/ b.c = "pinf" /\ a.c # "pinf"
                \/ a.c \in {"fin", "nz"} /\ b.c \in {"fin", "nz"} /\ Num(a) < Num(b)
FEq(a, b) == IsNum(a) /\ IsNum(b) /\ ~FLt(a, b) /\ ~FLt(b, a)        \* -0 = +0, NaN # NaN
FLe(a, b) == FLt(a, b) \/ FEq(a, b)

FAdd(a, b) ==
  IF IsNaN(a) \/ IsNaN(b) THEN NaN
  ELSE IF a.c = "pinf" THEN (IF b.c = "ninf" THEN NaN ELSE PosInf)
  ELSE IF a.c = "ninf" THEN (IF b.c = "pinf" THEN NaN ELSE NegInf)
  ELSE IF b.c \in {"pinf", "ninf"} THEN b
  ELSE IF a.c = "nz" /\ b.c = "nz" THEN NegZero
  ELSE IF Num(a) + Num(b) = 0 THEN Zero                                 \* x + (-x) = +0, 0 + -0 = +0 (round to nearest)
  ELSE Fin(Num(a) + Num(b))

RECURSIVE FSum(_, _)
FSum(acc, s) == IF s = <<>> THEN acc ELSE FSum(FAdd(acc, Head(s)), Tail(s))
\* same bit pattern (what "the sum in observation order" is compared with)
FSame(a, b) == a = b
=============================================================================
