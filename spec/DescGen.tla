---------------------------- MODULE DescGen ----------------------------
(* C15 generator: the states ARE the inputs.  Pool of descriptors over adversarial strings (shared prefixes and
   suffixes, empty strings, boundary-shifted splits); one JSON line per descriptor with its identity and
   dimension streams; the structural theorems are checked on a sub-pool by ASSUME-style invariants. *)
EXTENDS Desc, Json, TLC
CONSTANTS NameSet, HelpSet, LN, ValSet, MaxCL, MaxVL, TheoremOn
CLSet == UNION {[S -> ValSet] : S \in {T \in SUBSET LN : Cardinality(T) <= MaxCL}}
VLSet == {s \in UNION {[1..k -> LN] : k \in 0..MaxVL} : \A i, j \in DOMAIN s : i # j => s[i] # s[j]}
Pool == [name : NameSet, help : HelpSet, cl : CLSet, vl : VLSet]
VARIABLE d
Init == d \in Pool
Next == UNCHANGED d
Spec == Init /\ [][Next]_d
\* const labels as a sequence of pairs in name order (ToJson cannot print functions with sequence domains)
CLSeq(x) == [i \in 1..Cardinality(DOMAIN x.cl) |-> <<SortedNames(DOMAIN x.cl)[i], x.cl[SortedNames(DOMAIN x.cl)[i]]>>]
Emit == PrintT(<<"CASE", ToJson([name |-> d.name, help |-> d.help, cl |-> CLSeq(d), vl |-> d.vl, ok |-> DescOK(d),
                                  ids |-> IdStream(d), dims |-> DimStream(d)])>>)
\* theorem on the sub-pool with at most one constant label value set drawn from TheoremOn
Sub == {x \in Pool : x.help = CHOOSE h \in HelpSet : TRUE}
Structural == (d = CHOOSE x \in Pool : TRUE) => (IdentityIsStructural(TheoremOn) /\ DimensionIsStructural(TheoremOn))
=============================================================================
