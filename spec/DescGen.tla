---------------------------- MODULE DescGen ----------------------------
(* C15 generator: the states ARE the inputs.  Pool of descriptors over adversarial strings (shared prefixes and
   suffixes, empty strings, boundary-shifted splits); one JSON line per descriptor with its identity and
   dimension streams; the structural theorems are checked on a sub-pool by ASSUME-style invariants. *)
EXTENDS Desc, Json, TLC
CONSTANTS NameSet, HelpSet, LN, ValSet, MaxCL, MaxVL, TheoremOn,
          PartN, PartK     \* the pool is enumerated in PartN slices (initial states are generated on one thread; the thorough tier
                           \* runs the slices as parallel TLC processes); PartN = 1, PartK = 0: the whole pool at once
CLSet == UNION {[S -> ValSet] : S \in {T \in SUBSET LN : Cardinality(T) <= MaxCL}}
VLSet == {s \in UNION {[1..k -> LN] : k \in 0..MaxVL} : \A i, j \in DOMAIN s : i # j => s[i] # s[j]}
Pool == [name : NameSet, help : HelpSet, cl : CLSet, vl : VLSet]
VARIABLE d
Slice(x) == (Len(x.name) + 2 * Len(x.help) + 3 * Len(x.vl) + 5 * Cardinality(DOMAIN x.cl)
             + (IF x.vl # <<>> THEN 7 * Len(x.vl[1]) ELSE 0)) % PartN
Init == d \in Pool /\ Slice(d) = PartK
Next == UNCHANGED d
Spec == Init /\ [][Next]_d
\* const labels as a sequence of pairs in name order (ToJson cannot print functions with sequence domains)
CLSeq(x) == [i \in 1..Cardinality(DOMAIN x.cl) |-> <<SortedNames(DOMAIN x.cl)[i], x.cl[SortedNames(DOMAIN x.cl)[i]]>>]
Emit == PrintT(<<"CASE", ToJson([name |-> d.name, help |-> d.help, cl |-> CLSeq(d), vl |-> d.vl, ok |-> DescOK(d),
                                  ids |-> IdStream(d), dims |-> DimStream(d)])>>)
\* theorem on the sub-pool with at most one constant label value set drawn from TheoremOn
Sub == {x \in Pool : x.help = CHOOSE h \in HelpSet : TRUE}
\* (a constant definition of its own: TLC evaluates it once instead of materialising the pool in every state)
FirstOfPool == CHOOSE x \in Pool : TRUE
Structural == (d = FirstOfPool) => (IdentityIsStructural(TheoremOn) /\ DimensionIsStructural(TheoremOn))
=============================================================================
