---------------------------- MODULE AutoFlushGen ----------------------------
(* Behaviour generator for AutoFlush.tla: every history of MaxLen events, each with the observable state expected
   after it (shared children, pending data of every live root) and the result of the call.  The amount of the
   i-th event is 2^(i-1) so that every subset of updates has its own sum.                                       *)
EXTENDS AutoFlush, Json
CONSTANTS MaxLen
VARIABLE hist
Amt == 2 ^ Len(hist)
Obs == [shared |-> shared', clock |-> clock',
        locs |-> [t \in Threads |-> IF t \in alive' THEN loc'[t] ELSE [l \in Leaves |-> [n |-> -1, s |-> -1]]]]
Ev(op, t, l, d, res) == [op |-> op, t |-> t, l |-> l, d |-> d, v |-> Amt, res |-> res, obs |-> Obs]
HInit == Init /\ hist = <<>>
HNext ==
  /\ Len(hist) < MaxLen
  /\ \/ \E d \in Ticks : Tick(d) /\ hist' = Append(hist, Ev("tick", "-", "-", d, Z))
     \/ \E t \in Threads :
          \/ Start(t) /\ hist' = Append(hist, Ev("start", t, "-", 0, Z))
          \/ FlushAll(t) /\ hist' = Append(hist, Ev("flushall", t, "-", 0, Z))
          \* the property leaves open what happens to a local COUNTER dropped with pending data: generated only when nothing is pending
          \/ (Kind = "hist" \/ loc[t] = ZeroLeaves) /\ Exit(t) /\ hist' = Append(hist, Ev("exit", t, "-", 0, Z))
          \/ \E l \in Leaves :
               \/ Upd(t, l, Amt) /\ hist' = Append(hist, Ev("upd", t, l, 0, Z))
               \/ Get(t, l) /\ hist' = Append(hist, Ev("get", t, l, 0, loc[t][l]))
               \/ Reset(t, l) /\ hist' = Append(hist, Ev("reset", t, l, 0, Z))
               \* leaf.flush() must flush its own leaf; whether it also flushes its siblings is not fixed by any property
               \* (counters do, histograms do not): generated only when the siblings hold nothing
               \/ (\A x \in Leaves \ {l} : loc[t][x] = Z) /\ FlushLeaf(t, l) /\ hist' = Append(hist, Ev("flushleaf", t, l, 0, Z))
HSpec == HInit /\ [][HNext]_<<vars, hist>>
Emit == Len(hist) = MaxLen => PrintT(<<"REPLAY", ToJson(hist)>>)
\* generation is only useful from histories that do something: prune those whose first event is not a start
StartsFirst == Len(hist) >= 1 => hist[1].op = "start"
=============================================================================
