---------------------------- MODULE StaticMetric ----------------------------
(* make_static_metric! / make_auto_flush_static_metric! declarations (static-metric/src) and the meaning of the
   generated accessors.  A declaration has 1..MaxLabels labels; label i has 1..MaxVals declared values; value j of
   label i has field name f_i_j and label value either the field name itself or a renamed string; the values of a
   label are given inline or through a label_enum.  perm = order of the label names in the backing vector.
   A leaf (one index per label) denotes exactly the child whose label values are those declared along the path. *)
EXTENDS Integers, Sequences, FiniteSets, TLC, Json
CONSTANTS MaxLabels, MaxVals,
          PartN, PartK     \* the declarations are enumerated in PartN slices (TLC generates initial states on ONE thread, so the
                           \* thorough tier runs the slices as parallel TLC processes); PartN = 1, PartK = 0: everything at once
\* kind of a declared value: "plain" (the label value is the field name), "renamed" (field: "other string"), or "alias"
\* (a second field name for the SAME label value as the previous field, e.g.  ok: "success", success: "success")
ValDef == [kind : {"plain", "renamed", "alias"}]
\* an alias may stand anywhere after the first value (further values may follow it, another alias may follow it)
LabelDef == {l \in [enum : BOOLEAN, vals : UNION {[1..k -> ValDef] : k \in 1..MaxVals}] : l.vals[1].kind # "alias"}
Perms(n) == {p \in [1..n -> 1..n] : \A i, j \in 1..n : i # j => p[i] # p[j]}
VARIABLES labels, perm
KindNum(k) == CASE k = "plain" -> 0 [] k = "renamed" -> 1 [] OTHER -> 2
Slice(ls, pm) == LET n == Len(ls) m == Len(ls[n].vals) IN
                 (pm[1] + 2 * pm[n] + 3 * Len(ls[1].vals) + 5 * m + (IF ls[1].enum THEN 7 ELSE 0) + (IF ls[n].enum THEN 11 ELSE 0)
                  + 13 * KindNum(ls[1].vals[1].kind) + 17 * KindNum(ls[n].vals[m].kind)) % PartN
Init == \E n \in 1..MaxLabels : labels \in [1..n -> LabelDef] /\ perm \in Perms(n) /\ Slice(labels, perm) = PartK
Spec == Init /\ [][UNCHANGED <<labels, perm>>]_<<labels, perm>>

N == Len(labels)
LabelName(i) == <<"l", i>>
FieldName(i, j) == <<"f", i, j>>
\* the label VALUE a field stands for
RECURSIVE Root(_, _)
Root(i, j) == IF labels[i].vals[j].kind = "alias" THEN Root(i, j - 1) ELSE j   \* the field whose value an alias repeats
ValueOf(i, j) == LET r == Root(i, j) IN IF labels[i].vals[r].kind = "renamed" THEN <<"v", i, r>> ELSE FieldName(i, r)
Leaves == {p \in [1..N -> 1..MaxVals] : \A i \in 1..N : p[i] <= Len(labels[i].vals)}
\* Target: the label-name |-> value map of the child a leaf denotes
Target(p) == {<<LabelName(i), ValueOf(i, p[i])>> : i \in 1..N}
\* accessors address exactly the declared values: distinct leaves denote distinct children, and every combination of
\* declared values is denoted by a leaf
Canon(p) == [i \in 1..N |-> Root(i, p[i])]
Bijective == /\ \A p, q \in Leaves : Target(p) = Target(q) <=> Canon(p) = Canon(q)       \* equal children exactly for aliases
             /\ Cardinality({Target(p) : p \in Leaves}) = Cardinality({Canon(p) : p \in Leaves})
\* try_get(str) resolves a declared VALUE (not a field name) to its field; anything else is None
TryGet(i, s) == IF \E j \in DOMAIN labels[i].vals : ValueOf(i, j) = s
                THEN CHOOSE j \in DOMAIN labels[i].vals : ValueOf(i, j) = s /\ \A k \in 1..(j - 1) : ValueOf(i, k) # s ELSE 0
\* try_get resolves a declared value to a field that denotes the same child
TryGetExact == \A i \in 1..N : \A j \in DOMAIN labels[i].vals : Root(i, TryGet(i, ValueOf(i, j))) = Root(i, j)
Emit == PrintT(<<"CASE", ToJson([labels |-> labels, perm |-> perm, leaves |-> Cardinality(Leaves)])>>)
=============================================================================
