---------------------------- MODULE LinGauge ----------------------------
(* API-level oracle for C11: is each recorded gauge history linearizable w.r.t. the atomic gauge?
   Input lines: [calls |-> <<[t, i, k, v?, inv, ret, res]>>, final |-> [get |-> n]].  The final read made
   after all threads returned is one more operation ordered after everything. *)
EXTENDS Integers, Sequences, FiniteSets, TLC, Json, IOUtils

Hists == ndJsonDeserialize(IOEnv.HISTS)

\* the float gauge over the extended reals: +Inf, -Inf and NaN travel as sentinels far outside the finite amounts of any scenario
PInf == 1000000000
NInf == -1000000000
NaN == 1000000007
XNeg(b) == IF b = PInf THEN NInf ELSE IF b = NInf THEN PInf ELSE IF b = NaN THEN NaN ELSE -b
XAdd(a, b) == IF a = NaN \/ b = NaN THEN NaN
              ELSE IF a = PInf THEN (IF b = NInf THEN NaN ELSE PInf)
              ELSE IF a = NInf THEN (IF b = PInf THEN NaN ELSE NInf)
              ELSE IF b = PInf \/ b = NInf THEN b
              ELSE a + b
Apply(o, v) == CASE o.k = "set" -> o.v
                 [] o.k = "add" -> XAdd(v, o.v)
                 [] o.k = "sub" -> XAdd(v, XNeg(o.v))
                 [] o.k = "inc" -> XAdd(v, 1)
                 [] o.k = "dec" -> XAdd(v, -1)
                 [] OTHER -> v
ResOK(o, v) == o.k = "get" => o.res = v

RECURSIVE Lin(_, _, _, _)
Lin(ops, done, v, fin) ==
  \/ done = DOMAIN ops /\ v = fin
  \/ \E i \in (DOMAIN ops) \ done :
        /\ \A j \in (DOMAIN ops) \ done : ~(ops[j].ret < ops[i].inv)     \* i is minimal in real-time order
        /\ ResOK(ops[i], v)
        /\ Lin(ops, done \cup {i}, Apply(ops[i], v), fin)

VARIABLE k
Init == k = 1
Next == k <= Len(Hists) /\ k' = k + 1
Spec == Init /\ [][Next]_k
Linearizable == k <= Len(Hists) => (Lin(Hists[k].calls, {}, 0, Hists[k].final.get) \/ PrintT(<<"REJECTED", k>>))
=============================================================================
