---------------------------- MODULE LinGauge ----------------------------
(* API-level oracle for C11: is each recorded gauge history linearizable w.r.t. the atomic gauge?
   Input lines: [calls |-> <<[t, i, k, v?, inv, ret, res]>>, final |-> [get |-> n]].  The final read made
   after all threads returned is one more operation ordered after everything. *)
EXTENDS Integers, Sequences, FiniteSets, TLC, Json, IOUtils

Hists == ndJsonDeserialize(IOEnv.HISTS)

\* the float gauge over the extended reals: +Inf, -Inf and NaN travel as sentinels far outside the finite amounts of any scenario
PInf == 1000000000
NInf == -1000000000
NaN == 1000000007
XNeg(b) == IF b = PInf THEN NInf ELSE IF b = NInf THEN PInf ELSE IF b = NaN THEN NaN ELSE -b
XAdd(a, b) == IF a = NaN \/ b = NaN THEN NaN
              ELSE IF a = PInf THEN (IF b = NInf THEN NaN ELSE PInf)
              ELSE IF a = NInf THEN (IF b = PInf THEN NaN ELSE NInf)
              ELSE IF b = PInf \/ b = NInf THEN b
              ELSE a + b
Apply(o, v) == CASE o.k = "set" -> o.v
                 [] o.k = "add" -> XAdd(v, o.v)
                 [] o.k = "sub" -> XAdd(v, XNeg(o.v))
                 [] o.k = "inc" -> XAdd(v, 1)
                 [] o.k = "dec" -> XAdd(v, -1)
                 [] OTHER -> v
\* integer gauges with amounts at the ends of the i64 range are judged through a ring homomorphism Z/2^64 -> Z/m (m a small power
\* of two): the driver reduces every amount and every observed value mod m, and the oracle computes mod m.  A history that is
\* linearizable over the wrapping 64-bit integers stays linearizable in the image.
Norm(x, m) == IF m > 0 THEN x % m ELSE x
ResOK(o, v, m) == o.k = "get" => o.res = Norm(v, m)

RECURSIVE Lin(_, _, _, _, _)
Lin(ops, done, v, fin, m) ==
  \/ done = DOMAIN ops /\ Norm(v, m) = fin
  \/ \E i \in (DOMAIN ops) \ done :
        /\ \A j \in (DOMAIN ops) \ done : ~(ops[j].ret < ops[i].inv)     \* i is minimal in real-time order
        /\ ResOK(ops[i], v, m)
        /\ Lin(ops, done \cup {i}, Norm(Apply(ops[i], v), m), fin, m)
ModOf(h) == IF "mod" \in DOMAIN h THEN h.mod ELSE 0

VARIABLE k
Init == k = 1
Next == k <= Len(Hists) /\ k' = k + 1
Spec == Init /\ [][Next]_k
Linearizable == k <= Len(Hists) => (Lin(Hists[k].calls, {}, 0, Hists[k].final.get, ModOf(Hists[k])) \/ PrintT(<<"REJECTED", k>>))
=============================================================================
