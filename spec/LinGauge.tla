---------------------------- MODULE LinGauge ----------------------------
(* API-level oracle for C11: is each recorded gauge history linearizable w.r.t. the atomic gauge?
   Input lines: [calls |-> <<[t, i, k, v?, inv, ret, res]>>, final |-> [get |-> n]].  The final read made
   after all threads returned is one more operation ordered after everything. *)
EXTENDS Integers, Sequences, FiniteSets, TLC, Json, IOUtils

Hists == ndJsonDeserialize(IOEnv.HISTS)

Apply(o, v) == CASE o.k = "set" -> o.v
                 [] o.k = "add" -> v + o.v
                 [] o.k = "sub" -> v - o.v
                 [] o.k = "inc" -> v + 1
                 [] o.k = "dec" -> v - 1
                 [] OTHER -> v
ResOK(o, v) == o.k = "get" => o.res = v

RECURSIVE Lin(_, _, _, _)
Lin(ops, done, v, fin) ==
  \/ done = DOMAIN ops /\ v = fin
  \/ \E i \in (DOMAIN ops) \ done :
        /\ \A j \in (DOMAIN ops) \ done : ~(ops[j].ret < ops[i].inv)     \* i is minimal in real-time order
        /\ ResOK(ops[i], v)
        /\ Lin(ops, done \cup {i}, Apply(ops[i], v), fin)

VARIABLE k
Init == k = 1
Next == k <= Len(Hists) /\ k' = k + 1
Spec == Init /\ [][Next]_k
Linearizable == k <= Len(Hists) => (Lin(Hists[k].calls, {}, 0, Hists[k].final.get) \/ PrintT(<<"REJECTED", k>>))
=============================================================================
