---------------------------- MODULE RegistryGen ----------------------------
(* Behaviour generator for C06: every history of length MaxLen over {register, unregister} x Collectors,
   each event with the expected outcome and the expected registered set; one JSON line per behaviour. *)
EXTENDS Registry, Json
CONSTANT MaxLen
VARIABLE hist
Ev(op, c, res) == [op |-> op, c |-> c, res |-> res, reg |-> registered']
HInit == Init /\ hist = <<>>
HNext == /\ Len(hist) < MaxLen
         /\ \E c \in Cids :
              \/ RegisterOk(c)    /\ hist' = Append(hist, Ev("reg", c, "Ok"))
              \/ RegisterErr(c)   /\ hist' = Append(hist, Ev("reg", c, ErrKind(c)))
              \/ UnregisterOk(c)  /\ hist' = Append(hist, Ev("unreg", c, "Ok"))
              \/ UnregisterErr(c) /\ hist' = Append(hist, Ev("unreg", c, "Err"))
HSpec == HInit /\ [][HNext]_<<vars, hist>>
Emit == Len(hist) = MaxLen => PrintT(<<"REPLAY", ToJson(hist)>>)
=============================================================================
