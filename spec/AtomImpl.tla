---------------------------- MODULE AtomImpl ----------------------------
(* Step-level model of one shared metric value (src/atomic64.rs, src/value.rs, src/counter.rs,
   src/gauge.rs): Counter / IntCounter / Gauge / IntGauge and LocalCounter::flush.
   One action per atomic operation of the implementation.
     int flavour : inc/add = fetch_add, dec/sub = fetch_sub, set/reset = store, get = load
     f64 flavour : inc/add/dec/sub = load ; compare_exchange_weak loop (sub(x) = add(-x)),
                   set/reset = store, get = load                                             *)
EXTENDS Integers, Sequences, FiniteSets, TLC

CONSTANTS Threads,   \* set of thread ids
          Script,    \* [Threads -> Seq(op)]; op = [k |-> "inc"|"dec"|"get"|"reset"] | [k |-> "incby"|"add"|"sub"|"set", v |-> Int]
                     \*                        | [k |-> "lflush", vs |-> Seq(Int)]  (local counter: accumulate vs, then flush)
          Flavor,    \* "f64" | "int"
          Spurious,  \* TRUE: compare_exchange_weak may fail spuriously (model only; the shim executes a strong CAS)
          CounterConfig  \* TRUE: counter script (non-negative, distinct power-of-two amounts): read clauses of C01 apply

VARIABLES val,       \* the shared cell
          pc, ip, loc,
          abs,       \* ghost: the atomic (linearized) value
          started, completed,   \* ghost: sets of <<t, ip>> of update calls started / completed
          bad        \* ghost: a read returned a value no admissible set of increments explains

vars == <<val, pc, ip, loc, abs, started, completed, bad>>

RECURSIVE SumSeq(_)
SumSeq(s) == IF s = <<>> THEN 0 ELSE Head(s) + SumSeq(Tail(s))

Op(t) == Script[t][ip[t]]
\* signed amount an update call adds
Delta(o) == CASE o.k = "inc" -> 1 [] o.k = "dec" -> -1 [] o.k \in {"incby", "add"} -> o.v [] o.k = "sub" -> -o.v
              [] o.k = "lflush" -> SumSeq(o.vs) [] OTHER -> 0
IsAdd(o) == o.k \in {"inc", "dec", "incby", "add", "sub", "lflush"}
IsStore(o) == o.k \in {"set", "reset"}
StoreVal(o) == IF o.k = "set" THEN o.v ELSE 0

Init == /\ val = 0 /\ abs = 0
        /\ pc = [t \in Threads |-> "idle"]
        /\ ip = [t \in Threads |-> 1]
        /\ loc = [t \in Threads |-> [rd |-> 0, res |-> 0, cab |-> {}]]
        /\ started = {} /\ completed = {} /\ bad = FALSE

Finish(t) == /\ pc' = [pc EXCEPT ![t] = "idle"] /\ ip' = [ip EXCEPT ![t] = @ + 1]

\* dispatch of the next scripted call (the harness parks every thread between calls)
Start(t) ==
  /\ pc[t] = "idle" /\ ip[t] <= Len(Script[t])
  /\ LET o == Op(t) IN
     IF o.k = "lflush" /\ Delta(o) = 0
     THEN \* LocalCounter::flush returns at once when nothing was accumulated
          /\ ip' = [ip EXCEPT ![t] = @ + 1] /\ UNCHANGED <<pc, started, loc>>
     ELSE /\ pc' = [pc EXCEPT ![t] = CASE IsAdd(o) -> IF Flavor = "int" THEN "rmw" ELSE "load"
                                       [] IsStore(o) -> "store"
                                       [] OTHER -> "get"]
          /\ started' = IF IsAdd(o) THEN started \cup {<<t, ip[t]>>} ELSE started
          /\ loc' = [loc EXCEPT ![t].cab = completed]
          /\ UNCHANGED ip
  /\ UNCHANGED <<val, abs, completed, bad>>

Rmw(t) ==  \* fetch_add / fetch_sub
  /\ pc[t] = "rmw"
  /\ val' = val + Delta(Op(t)) /\ abs' = abs + Delta(Op(t))
  /\ completed' = completed \cup {<<t, ip[t]>>}
  /\ Finish(t) /\ UNCHANGED <<loc, started, bad>>

Load(t) ==  \* AtomicF64::inc_by: current = load(Acquire)
  /\ pc[t] = "load"
  /\ loc' = [loc EXCEPT ![t].rd = val]
  /\ pc' = [pc EXCEPT ![t] = "cas"]
  /\ UNCHANGED <<val, ip, abs, started, completed, bad>>

Cas(t) ==  \* compare_exchange_weak(current, current + delta)
  /\ pc[t] = "cas"
  /\ \/ /\ val = loc[t].rd
        /\ val' = val + Delta(Op(t)) /\ abs' = abs + Delta(Op(t))
        /\ completed' = completed \cup {<<t, ip[t]>>}
        /\ Finish(t) /\ UNCHANGED <<loc, started, bad>>
     \/ /\ (val # loc[t].rd \/ Spurious)
        /\ pc' = [pc EXCEPT ![t] = "load"]
        /\ UNCHANGED <<val, ip, loc, abs, started, completed, bad>>

Store(t) ==
  /\ pc[t] = "store"
  /\ val' = StoreVal(Op(t)) /\ abs' = StoreVal(Op(t))
  /\ Finish(t) /\ UNCHANGED <<loc, started, completed, bad>>

\* increments are distinct powers of two in the counter configurations: the value names the set it sums
HasBit(s, v) == (s \div v) % 2 = 1
Incs == UNION {{<<t, i>> : i \in {j \in 1..Len(Script[t]) : IsAdd(Script[t][j])}} : t \in Threads}
AmountOf(ti) == Delta(Script[ti[1]][ti[2]])
RECURSIVE SumOver(_)
SumOver(S) == IF S = {} THEN 0 ELSE LET x == CHOOSE x \in S : TRUE IN AmountOf(x) + SumOver(S \ {x})
NoStores == \A t \in Threads : \A i \in 1..Len(Script[t]) : ~IsStore(Script[t][i])

Get(t) ==
  /\ pc[t] = "get"
  /\ loc' = [loc EXCEPT ![t].res = val]
  /\ bad' = (bad \/ (NoStores /\ CounterConfig /\
               LET S == {x \in Incs : AmountOf(x) > 0 /\ HasBit(val, AmountOf(x))} IN
               ~(/\ SumOver(S) = val /\ loc[t].cab \subseteq S /\ S \subseteq started)))
  /\ Finish(t) /\ UNCHANGED <<val, abs, started, completed>>

Step(t) == Start(t) \/ Rmw(t) \/ Load(t) \/ Cas(t) \/ Store(t) \/ Get(t)
Next == \E t \in Threads : Step(t)
Spec == Init /\ [][Next]_vars /\ \A t \in Threads : WF_vars(Step(t))

AllDone == \A t \in Threads : pc[t] = "idle" /\ ip[t] > Len(Script[t])

\* refinement of the atomic value: every call takes effect exactly once at its linearization point
Atomicity == val = abs
\* C01: after all threads finish the value is the sum of all increments (configurations without reset/set)
NoLostIncrement == (AllDone /\ NoStores) => val = SumOver(Incs)
\* C01: a concurrent read is the sum of a set between "completed before it began" and "started before it returned"
ReadsExplained == ~bad
\* C01: without reset the value never decreases (counter configurations use non-negative amounts)
Monotone == [][(NoStores /\ CounterConfig) => val' >= val]_vars
\* AtomImpl refines the recursion-free proof kernel AtomCore, for which Atomicity is PROVED (TLAPS) for any number of
\* threads, any scripts and any number of spurious compare-exchange failures
Core == INSTANCE AtomCore WITH rd <- [t \in Threads |-> loc[t].rd], done <- completed,
                               NumCalls <- LAMBDA t : Len(Script[t]),
                               Amount <- LAMBDA t, i : Delta(Script[t][i]),
                               StoreValue <- LAMBDA t, i : StoreVal(Script[t][i])
RefinesCore == Core!Spec
\* lock-freedom of the CAS loop / termination of every call under weak fairness
Termination == <>AllDone
=============================================================================
