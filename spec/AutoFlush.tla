---------------------------- MODULE AutoFlush ----------------------------
(* Auto-flushing thread-local metrics: make_auto_flush_static_metric! + auto_flush_from! (static-metric/src/
   auto_flush_builder.rs, auto_flush_from.rs), AFLocalCounter / AFLocalHistogram (src/auto_flush.rs),
   MayFlush::try_flush (src/metrics.rs) and the coarse clock (src/timer.rs).

   Every thread that touches the static handle owns one thread-local root (the generated `...Inner` struct) holding
   one local metric per declared leaf, the time of its last automatic flush and the flush interval.  An update
   adds to the leaf's local metric and then calls may_flush on the ROOT: when the coarse clock has advanced by at
   least the interval since the root's last flush, every leaf of that root is flushed and the flush time is set to
   the clock value that was read.  Explicit flushes do not move the flush time.  The code is asymmetric and the
   model says so: AFLocalCounter::flush flushes the whole root, AFLocalHistogram::flush only its own leaf.
   When a thread exits its root is dropped: local histograms flush on drop, local counters do not (what they
   still hold is discarded) — the same rule as Local.tla.

   The clock is the value of timer::recent_millis(); it only ever moves forward (now_millis keeps the maximum).  *)
EXTENDS Integers, Sequences, FiniteSets, TLC

CONSTANTS Threads,   \* logical threads; after Exit the name may be started again (a new OS thread, a new root)
          Leaves,    \* declared leaves of the static metric
          Kind,      \* "counter" | "hist"
          Interval,  \* flush interval in clock units (milliseconds)
          Ticks,     \* clock increments explored
          Amounts    \* update amounts explored

VARIABLES clock,    \* timer::recent_millis()
          alive,    \* threads whose thread-local root exists
          last,     \* [Threads -> Nat]  root.last_flush
          loc,      \* [Threads -> [Leaves -> [n, s]]]  pending local data (n updates summing to s)
          shared,   \* [Leaves -> [n, s]]  the child of the shared vector
          added,    \* ghost: [Leaves -> [n, s]]  everything ever passed to an update
          lost      \* ghost: [Leaves -> [n, s]]  discarded by reset/clear or by a counter root dropped with pending data

vars == <<clock, alive, last, loc, shared, added, lost>>

Z == [n |-> 0, s |-> 0]
Plus(a, b) == [n |-> a.n + b.n, s |-> a.s + b.s]
ZeroLeaves == [l \in Leaves |-> Z]

Init == /\ clock = 0 /\ alive = {} /\ last = [t \in Threads |-> 0]
        /\ loc = [t \in Threads |-> ZeroLeaves]
        /\ shared = ZeroLeaves /\ added = ZeroLeaves /\ lost = ZeroLeaves

Tick(d) == clock' = clock + d /\ UNCHANGED <<alive, last, loc, shared, added, lost>>

\* first use of the static handle on a thread: the root is built, last_flush = now_millis()
Start(t) == /\ t \notin alive
            /\ alive' = alive \cup {t}
            /\ last' = [last EXCEPT ![t] = clock]
            /\ loc' = [loc EXCEPT ![t] = ZeroLeaves]
            /\ UNCHANGED <<clock, shared, added, lost>>

Due(t) == clock >= last[t] + Interval

\* inc_by / observe on leaf l: local update, then root.may_flush()
Upd(t, l, v) ==
  /\ t \in alive
  /\ added' = [added EXCEPT ![l] = Plus(@, [n |-> 1, s |-> v])]
  /\ LET after == [loc[t] EXCEPT ![l] = Plus(@, [n |-> 1, s |-> v])] IN
     IF Due(t)
     THEN /\ shared' = [x \in Leaves |-> Plus(shared[x], after[x])]
          /\ loc' = [loc EXCEPT ![t] = ZeroLeaves]
          /\ last' = [last EXCEPT ![t] = clock]
     ELSE /\ loc' = [loc EXCEPT ![t] = after]
          /\ UNCHANGED <<shared, last>>
  /\ UNCHANGED <<clock, alive, lost>>

\* get() / get_sample_count(), get_sample_sum(): reads the local metric, no flush
Get(t, l) == t \in alive /\ UNCHANGED vars

\* reset() / clear(): discards the unflushed local data of that leaf, no flush
Reset(t, l) == /\ t \in alive
               /\ lost' = [lost EXCEPT ![l] = Plus(@, loc[t][l])]
               /\ loc' = [loc EXCEPT ![t][l] = Z]
               /\ UNCHANGED <<clock, alive, last, shared, added>>

FlushSet(t, ls) ==
  /\ shared' = [x \in Leaves |-> IF x \in ls THEN Plus(shared[x], loc[t][x]) ELSE shared[x]]
  /\ loc' = [loc EXCEPT ![t] = [x \in Leaves |-> IF x \in ls THEN Z ELSE loc[t][x]]]
  /\ UNCHANGED <<clock, alive, last, added, lost>>

\* leaf.flush(): the whole root for counters, the one leaf for histograms (what the code does)
FlushLeaf(t, l) == t \in alive /\ FlushSet(t, IF Kind = "counter" THEN Leaves ELSE {l})
\* static_handle.flush()
FlushAll(t) == t \in alive /\ FlushSet(t, Leaves)

\* thread exit: the root is dropped
Exit(t) ==
  /\ t \in alive
  /\ alive' = alive \ {t}
  /\ IF Kind = "hist"
     THEN shared' = [x \in Leaves |-> Plus(shared[x], loc[t][x])] /\ UNCHANGED lost
     ELSE lost' = [x \in Leaves |-> Plus(lost[x], loc[t][x])] /\ UNCHANGED shared
  /\ loc' = [loc EXCEPT ![t] = ZeroLeaves]
  /\ UNCHANGED <<clock, last, added>>

Next == \/ \E d \in Ticks : Tick(d)
        \/ \E t \in Threads : \/ Start(t) \/ FlushAll(t) \/ Exit(t)
                              \/ \E l \in Leaves : \/ \E v \in Amounts : Upd(t, l, v)
                                                   \/ Get(t, l) \/ Reset(t, l) \/ FlushLeaf(t, l)
Spec == Init /\ [][Next]_vars

(* ---------------- properties ---------------- *)
SumLoc(l) == LET RECURSIVE S(_) S(ts) == IF ts = {} THEN Z ELSE LET t == CHOOSE x \in ts : TRUE IN Plus(loc[t][l], S(ts \ {t})) IN S(Threads)
\* nothing is lost or counted twice: every update is in the shared child, still pending in exactly one root, or was explicitly discarded
Conservation == \A l \in Leaves : Plus(Plus(shared[l], SumLoc(l)), lost[l]) = added[l]
\* only live roots hold data
DeadHoldNothing == \A t \in Threads \ alive : loc[t] = ZeroLeaves
\* a root's flush time is a clock value that was read: never in the future
LastNotInFuture == \A t \in alive : last[t] <= clock
\* an update that finds the interval elapsed hands everything over (timeliness); one that does not, touches nothing shared (no early flush)
UpdRule == [][\A t \in Threads, l \in Leaves, v \in Amounts : Upd(t, l, v) =>
                 IF Due(t) THEN loc'[t] = ZeroLeaves /\ last'[t] = clock ELSE shared' = shared /\ last'[t] = last[t]]_vars
\* the shared children only ever grow, the clock and the flush times only move forward
Monotone == [][/\ clock' >= clock
               /\ \A l \in Leaves : shared'[l].n >= shared[l].n /\ shared'[l].s >= shared[l].s
               /\ \A t \in Threads : (t \in alive /\ t \in alive') => last'[t] >= last[t]]_vars
=============================================================================
