---------------------------- MODULE LinReg ----------------------------
(* API-level oracle for concurrent use of a Registry: is each recorded history linearizable w.r.t. the sequential
   Registry specification?  register / unregister results and the SET of collectors a gather shows must be
   explained by one total order consistent with real time; the counter values a gather shows are judged per
   collector by the counter rule of C01 (gather reads the counters one after another).
   Input lines: [calls |-> <<[t, i, k, c?, v?, inv, ret, res]>>];  res of gather = <<<<cid, value>>, ...>>. *)
EXTENDS Registry, Json, IOUtils
Hists == ndJsonDeserialize(IOEnv.HISTS)

RECURSIVE SumOver(_, _)
SumOver(S, f) == IF S = {} THEN 0 ELSE LET x == CHOOSE x \in S : TRUE IN f[x] + SumOver(S \ {x}, f)
HasBit(s, v) == (s \div v) % 2 = 1
Explained(ops, c, v, g) ==
  LET H == {i \in DOMAIN ops : ops[i].k = "cinc" /\ ops[i].c = c}
      S == {i \in H : HasBit(v, ops[i].v)}
      amt == [i \in DOMAIN ops |-> IF ops[i].k = "cinc" THEN ops[i].v ELSE 0] IN
  /\ v >= 0 /\ SumOver(S, amt) = v
  /\ \A i \in H : ops[i].ret < g.inv => i \in S
  /\ \A i \in S : ops[i].inv < g.ret
ValuesOK(ops) == \A g \in {i \in DOMAIN ops : ops[i].k = "gather"} : \A j \in DOMAIN ops[g].res : Explained(ops, ops[g].res[j][1], ops[g].res[j][2], ops[g])

\* sequential semantics as pure functions of st = [reg, dims]
RegIdsOf(reg) == UNION {Ids(c) : c \in reg}
IdClashS(st, c) == \E i \in DOMAIN Collectors[c] : DescId(Collectors[c][i]) \in RegIdsOf(st.reg)
DimClashS(st, c) == \E i \in DOMAIN Collectors[c] : LET d == Collectors[c][i] IN d.name \in DOMAIN st.dims /\ st.dims[d.name] # DimSig(d)
AdmitS(st, c) == [reg |-> st.reg \cup {c},
                  dims |-> [n \in DOMAIN st.dims \cup Names(c) |-> IF n \in DOMAIN st.dims THEN st.dims[n]
                              ELSE DimSig(Collectors[c][CHOOSE i \in DOMAIN Collectors[c] : Collectors[c][i].name = n])]]
SameS(st, c) == {r \in st.reg : Ids(r) = Ids(c)}
Apply(ops, i, st) ==
  LET o == ops[i] IN
  CASE o.k = "reg" ->
         IF IdClashS(st, o.c) \/ DimClashS(st, o.c) \/ LabelClash(o.c)
         THEN [ok |-> o.res # "Ok" /\ ((IdClashS(st, o.c) /\ ~DimClashS(st, o.c) /\ ~LabelClash(o.c)) => o.res = "AlreadyReg"), st |-> st]
         ELSE [ok |-> o.res = "Ok", st |-> AdmitS(st, o.c)]
    [] o.k = "unreg" ->
         IF SameS(st, o.c) # {} THEN [ok |-> o.res = "Ok", st |-> [st EXCEPT !.reg = @ \ SameS(st, o.c)]]
         ELSE [ok |-> o.res # "Ok", st |-> st]
    [] o.k = "gather" -> [ok |-> {o.res[j][1] : j \in DOMAIN o.res} = st.reg /\ Cardinality({o.res[j][1] : j \in DOMAIN o.res}) = Len(o.res), st |-> st]
    [] OTHER -> [ok |-> TRUE, st |-> st]

RECURSIVE Lin(_, _, _)
Lin(ops, done, st) ==
  \/ done = DOMAIN ops
  \/ \E i \in (DOMAIN ops) \ done :
        /\ \A j \in (DOMAIN ops) \ done : ~(ops[j].ret < ops[i].inv)
        /\ LET a == Apply(ops, i, st) IN a.ok /\ Lin(ops, done \cup {i}, a.st)

VARIABLE k
LInit == k = 1 /\ registered = {} /\ dims = << >>
LNext == k <= Len(Hists) /\ k' = k + 1 /\ UNCHANGED vars
LSpec == LInit /\ [][LNext]_<<k, vars>>
Linearizable == k <= Len(Hists) => ((ValuesOK(Hists[k].calls) /\ Lin(Hists[k].calls, {}, [reg |-> {}, dims |-> << >>])) \/ PrintT(<<"REJECTED", k>>))
=============================================================================
