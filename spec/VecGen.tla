---------------------------- MODULE VecGen ----------------------------
(* C05 generator: states are the inputs — ordered pairs (A, B) of label-value tuples of one arity.  For each
   pair the expected outcome of: request A, add 1, request B, add 2, request C (no update), collect. *)
EXTENDS Vec, Json, TLC
CONSTANTS ValSet, Arities, ThirdVal
TuplesOf(n) == [1..n -> ValSet]
VARIABLES a, b
GInit == children = << >> /\ \E n \in Arities : a \in TuplesOf(n) /\ b \in TuplesOf(n)
GSpec == GInit /\ [][UNCHANGED <<a, b, children>>]_<<a, b, children>>
c == [i \in DOMAIN a |-> ThirdVal]
Final == Get(Add(Get(Add(Get(<< >>, a), a, 1), b), b, 2), c)
Emit == PrintT(<<"CASE", ToJson([a |-> a, b |-> b, c |-> c, same |-> (a = b), keyeq |-> (KeyStream(a) = KeyStream(b)),
                                  final |-> SetToSeq({<<t, Final[t]>> : t \in DOMAIN Final})])>>)
Injective == (KeyStream(a) = KeyStream(b)) <=> (a = b)
=============================================================================
