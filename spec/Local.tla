---------------------------- MODULE Local ----------------------------
(* Local (unsync) metrics (src/counter.rs, src/histogram.rs): LocalCounter / LocalHistogram and their vector forms
   as a sequential state machine.  Amounts are records [n, s] (number of updates, their sum); a counter uses s.
   Kind = "counter": dropping a local handle discards what it holds (no Drop impl) — the property is silent about
                     it, so DropFlush is left open (either outcome) when something is pending;
   Kind = "hist"   : dropping a local histogram (or a local histogram vector) flushes it.                     *)
EXTENDS Integers, Sequences, FiniteSets, TLC

CONSTANTS Kind, Handles, VHandles, Keys, MaxId, FirstH, FirstVH

Z == [n |-> 0, s |-> 0]
Plus(a, b) == [n |-> a.n + b.n, s |-> a.s + b.s]
One(v) == [n |-> 1, s |-> v]

VARIABLES shared,            \* the shared metric
          direct, flushed,   \* ghost ledger: direct updates / total of flushed batches
          loc,               \* [Handles -> [st : {"none","alive","dropped"}, pend]]
          vmap,              \* [Keys -> child id, 0 = no child]  (children of the shared vector)
          cval,              \* [1..MaxId -> amount] value of every child ever created
          nid,
          vloc               \* [VHandles -> [st, cache : [Keys -> [id, pend]]]]  id 0 = nothing cached
vars == <<shared, direct, flushed, loc, vmap, cval, nid, vloc>>

NoCache == [k \in Keys |-> [id |-> 0, pend |-> Z]]
Init == /\ shared = Z /\ direct = Z /\ flushed = Z
        /\ loc = [h \in Handles |-> [st |-> IF h = FirstH THEN "alive" ELSE "none", pend |-> Z]]
        /\ vmap = [k \in Keys |-> 0] /\ cval = [i \in 1..MaxId |-> Z] /\ nid = 0
        /\ vloc = [h \in VHandles |-> [st |-> IF h = FirstVH THEN "alive" ELSE "none", cache |-> NoCache]]

Alive(h) == loc[h].st = "alive"
VAlive(h) == vloc[h].st = "alive"
USingle == UNCHANGED <<vmap, cval, nid, vloc>>
UVec == UNCHANGED <<shared, direct, flushed, loc>>

(* ---------------- single shared metric with local handles ---------------- *)
LNew(h)       == loc[h].st = "none" /\ loc' = [loc EXCEPT ![h] = [st |-> "alive", pend |-> Z]]       \* metric.local()
                 /\ UNCHANGED <<shared, direct, flushed>> /\ USingle
LInc(h, v)    == Alive(h) /\ loc' = [loc EXCEPT ![h].pend = Plus(@, One(v))] /\ UNCHANGED <<shared, direct, flushed>> /\ USingle
\* flush adds exactly what was accumulated since the previous flush or reset; a second flush adds nothing
LFlush(h)     == Alive(h) /\ shared' = Plus(shared, loc[h].pend) /\ flushed' = Plus(flushed, loc[h].pend)
                 /\ loc' = [loc EXCEPT ![h].pend = Z] /\ UNCHANGED direct /\ USingle
\* reset / clear discards only unflushed local data
LReset(h)     == Alive(h) /\ loc' = [loc EXCEPT ![h].pend = Z] /\ UNCHANGED <<shared, direct, flushed>> /\ USingle
\* a clone starts empty
LClone(h, g)  == Alive(h) /\ loc[g].st = "none" /\ loc' = [loc EXCEPT ![g] = [st |-> "alive", pend |-> Z]]
                 /\ UNCHANGED <<shared, direct, flushed>> /\ USingle
\* g.clone_from(&h): the value g held is dropped (a local histogram flushes; a local counter: unspecified when something is
\* pending) and g becomes a fresh clone of h
LCloneFrom(h, g, f) == Alive(h) /\ Alive(g) /\ h # g /\ (Kind = "hist" => f = TRUE)
                 /\ shared' = (IF f THEN Plus(shared, loc[g].pend) ELSE shared)
                 /\ flushed' = (IF f THEN Plus(flushed, loc[g].pend) ELSE flushed)
                 /\ loc' = [loc EXCEPT ![g].pend = Z] /\ UNCHANGED direct /\ USingle
DropFlushes(f) == IF Kind = "hist" THEN f = TRUE ELSE TRUE            \* counters: unspecified when something is pending
LDrop(h, f)   == Alive(h) /\ DropFlushes(f)
                 /\ shared' = (IF f THEN Plus(shared, loc[h].pend) ELSE shared)
                 /\ flushed' = (IF f THEN Plus(flushed, loc[h].pend) ELSE flushed)
                 /\ loc' = [loc EXCEPT ![h] = [st |-> "dropped", pend |-> Z]] /\ UNCHANGED direct /\ USingle
Direct(v)     == shared' = Plus(shared, One(v)) /\ direct' = Plus(direct, One(v)) /\ UNCHANGED <<flushed, loc>> /\ USingle

(* ---------------- shared vector with local vector handles ---------------- *)
ChildOf(k)    == IF vmap[k] # 0 THEN vmap[k] ELSE nid + 1
Touch(k)      == /\ vmap' = [vmap EXCEPT ![k] = ChildOf(k)]
                 /\ nid' = (IF vmap[k] # 0 THEN nid ELSE nid + 1)
LVInc(h, k, v) ==  \* with_label_values(k) caches a local handle of the CURRENT child (creating it), then accumulates locally
  /\ VAlive(h) /\ nid < MaxId
  /\ IF vloc[h].cache[k].id # 0
     THEN /\ vloc' = [vloc EXCEPT ![h].cache[k].pend = Plus(@, One(v))] /\ UNCHANGED <<vmap, nid>>
     ELSE /\ Touch(k) /\ vloc' = [vloc EXCEPT ![h].cache[k] = [id |-> ChildOf(k), pend |-> One(v)]]
  /\ UNCHANGED cval /\ UVec
Cached(h)     == {k \in Keys : vloc[h].cache[k].id # 0}
FlushAll(h)   == [i \in 1..MaxId |-> LET ks == {k \in Cached(h) : vloc[h].cache[k].id = i} IN
                    IF ks = {} THEN cval[i] ELSE Plus(cval[i], vloc[h].cache[CHOOSE k \in ks : TRUE].pend)]
LVFlush(h)    == VAlive(h) /\ cval' = FlushAll(h)
                 /\ vloc' = [vloc EXCEPT ![h].cache = [k \in Keys |-> [id |-> vloc[h].cache[k].id, pend |-> Z]]]
                 /\ UNCHANGED <<vmap, nid>> /\ UVec
\* remove_label_values: the cached local handle is dropped (histogram: flushed into its child), then the child is
\* deleted from the shared vector; Err when there is no such child
LVRemove(h, k, f) ==
  /\ VAlive(h) /\ DropFlushes(f)
  /\ LET c == vloc[h].cache[k] IN
     /\ cval' = (IF c.id # 0 /\ f THEN [cval EXCEPT ![c.id] = Plus(@, c.pend)] ELSE cval)
     /\ vloc' = [vloc EXCEPT ![h].cache[k] = [id |-> 0, pend |-> Z]]
  /\ vmap' = [vmap EXCEPT ![k] = 0]
  /\ UNCHANGED nid /\ UVec
RemoveOk(k)   == vmap[k] # 0
LVClone(h, g) == VAlive(h) /\ vloc[g].st = "none" /\ vloc' = [vloc EXCEPT ![g] = [st |-> "alive", cache |-> NoCache]]
                 /\ UNCHANGED <<vmap, cval, nid>> /\ UVec
LVDrop(h, f)  == VAlive(h) /\ DropFlushes(f)
                 /\ cval' = (IF f THEN FlushAll(h) ELSE cval)
                 /\ vloc' = [vloc EXCEPT ![h] = [st |-> "dropped", cache |-> NoCache]]
                 /\ UNCHANGED <<vmap, nid>> /\ UVec
DirectV(k, v) == nid < MaxId /\ Touch(k) /\ cval' = [cval EXCEPT ![ChildOf(k)] = Plus(@, One(v))] /\ UNCHANGED vloc /\ UVec
DirectRemove(k) == vmap' = [vmap EXCEPT ![k] = 0] /\ UNCHANGED <<cval, nid, vloc>> /\ UVec

(* ---------------- properties ---------------- *)
\* the shared metric always equals its own direct updates plus the total of the flushed batches
Ledger == shared = Plus(direct, flushed)
\* nothing is counted twice, nothing invented: whatever sits in handles plus what is shared never exceeds what was produced
PendingTotal == LET F[S \in SUBSET Handles] == IF S = {} THEN Z ELSE LET h == CHOOSE x \in S : TRUE IN Plus(loc[h].pend, F[S \ {h}]) IN F[Handles]
\* observable state
Collect == [k \in {x \in Keys : vmap[x] # 0} |-> cval[vmap[k]]]
=============================================================================
