---------------------------- MODULE Histogram ----------------------------
(* Abstract sequential histogram (src/histogram.rs): bucket configuration rule, observation rule, snapshot.
   Shared by Histogram, HistogramVec children and LocalHistogram. *)
EXTENDS Floats, FiniteSets

\* A configuration is accepted exactly when its bounds are strictly increasing numbers; an empty list selects the
\* default buckets; a trailing +Inf bound is dropped (the +Inf bucket is implicit).
Accepted(bs) == /\ \A i \in DOMAIN bs : IsNum(bs[i])
                /\ \A i \in 1..(Len(bs) - 1) : FLt(bs[i], bs[i + 1])
Adjusted(bs) == IF bs # <<>> /\ bs[Len(bs)].c = "pinf" THEN SubSeq(bs, 1, Len(bs) - 1) ELSE bs
UsesDefault(bs) == bs = <<>>

\* every bound counts the observations not greater than it; NaN and values above every bound only count in +Inf
CumCount(ubs, obs, i) == Cardinality({j \in DOMAIN obs : FLe(obs[j], ubs[i])})
Snapshot(ubs, obs) == [count |-> Len(obs), sum |-> FSum(Zero, obs), cum |-> [i \in DOMAIN ubs |-> CumCount(ubs, obs, i)]]

\* the implementation increments the first matching bucket and accumulates on collection; for strictly increasing
\* bounds the two formulations agree (checked by TLC over the generated cases)
FirstBucket(ubs, v) == IF \E i \in DOMAIN ubs : FLe(v, ubs[i]) THEN CHOOSE i \in DOMAIN ubs : FLe(v, ubs[i]) /\ \A j \in 1..(i - 1) : ~FLe(v, ubs[j]) ELSE 0
CumByFirst(ubs, obs, i) == Cardinality({j \in DOMAIN obs : FirstBucket(ubs, obs[j]) # 0 /\ FirstBucket(ubs, obs[j]) <= i})
Monotone(s) == \A i \in 1..(Len(s.cum) - 1) : s.cum[i] <= s.cum[i + 1]
=============================================================================
