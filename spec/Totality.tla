---------------------------- MODULE Totality ----------------------------
(* C17: every fallible API is total — for each argument it answers Ok or Err, never panics.  This module gives the
   verdict ("Ok", "Err", or "Any" where neither the documentation nor the property fixes it) for the argument
   spaces not already covered by Desc (names), Vec (label requests), Histogram (bucket lists) and Registry:
   the bucket helper functions and the encoders.  States are the inputs. *)
EXTENDS Floats, Json, TLC
CONSTANTS FVals, Counts
VARIABLES mode, a, b, n, ty, named, nmetrics, enc, failAfter
vars == <<mode, a, b, n, ty, named, nmetrics, enc, failAfter>>
Types == {"COUNTER", "GAUGE", "SUMMARY", "UNTYPED", "HISTOGRAM"}
Init == \/ /\ mode \in {"linear", "exponential"} /\ a \in FVals /\ b \in FVals /\ n \in Counts
           /\ ty = "-" /\ named = TRUE /\ nmetrics = 0 /\ enc = "-" /\ failAfter = -1
        \/ /\ mode = "encode" /\ a = Zero /\ b = Zero /\ n = 0
           /\ ty \in Types /\ named \in BOOLEAN /\ nmetrics \in 0..2 /\ enc \in {"text", "protobuf"} /\ failAfter \in {-1, 0, 3}
Spec == Init /\ [][UNCHANGED vars]_vars

Ordinary(x) == x.c \in {"fin", "nz"}
\* linear_buckets(start, width, count): "an error if count is zero or width is zero or negative"
Linear == IF n < 1 THEN "Err"
          ELSE IF IsNum(b) /\ FLe(b, Zero) THEN "Err"
          ELSE IF Ordinary(a) /\ Ordinary(b) THEN "Ok" ELSE "Any"        \* NaN / infinite parameters: not specified
\* exponential_buckets(start, factor, count): "an error if count is zero, start is zero or negative, factor <= 1"
Exponential == IF n < 1 THEN "Err"
               ELSE IF IsNum(a) /\ FLe(a, Zero) THEN "Err"
               ELSE IF IsNum(b) /\ FLe(b, Fin(1)) THEN "Err"
               ELSE IF Ordinary(a) /\ Ordinary(b) THEN "Ok" ELSE "Any"
\* encoders: a family without a name or without samples is refused; the text format has no rendering for UNTYPED;
\* a writer that fails makes the call fail (unless nothing had to be written)
Encode == IF ~named \/ nmetrics = 0 THEN "Err"
          ELSE IF enc = "text" /\ ty = "UNTYPED" THEN "Err"
          ELSE IF failAfter >= 0 THEN "Err" ELSE "Ok"
Expected == CASE mode = "linear" -> Linear [] mode = "exponential" -> Exponential [] OTHER -> Encode
Emit == PrintT(<<"CASE", ToJson([mode |-> mode, a |-> a, b |-> b, n |-> n, ty |-> ty, named |-> named, nmetrics |-> nmetrics,
                                  enc |-> enc, failAfter |-> failAfter, expected |-> Expected])>>)
Total == Expected \in {"Ok", "Err", "Any"}
=============================================================================
