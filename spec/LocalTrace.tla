---------------------------- MODULE LocalTrace ----------------------------
(* Trace validation for C12: long random histories recorded from the real local metrics must be behaviours of
   Local.tla.  Where the property is silent (a local COUNTER dropped / evicted with something pending) both
   outcomes are allowed and the observed state decides which one was taken. *)
EXTENDS Local, Json, IOUtils
Rec == ndJsonDeserialize(IOEnv.TRACE)
VARIABLE l
E == Rec[l]
IsEvent(op) == l <= Len(Rec) /\ Rec[l].op = op /\ l' = l + 1
Amount(r) == [n |-> r.n, s |-> r.s]
\* a counter exposes only the sum; a histogram also the number of observations
AmtEq(r, a) == r.s = a.s /\ (Kind = "hist" => r.n = a.n)
ObsOK == /\ AmtEq(E.obs.shared, shared')
         /\ \A h \in Handles : IF loc'[h].st = "alive" THEN AmtEq(E.obs.locs[h], loc'[h].pend) ELSE E.obs.locs[h].n = -1
         /\ \A k \in Keys : IF vmap'[k] # 0 THEN AmtEq(E.obs.coll[k], cval'[vmap'[k]]) ELSE E.obs.coll[k].n = -1
TNew == IsEvent("new") /\ shared' = Z /\ direct' = Z /\ flushed' = Z
        /\ loc' = [h \in Handles |-> [st |-> IF h = FirstH THEN "alive" ELSE "none", pend |-> Z]]
        /\ vmap' = [k \in Keys |-> 0] /\ cval' = [i \in 1..MaxId |-> Z] /\ nid' = 0
        /\ vloc' = [h \in VHandles |-> [st |-> IF h = FirstVH THEN "alive" ELSE "none", cache |-> NoCache]]
TStep ==
  \/ IsEvent("lnew") /\ LNew(E.h)
  \/ IsEvent("linc") /\ LInc(E.h, E.v)
  \/ IsEvent("lflush") /\ LFlush(E.h)
  \/ IsEvent("lreset") /\ LReset(E.h)
  \/ IsEvent("lclone") /\ LClone(E.h, E.g)
  \/ IsEvent("lclonefrom") /\ \E f \in BOOLEAN : LCloneFrom(E.h, E.g, f)
  \/ IsEvent("ldrop") /\ \E f \in BOOLEAN : LDrop(E.h, f)
  \/ IsEvent("direct") /\ Direct(E.v)
  \/ IsEvent("lvinc") /\ LVInc(E.h, E.k, E.v)
  \/ IsEvent("lvflush") /\ LVFlush(E.h)
  \/ IsEvent("lvremove") /\ (E.res = "Ok" <=> RemoveOk(E.k)) /\ \E f \in BOOLEAN : LVRemove(E.h, E.k, f)
  \/ IsEvent("lvclone") /\ LVClone(E.h, E.g)
  \/ IsEvent("lvdrop") /\ \E f \in BOOLEAN : LVDrop(E.h, f)
  \/ IsEvent("directv") /\ DirectV(E.k, E.v)
  \/ IsEvent("directremove") /\ (E.res = "Ok" <=> RemoveOk(E.k)) /\ DirectRemove(E.k)
TNext == TNew \/ (TStep /\ ObsOK)
TSpec == (Init /\ l = 1) /\ [][TNext]_<<vars, l>>
TraceAccepted == LET d == TLCGet("stats").diameter IN
                 IF d - 1 = Len(Rec) THEN TRUE ELSE Print(<<"TRACE-REJECTED-AT", d, IF d <= Len(Rec) THEN Rec[d] ELSE "end">>, FALSE)
LedgerHolds == Ledger
=============================================================================
