---------------------------- MODULE RegImpl ----------------------------
(* Step-level model of Registry under concurrency (src/registry.rs): register / unregister take the registry's
   write lock for the whole admission check and mutation; gather holds the read lock while it collects every
   registered collector (one load per counter) and sorts; updates of the collectors' counters take no lock.
   Extends the sequential Registry specification: the lock-protected critical sections ARE its actions.
   Collectors here are single-descriptor integer counters. *)
EXTENDS Registry

CONSTANTS Threads, Script    \* op = [k |-> "reg" | "unreg", c] | [k |-> "gather"] | [k |-> "cinc", c, v]
VARIABLES cval,              \* [Cids -> Nat] value of each collector's counter
          lockW, lockR, pc, ip, loc
ivars == <<registered, dims, cval, lockW, lockR, pc, ip, loc>>
Op(t) == Script[t][ip[t]]

IInit == /\ Init /\ cval = [c \in Cids |-> 0]
         /\ lockW = "none" /\ lockR = {}
         /\ pc = [t \in Threads |-> "idle"] /\ ip = [t \in Threads |-> 1]
         /\ loc = [t \in Threads |-> [res |-> "-", todo |-> {}, seen |-> {}]]
Finish(t) == pc' = [pc EXCEPT ![t] = "idle"] /\ ip' = [ip EXCEPT ![t] = @ + 1]
CanRead == lockW = "none"
CanWrite == lockW = "none" /\ lockR = {}

Start(t) == /\ pc[t] = "idle" /\ ip[t] <= Len(Script[t])
            /\ pc' = [pc EXCEPT ![t] = CASE Op(t).k = "reg" -> "r_wlock" [] Op(t).k = "unreg" -> "u_wlock"
                                         [] Op(t).k = "gather" -> "g_rlock" [] OTHER -> "c_add"]
            /\ UNCHANGED <<registered, dims, cval, lockW, lockR, ip, loc>>
RegWLock(t) == /\ pc[t] = "r_wlock" /\ CanWrite /\ lockW' = t
               /\ \/ RegisterOk(Op(t).c) /\ loc' = [loc EXCEPT ![t].res = "Ok"]
                  \/ RegisterErr(Op(t).c) /\ loc' = [loc EXCEPT ![t].res = ErrKind(Op(t).c)]
               /\ pc' = [pc EXCEPT ![t] = "wunlock"] /\ UNCHANGED <<cval, lockR, ip>>
UnregWLock(t) == /\ pc[t] = "u_wlock" /\ CanWrite /\ lockW' = t
                 /\ \/ UnregisterOk(Op(t).c) /\ loc' = [loc EXCEPT ![t].res = "Ok"]
                    \/ UnregisterErr(Op(t).c) /\ loc' = [loc EXCEPT ![t].res = "Err"]
                 /\ pc' = [pc EXCEPT ![t] = "wunlock"] /\ UNCHANGED <<cval, lockR, ip>>
WUnlock(t) == pc[t] = "wunlock" /\ lockW' = "none" /\ Finish(t) /\ UNCHANGED <<registered, dims, cval, lockR, loc>>
GatherRLock(t) == /\ pc[t] = "g_rlock" /\ CanRead /\ lockR' = lockR \cup {t}
                  /\ loc' = [loc EXCEPT ![t].todo = registered, ![t].seen = {}]
                  /\ pc' = [pc EXCEPT ![t] = IF registered = {} THEN "g_runlock" ELSE "g_child"]
                  /\ UNCHANGED <<registered, dims, cval, lockW, ip>>
GatherChild(t) == /\ pc[t] = "g_child"
                  /\ \E c \in loc[t].todo :
                       /\ loc' = [loc EXCEPT ![t].todo = @ \ {c}, ![t].seen = @ \cup {<<c, cval[c]>>}]
                       /\ pc' = [pc EXCEPT ![t] = IF loc[t].todo = {c} THEN "g_runlock" ELSE "g_child"]
                  /\ UNCHANGED <<registered, dims, cval, lockW, lockR, ip>>
GatherRUnlock(t) == pc[t] = "g_runlock" /\ lockR' = lockR \ {t} /\ Finish(t) /\ UNCHANGED <<registered, dims, cval, lockW, loc>>
CAdd(t) == pc[t] = "c_add" /\ cval' = [cval EXCEPT ![Op(t).c] = @ + Op(t).v] /\ Finish(t) /\ UNCHANGED <<registered, dims, lockW, lockR, loc>>

Step(t) == Start(t) \/ RegWLock(t) \/ UnregWLock(t) \/ WUnlock(t) \/ GatherRLock(t) \/ GatherChild(t) \/ GatherRUnlock(t) \/ CAdd(t)
INext == \E t \in Threads : Step(t)
ISpec == IInit /\ [][INext]_ivars /\ \A t \in Threads : WF_ivars(Step(t))
AllDone == \A t \in Threads : pc[t] = "idle" /\ ip[t] > Len(Script[t])

LockSafety == lockW # "none" => lockR = {}
\* a gather in progress sees every collector entirely or not at all: what it has read and what it will read is exactly the
\* registered set at the moment it took the read lock, and that set cannot change while it holds the lock
GatherSeesSnapshot == \A t \in Threads : pc[t] \in {"g_child", "g_runlock"} => {p[1] : p \in loc[t].seen} \cup loc[t].todo = registered
\* the sequential specification is implemented: every step of this model is a step (or a stutter) of Registry
RefinesRegistry == Init /\ [][Next]_vars
Termination == <>AllDone
=============================================================================
