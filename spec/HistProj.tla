---------------------------- MODULE HistProj ----------------------------
(* Replay-material generator: HistImpl plus a redundant JSON projection of the shared cells. *)
EXTENDS HistImpl, Json
VARIABLE proj
P(sc_, cnt_, sum_, bkt_, lock_, pc_) ==
  ToJson([sc |-> sc_, cnt |-> <<cnt_[0], cnt_[1]>>, sum |-> <<sum_[0], sum_[1]>>,
          bkt |-> <<bkt_[0], bkt_[1]>>, lock |-> lock_, pc |-> pc_])
PInit == Init /\ proj = P(sc, cnt, sum, bkt, lock, pc)
PStep(t) == Step(t) /\ proj' = P(sc', cnt', sum', bkt', lock', pc')
PNext == \E t \in Threads : PStep(t)
PSpec == PInit /\ [][PNext]_<<vars, proj>>
=============================================================================
