---------------------------- MODULE TextFormat ----------------------------
(* Prometheus text exposition format 0.0.4 as a line-level parser state machine — the "independent parser"
   of C04 is this specification.  Input (ndjson, IOEnv.TRACE): events
       [ev |-> "begin"]                                        one encoder output starts
       [ev |-> "line",  s |-> <<unicode scalars of one \n-terminated line>>]
       [ev |-> "end", id, exp |-> <<the encoded families>>]    the output ended (with a final \n)
   One TLC state per event.  Strings are sequences of Unicode scalar values.  A numeric value is parsed to
   [c |-> class] (fin / nan / pinf / ninf) and its token is collected, in order, for an independent numeric
   parse outside TLA+ (TLC has no reals); counts are parsed to naturals.

   family = [name, help, type, metrics : Seq(metric)]
   metric = [labels : Seq(<<name, value>>), ts : Str,                         ("" = no timestamp)
             val : class                                                      counter / gauge / untyped
             bk : Seq([le : class, cc : Nat]), count : Nat, sum : class,      histogram
             qs : Seq([q : class, v : class])]                                summary                   *)
EXTENDS Integers, Sequences, FiniteSets, TLC, Json, IOUtils

Rec == ndJsonDeserialize(IOEnv.TRACE)

SPACE == 32  QUOTE == 34  HASH == 35  COMMA == 44  EQUALS == 61  BSLASH == 92  LBRACE == 123  RBRACE == 125  NEWLINE == 10  LOWER_N == 110
S(str) == str   \* strings are given as tuples of scalars by the callers below
HELP_ == <<35, 32, 72, 69, 76, 80, 32>>       \* "# HELP "
TYPE_ == <<35, 32, 84, 89, 80, 69, 32>>       \* "# TYPE "
BUCKET_ == <<95, 98, 117, 99, 107, 101, 116>> \* "_bucket"
SUM_ == <<95, 115, 117, 109>>                 \* "_sum"
COUNT_ == <<95, 99, 111, 117, 110, 116>>      \* "_count"
LE_ == <<108, 101>>                           \* "le"
QUANTILE_ == <<113, 117, 97, 110, 116, 105, 108, 101>>
TCOUNTER == <<99, 111, 117, 110, 116, 101, 114>>
TGAUGE == <<103, 97, 117, 103, 101>>
THISTOGRAM == <<104, 105, 115, 116, 111, 103, 114, 97, 109>>
TSUMMARY == <<115, 117, 109, 109, 97, 114, 121>>
TUNTYPED == <<117, 110, 116, 121, 112, 101, 100>>

(* ---------------- lexical helpers (index based; a line is never copied unless a token is extracted) -------- *)
HasPrefixAt(s, i, p) == i + Len(p) - 1 <= Len(s) /\ \A j \in 1..Len(p) : s[i + j - 1] = p[j]
Sub(s, i, j) == IF j < i THEN <<>> ELSE SubSeq(s, i, j)
RECURSIVE Find(_, _, _)          \* first index >= i with s[index] = c, or Len(s)+1
Find(s, i, c) == IF i > Len(s) THEN Len(s) + 1 ELSE IF s[i] = c THEN i ELSE Find(s, i + 1, c)
RECURSIVE FindAny(_, _, _)
FindAny(s, i, C) == IF i > Len(s) THEN Len(s) + 1 ELSE IF s[i] \in C THEN i ELSE FindAny(s, i + 1, C)

IsDigit(c) == c \in 48..57
Lower(c) == IF c \in 65..90 THEN c + 32 ELSE c
LowerSeq(s) == [i \in DOMAIN s |-> Lower(s[i])]
RECURSIVE AllDigits(_, _, _)
AllDigits(s, i, j) == i > j \/ (IsDigit(s[i]) /\ AllDigits(s, i + 1, j))
\* Go strconv.ParseFloat decimal grammar:  [+-]? (digits [. digits*] | . digits) ([eE] [+-]? digits)?  | [+-]? inf | infinity | nan
Unsigned(t) == IF t # <<>> /\ t[1] \in {43, 45} THEN Tail(t) ELSE t
IsNanTok(t) == LowerSeq(t) = <<110, 97, 110>>
IsInfTok(t) == LowerSeq(Unsigned(t)) \in {<<105, 110, 102>>, <<105, 110, 102, 105, 110, 105, 116, 121>>}
Mantissa(m) == LET d == Find(m, 1, 46) IN    \* position of '.'
                 IF d > Len(m) THEN Len(m) >= 1 /\ AllDigits(m, 1, Len(m))
                 ELSE /\ AllDigits(m, 1, d - 1) /\ AllDigits(m, d + 1, Len(m)) /\ (d - 1) + (Len(m) - d) >= 1
IsDecimalTok(t) == LET u == Unsigned(t)
                       e == FindAny(u, 1, {69, 101}) IN
                   /\ u # <<>>
                   /\ Mantissa(Sub(u, 1, e - 1))
                   /\ (e <= Len(u) => LET x == Unsigned(Sub(u, e + 1, Len(u))) IN Len(x) >= 1 /\ AllDigits(x, 1, Len(x)))
ValidValueTok(t) == IsNanTok(t) \/ IsInfTok(t) \/ IsDecimalTok(t)
ClassOf(t) == IF IsNanTok(t) THEN "nan" ELSE IF IsInfTok(t) THEN (IF t[1] = 45 THEN "ninf" ELSE "pinf") ELSE "fin"
\* a count printed as a float: digits only (no fraction, no exponent) for the magnitudes generated here
RECURSIVE NatOf(_, _, _)
NatOf(s, i, acc) == IF i > Len(s) THEN acc ELSE NatOf(s, i + 1, acc * 10 + (s[i] - 48))
\* counts are compared as digit strings (a u64 count does not fit TLC's integers); no sign, no leading zero except "0" itself
IsNatTok(t) == Len(t) \in 1..20 /\ AllDigits(t, 1, Len(t)) /\ (Len(t) > 1 => t[1] # 48)
IsIntTok(t) == LET u == Unsigned(t) IN Len(u) >= 1 /\ AllDigits(u, 1, Len(u)) /\ (t[1] # 43)

\* unescape: "\\" -> "\", "\n" -> newline, and inside label values "\"" -> quote.  result [ok, s]
RECURSIVE Unesc(_, _, _, _, _)
Unesc(s, i, j, inLabel, acc) ==
  IF i > j THEN [ok |-> TRUE, s |-> acc]
  ELSE IF s[i] # BSLASH THEN Unesc(s, i + 1, j, inLabel, Append(acc, s[i]))
  ELSE IF i = j THEN [ok |-> FALSE, s |-> acc]
  ELSE IF s[i + 1] = BSLASH THEN Unesc(s, i + 2, j, inLabel, Append(acc, BSLASH))
  ELSE IF s[i + 1] = LOWER_N THEN Unesc(s, i + 2, j, inLabel, Append(acc, NEWLINE))
  ELSE IF s[i + 1] = QUOTE /\ inLabel THEN Unesc(s, i + 2, j, inLabel, Append(acc, QUOTE))
  ELSE [ok |-> FALSE, s |-> acc]

\* end of a quoted label value starting at i (just after the opening quote): index of the closing quote
RECURSIVE ClosingQuote(_, _)
ClosingQuote(s, i) == IF i > Len(s) THEN Len(s) + 1
                      ELSE IF s[i] = BSLASH THEN ClosingQuote(s, i + 2)
                      ELSE IF s[i] = QUOTE THEN i ELSE ClosingQuote(s, i + 1)

\* labels  {name="value",name="value"}  starting at the '{' at index i.  result [ok, labels, next]
RECURSIVE Labels(_, _, _)
Labels(s, i, acc) ==
  \* i points at the first character of a label name (or at '}' for an empty / trailing-comma set)
  IF i > Len(s) THEN [ok |-> FALSE, labels |-> acc, next |-> i]
  ELSE IF s[i] = RBRACE THEN [ok |-> TRUE, labels |-> acc, next |-> i + 1]
  ELSE LET e == Find(s, i, EQUALS) IN
       IF e > Len(s) \/ e + 1 > Len(s) \/ s[e + 1] # QUOTE \/ e = i THEN [ok |-> FALSE, labels |-> acc, next |-> i]
       ELSE LET q == ClosingQuote(s, e + 2)
                u == Unesc(s, e + 2, q - 1, TRUE, <<>>) IN
            IF q > Len(s) \/ ~u.ok THEN [ok |-> FALSE, labels |-> acc, next |-> i]
            ELSE LET acc2 == Append(acc, <<Sub(s, i, e - 1), u.s>>) IN
                 IF q + 1 <= Len(s) /\ s[q + 1] = COMMA THEN Labels(s, q + 2, acc2)
                 ELSE IF q + 1 <= Len(s) /\ s[q + 1] = RBRACE THEN [ok |-> TRUE, labels |-> acc2, next |-> q + 2]
                 ELSE [ok |-> FALSE, labels |-> acc2, next |-> q + 1]

\* a sample line:  name[{labels}] SP value [SP timestamp]
Sample(s) ==
  LET n == FindAny(s, 1, {LBRACE, SPACE})
      name == Sub(s, 1, n - 1)
      lb == IF n <= Len(s) /\ s[n] = LBRACE THEN Labels(s, n + 1, <<>>) ELSE [ok |-> TRUE, labels |-> <<>>, next |-> n]
      v1 == lb.next + 1                                   \* after the separating space
      v2 == Find(s, v1, SPACE)
      vtok == Sub(s, v1, v2 - 1)
      ttok == IF v2 <= Len(s) THEN Sub(s, v2 + 1, Len(s)) ELSE <<>>
  IN [ok |-> /\ name # <<>> /\ lb.ok /\ lb.next <= Len(s) /\ s[lb.next] = SPACE
             /\ ValidValueTok(vtok) /\ (v2 <= Len(s) => IsIntTok(ttok)),
      name |-> name, labels |-> lb.labels, vtok |-> vtok, ts |-> ttok]

(* ---------------- the line-level state machine ---------------- *)
VARIABLES l,        \* position in the recorded event sequence
          out,      \* families completed so far (of the current encoder output)
          cur,      \* family under construction: [on, name, help, type, metrics]
          open,     \* histogram / summary metric under construction: [on, labels, ts, bk, qs, sum, hasSum]
          toks,     \* numeric tokens of finite values, in order of appearance
          bad       \* first reason why the current output is not well-formed ("" = none)
vars == <<l, out, cur, open, toks, bad>>

NoFam == [on |-> FALSE, name |-> <<>>, help |-> <<>>, type |-> <<>>, metrics |-> <<>>]
NoOpen == [on |-> FALSE, labels |-> <<>>, ts |-> <<>>, bk |-> <<>>, qs |-> <<>>, sum |-> "fin", hasSum |-> FALSE]
Init == l = 1 /\ out = <<>> /\ cur = NoFam /\ open = NoOpen /\ toks = <<>> /\ bad = ""

FamOf(c) == [name |-> c.name, help |-> c.help, type |-> c.type, metrics |-> c.metrics]
Flush(o, c) == IF c.on THEN Append(o, FamOf(c)) ELSE o
E == Rec[l]
Fail(why) == bad' = (IF bad = "" THEN why ELSE bad)
Tok(t) == IF ClassOf(t) = "fin" THEN <<t>> ELSE <<>>
WithoutLabel(ls, n) == SelectSeq(ls, LAMBDA p : p[1] # n)
LabelValue(ls, n) == LET m == SelectSeq(ls, LAMBDA p : p[1] = n) IN IF m = <<>> THEN <<>> ELSE m[1][2]
HasLabel(ls, n) == SelectSeq(ls, LAMBDA p : p[1] = n) # <<>>

Begin == /\ E.ev = "begin"
         /\ out' = <<>> /\ cur' = NoFam /\ open' = NoOpen /\ toks' = <<>> /\ bad' = ""

HelpLine(s) ==
  LET n == Find(s, 8, SPACE)
      u == Unesc(s, n + 1, Len(s), FALSE, <<>>) IN
  /\ out' = Flush(out, cur)
  /\ cur' = [on |-> TRUE, name |-> Sub(s, 8, n - 1), help |-> u.s, type |-> <<>>, metrics |-> <<>>]
  /\ open' = NoOpen /\ UNCHANGED toks
  /\ IF open.on THEN Fail("metric not finished before HELP") ELSE IF n > Len(s) \/ ~u.ok THEN Fail("malformed HELP line") ELSE UNCHANGED bad

TypeLine(s) ==
  LET n == Find(s, 8, SPACE)
      name == Sub(s, 8, n - 1)
      ty == Sub(s, n + 1, Len(s)) IN
  /\ IF cur.on /\ cur.name = name /\ cur.type = <<>> /\ cur.metrics = <<>>
     THEN out' = out /\ cur' = [cur EXCEPT !.type = ty]
     ELSE out' = Flush(out, cur) /\ cur' = [on |-> TRUE, name |-> name, help |-> <<>>, type |-> ty, metrics |-> <<>>]
  /\ open' = NoOpen /\ UNCHANGED toks
  /\ IF open.on THEN Fail("metric not finished before TYPE")
     ELSE IF ty \notin {TCOUNTER, TGAUGE, THISTOGRAM, TSUMMARY, TUNTYPED} THEN Fail("unknown type") ELSE UNCHANGED bad

CloseOpen(c, o, count) ==
  [c EXCEPT !.metrics = Append(@, [labels |-> o.labels, ts |-> o.ts, val |-> "fin", bk |-> o.bk, count |-> count, sum |-> o.sum, qs |-> o.qs])]

SampleLine(s) ==
  LET p == Sample(s) IN
  IF ~p.ok THEN Fail("malformed sample line") /\ UNCHANGED <<out, cur, open, toks>>
  ELSE IF ~cur.on \/ cur.type = <<>> THEN Fail("sample before TYPE") /\ UNCHANGED <<out, cur, open, toks>>
  ELSE IF cur.type \in {TCOUNTER, TGAUGE, TUNTYPED} THEN
       /\ IF p.name = cur.name THEN UNCHANGED bad ELSE Fail("sample name does not belong to the family")
       /\ cur' = [cur EXCEPT !.metrics = Append(@, [labels |-> p.labels, ts |-> p.ts, val |-> ClassOf(p.vtok), bk |-> <<>>, count |-> <<>>, sum |-> "fin", qs |-> <<>>])]
       /\ toks' = toks \o Tok(p.vtok) /\ UNCHANGED <<out, open>>
  ELSE \* histogram or summary: several lines make one metric
       LET isH == cur.type = THISTOGRAM
           part == IF isH /\ p.name = cur.name \o BUCKET_ THEN "bucket"
                   ELSE IF ~isH /\ p.name = cur.name /\ HasLabel(p.labels, QUANTILE_) THEN "quantile"
                   ELSE IF p.name = cur.name \o SUM_ THEN "sum"
                   ELSE IF p.name = cur.name \o COUNT_ THEN "count" ELSE "other"
           extra == IF isH THEN LE_ ELSE QUANTILE_
           base == IF part \in {"bucket", "quantile"} THEN WithoutLabel(p.labels, extra) ELSE p.labels
           xtok == LabelValue(p.labels, extra)
           fresh == ~open.on
           o == IF fresh THEN [NoOpen EXCEPT !.on = TRUE, !.labels = base, !.ts = p.ts] ELSE open
           same == o.labels = base /\ o.ts = p.ts
       IN
       IF part = "other" THEN Fail("sample name does not belong to the family") /\ UNCHANGED <<out, cur, open, toks>>
       ELSE IF ~same THEN Fail("lines of one metric disagree in labels or timestamp") /\ UNCHANGED <<out, cur, open, toks>>
       ELSE IF part = "bucket" THEN
            /\ IF o.hasSum \/ ~HasLabel(p.labels, LE_) \/ ~ValidValueTok(xtok) \/ ~IsNatTok(p.vtok) THEN Fail("malformed bucket line") ELSE UNCHANGED bad
            /\ open' = [o EXCEPT !.bk = Append(@, [le |-> ClassOf(xtok), cc |-> IF IsNatTok(p.vtok) THEN p.vtok ELSE <<>>])]
            /\ toks' = toks \o Tok(xtok) /\ UNCHANGED <<out, cur>>
       ELSE IF part = "quantile" THEN
            /\ IF o.hasSum \/ ~ValidValueTok(xtok) THEN Fail("malformed quantile line") ELSE UNCHANGED bad
            /\ open' = [o EXCEPT !.qs = Append(@, [q |-> ClassOf(xtok), v |-> ClassOf(p.vtok)])]
            /\ toks' = toks \o Tok(xtok) \o Tok(p.vtok) /\ UNCHANGED <<out, cur>>
       ELSE IF part = "sum" THEN
            /\ IF o.hasSum THEN Fail("two _sum lines") ELSE UNCHANGED bad
            /\ open' = [o EXCEPT !.sum = ClassOf(p.vtok), !.hasSum = TRUE]
            /\ toks' = toks \o Tok(p.vtok) /\ UNCHANGED <<out, cur>>
       ELSE \* count closes the metric
            /\ IF ~o.hasSum \/ ~IsNatTok(p.vtok) THEN Fail("_count without _sum or not a count") ELSE UNCHANGED bad
            /\ cur' = CloseOpen(cur, o, IF IsNatTok(p.vtok) THEN p.vtok ELSE <<>>)
            /\ open' = NoOpen /\ UNCHANGED <<out, toks>>

Line == /\ E.ev = "line"
        /\ LET s == E.s IN
           IF HasPrefixAt(s, 1, HELP_) THEN HelpLine(s)
           ELSE IF HasPrefixAt(s, 1, TYPE_) THEN TypeLine(s)
           ELSE IF s = <<>> \/ s[1] = HASH THEN Fail("blank or comment line") /\ UNCHANGED <<out, cur, open, toks>>
           ELSE SampleLine(s)

\* order of two counts given as digit strings without leading zeros
RECURSIVE DigLexLeq(_, _, _)
DigLexLeq(a, b, i) == IF i > Len(a) THEN TRUE ELSE IF a[i] # b[i] THEN a[i] < b[i] ELSE DigLexLeq(a, b, i + 1)
DigLeq(a, b) == Len(a) < Len(b) \/ (Len(a) = Len(b) /\ DigLexLeq(a, b, 1))
\* every histogram shows its cumulative buckets plus a +Inf bucket equal to the count
HistShape(f) == f.type = THISTOGRAM => \A i \in DOMAIN f.metrics : LET m == f.metrics[i] IN
                   /\ Len(m.bk) >= 1 /\ m.bk[Len(m.bk)].le = "pinf" /\ m.bk[Len(m.bk)].cc = m.count
                   /\ \A j \in 1..(Len(m.bk) - 1) : DigLeq(m.bk[j].cc, m.bk[j + 1].cc)
Verdict(fams) == IF bad # "" THEN bad
                 ELSE IF open.on THEN "unfinished metric at end of output"
                 ELSE IF fams # E.exp THEN "parsed families differ from the encoded ones"
                 ELSE IF \E i \in DOMAIN fams : ~HistShape(fams[i]) THEN "histogram without +Inf bucket equal to count" ELSE ""
End == /\ E.ev = "end"
       /\ LET fams == Flush(out, cur)
              v == Verdict(fams) IN
          /\ PrintT(<<"RESULT", ToJson([id |-> E.id, v |-> v, toks |-> toks])>>)
          /\ (v = "parsed families differ from the encoded ones" => PrintT(<<"PARSED", ToJson([id |-> E.id, fams |-> fams])>>))
       /\ UNCHANGED <<out, cur, open, toks, bad>>

Next == l <= Len(Rec) /\ l' = l + 1 /\ (Begin \/ Line \/ End)
Spec == Init /\ [][Next]_vars
Consumed == TLCGet("stats").diameter - 1 = Len(Rec)
=============================================================================
