---------------------------- MODULE AtomProj ----------------------------
(* Replay-material generator: AtomImpl plus a redundant JSON projection of the shared cell. *)
EXTENDS AtomImpl, Json
VARIABLE proj
P(v_, pc_, ip_) == ToJson([v |-> v_, pc |-> pc_, ip |-> ip_])
PInit == Init /\ proj = P(val, pc, ip)
PStep(t) == Step(t) /\ proj' = P(val', pc', ip')
PNext == \E t \in Threads : PStep(t)
PSpec == PInit /\ [][PNext]_<<vars, proj>>
=============================================================================
