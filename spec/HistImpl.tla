---------------------------- MODULE HistImpl ----------------------------
(* Step-level model of HistogramCore (src/histogram.rs): observe, local flush,
   proto (collect), sample_sum, sample_count.  One action per atomic/lock op. *)
EXTENDS Integers, Sequences, FiniteSets, TLC

CONSTANTS Threads,      \* set of thread ids
          Script,       \* [Threads -> Seq(op)]  op = [k |-> "obs", v |-> Int] | [k |-> "flush", vs |-> Seq(Int)] | [k |-> "collect"] | [k |-> "sum"] | [k |-> "count"]
          Bounds,       \* Seq(Int) strictly increasing upper bounds
          F64Atomic     \* TRUE: AtomicF64::inc_by is one step; FALSE: load + CAS-weak loop

NB == Len(Bounds)
None == "none"

BucketOf(v) == IF \E i \in 1..NB : v <= Bounds[i]
               THEN CHOOSE i \in 1..NB : v <= Bounds[i] /\ \A j \in 1..(i-1) : ~(v <= Bounds[j])
               ELSE 0

VARIABLES sc,      \* [hot |-> 0..1, n |-> Nat]        shard_and_count
          cnt,     \* [0..1 -> Nat]                    shards[i].count
          sum,     \* [0..1 -> Int]                    shards[i].sum
          bkt,     \* [0..1 -> [1..NB -> Nat]]         shards[i].buckets
          lock,    \* collect_lock holder
          pc, ip, loc,
          agg      \* ghost: aggregate of all observations whose claim step has executed

vars == <<sc, cnt, sum, bkt, lock, pc, ip, loc, agg>>

ZeroB == [i \in 1..NB |-> 0]
ZeroAgg == [count |-> 0, sum |-> 0, b |-> ZeroB]
InitLoc == [s |-> 0, exp |-> 0, rd |-> 0, i |-> 0, csum |-> 0, snap |-> ZeroAgg, want |-> ZeroAgg, add |-> 0]

RECURSIVE SumSeq(_)
SumSeq(s) == IF s = <<>> THEN 0 ELSE Head(s) + SumSeq(Tail(s))
BCounts(vs) == [i \in 1..NB |-> Cardinality({j \in 1..Len(vs) : BucketOf(vs[j]) = i})]
AggOf(vs) == [count |-> Len(vs), sum |-> SumSeq(vs), b |-> BCounts(vs)]
AggAdd(a, c) == [count |-> a.count + c.count, sum |-> a.sum + c.sum, b |-> [i \in 1..NB |-> a.b[i] + c.b[i]]]

SumPc == IF F64Atomic THEN "sumadd" ELSE "sumload"
Op(t) == Script[t][ip[t]]
Batch(t) == IF Op(t).k = "obs" THEN <<Op(t).v>> ELSE Op(t).vs

Init == /\ sc = [hot |-> 0, n |-> 0]
        /\ cnt = [i \in 0..1 |-> 0]
        /\ sum = [i \in 0..1 |-> 0]
        /\ bkt = [i \in 0..1 |-> ZeroB]
        /\ lock = None
        /\ pc = [t \in Threads |-> "idle"]
        /\ ip = [t \in Threads |-> 1]
        /\ loc = [t \in Threads |-> InitLoc]
        /\ agg = ZeroAgg

Finish(t) == /\ pc' = [pc EXCEPT ![t] = "idle"]
             /\ ip' = [ip EXCEPT ![t] = @ + 1]

(* ---- dispatch: begin next scripted call ---- *)
Start(t) ==
  /\ pc[t] = "idle" /\ ip[t] <= Len(Script[t])
  /\ LET k == Op(t).k IN
     IF k = "flush" /\ Len(Op(t).vs) = 0
     THEN \* LocalHistogramCore::flush returns at once when nothing was observed: no shared step
          /\ ip' = [ip EXCEPT ![t] = @ + 1] /\ UNCHANGED pc
     ELSE /\ pc' = [pc EXCEPT ![t] = CASE k = "obs"     -> "claim"
                                       [] k = "flush"   -> "claim"
                                       [] k = "collect" -> "c_lock"
                                       [] k = "sum"     -> "s_lock"
                                       [] k = "count"   -> "n_load"]
          /\ UNCHANGED ip
  /\ UNCHANGED <<sc, cnt, sum, bkt, lock, loc, agg>>

(* ---- observe / LocalHistogramCore::flush ---- *)
\* next bucket index >= i with non-zero batch count (obs: the single bucket), or 0
NextB(t, i) == LET c == BCounts(Batch(t)) IN
               IF \E j \in i..NB : c[j] > 0 THEN CHOOSE j \in i..NB : c[j] > 0 /\ \A l \in i..(j-1) : c[l] = 0 ELSE 0


Claim(t) ==  \* shard_and_count.fetch_add(count, Acquire)
  /\ pc[t] = "claim"
  /\ sc' = [sc EXCEPT !.n = @ + Len(Batch(t))]
  /\ loc' = [loc EXCEPT ![t].s = sc.hot, ![t].i = 1, ![t].add = SumSeq(Batch(t))]
  /\ agg' = AggAdd(agg, AggOf(Batch(t)))
  /\ pc' = [pc EXCEPT ![t] = IF NextB(t, 1) = 0 THEN SumPc ELSE "bucket"]
  /\ UNCHANGED <<cnt, sum, bkt, lock, ip>>

BucketStep(t) ==  \* shard.buckets[j].fetch_add(c, Relaxed) for the next bucket the batch touches
  /\ pc[t] = "bucket"
  /\ LET j == NextB(t, loc[t].i) IN
     /\ j # 0
     /\ bkt' = [bkt EXCEPT ![loc[t].s][j] = @ + BCounts(Batch(t))[j]]
     /\ loc' = [loc EXCEPT ![t].i = j + 1]
     /\ pc' = [pc EXCEPT ![t] = IF NextB(t, j + 1) = 0 THEN SumPc ELSE "bucket"]
  /\ UNCHANGED <<sc, cnt, sum, lock, ip, agg>>

\* generic AtomicF64::inc_by on sum[loc.s'] where target shard = tgt(t); continuation pc = after
SumLoad(t, tgt, next) ==
  /\ loc' = [loc EXCEPT ![t].rd = sum[tgt]]
  /\ pc' = [pc EXCEPT ![t] = next]
  /\ UNCHANGED <<sc, cnt, sum, bkt, lock, ip, agg>>

SumCas(t, tgt, retry, next) ==
  \/ /\ sum[tgt] = loc[t].rd          \* success
     /\ sum' = [sum EXCEPT ![tgt] = @ + loc[t].add]
     /\ pc' = [pc EXCEPT ![t] = next]
     /\ UNCHANGED <<sc, cnt, bkt, lock, ip, loc, agg>>
  \/ /\ sum[tgt] # loc[t].rd          \* failure: retry
     /\ pc' = [pc EXCEPT ![t] = retry]
     /\ UNCHANGED <<sc, cnt, sum, bkt, lock, ip, loc, agg>>

ObsSumAdd(t)  == pc[t] = "sumadd"  /\ sum' = [sum EXCEPT ![loc[t].s] = @ + loc[t].add]
                 /\ pc' = [pc EXCEPT ![t] = "publish"] /\ UNCHANGED <<sc, cnt, bkt, lock, ip, loc, agg>>
ObsSumLoad(t) == pc[t] = "sumload" /\ SumLoad(t, loc[t].s, "sumcas")
ObsSumCas(t)  == pc[t] = "sumcas"  /\ SumCas(t, loc[t].s, "sumload", "publish")

Publish(t) ==  \* shard.count.fetch_add(count, Release)
  /\ pc[t] = "publish"
  /\ cnt' = [cnt EXCEPT ![loc[t].s] = @ + Len(Batch(t))]
  /\ Finish(t)
  /\ UNCHANGED <<sc, sum, bkt, lock, loc, agg>>

(* ---- proto() ---- *)
CLock(t) == /\ pc[t] = "c_lock" /\ lock = None /\ lock' = t
            /\ pc' = [pc EXCEPT ![t] = "flip"] /\ UNCHANGED <<sc, cnt, sum, bkt, ip, loc, agg>>

Flip(t) ==  \* shard_and_count.fetch_add(1<<63, AcqRel)
  /\ pc[t] = "flip"
  /\ sc' = [sc EXCEPT !.hot = 1 - @]
  /\ loc' = [loc EXCEPT ![t].s = sc.hot, ![t].exp = sc.n, ![t].want = agg,
                        ![t].snap = [ZeroAgg EXCEPT !.count = sc.n], ![t].i = 1]
  /\ pc' = [pc EXCEPT ![t] = "spin"]
  /\ UNCHANGED <<cnt, sum, bkt, lock, ip, agg>>

Spin(t) ==  \* cold.count.compare_exchange_weak(exp, 0, Acquire, Acquire)
  /\ pc[t] = "spin"
  /\ \/ /\ cnt[loc[t].s] = loc[t].exp
        /\ cnt' = [cnt EXCEPT ![loc[t].s] = 0]
        /\ pc' = [pc EXCEPT ![t] = "drainsum"]
     \/ /\ cnt[loc[t].s] # loc[t].exp
        /\ UNCHANGED <<cnt, pc>>
  /\ UNCHANGED <<sc, sum, bkt, lock, ip, loc, agg>>

DrainSum(t) ==  \* cold.sum.swap(0, AcqRel)
  /\ pc[t] = "drainsum"
  /\ sum' = [sum EXCEPT ![loc[t].s] = 0]
  /\ loc' = [loc EXCEPT ![t].csum = sum[loc[t].s], ![t].snap.sum = sum[loc[t].s]]
  /\ pc' = [pc EXCEPT ![t] = IF NB = 0 THEN "hotcnt" ELSE "drainb"]
  /\ UNCHANGED <<sc, cnt, bkt, lock, ip, agg>>

DrainB(t) ==  \* cold.buckets[i].swap(0, AcqRel)
  /\ pc[t] = "drainb"
  /\ LET i == loc[t].i IN
     /\ bkt' = [bkt EXCEPT ![loc[t].s][i] = 0]
     /\ loc' = [loc EXCEPT ![t].rd = bkt[loc[t].s][i], ![t].snap.b[i] = bkt[loc[t].s][i]]
  /\ pc' = [pc EXCEPT ![t] = "mergeb"]
  /\ UNCHANGED <<sc, cnt, sum, lock, ip, agg>>

MergeB(t) ==  \* hot.buckets[i].fetch_add(cold_bucket_count, Relaxed)
  /\ pc[t] = "mergeb"
  /\ LET i == loc[t].i IN
     /\ bkt' = [bkt EXCEPT ![1 - loc[t].s][i] = @ + loc[t].rd]
     /\ loc' = [loc EXCEPT ![t].i = i + 1]
     /\ pc' = [pc EXCEPT ![t] = IF i = NB THEN "hotcnt" ELSE "drainb"]
  /\ UNCHANGED <<sc, cnt, sum, lock, ip, agg>>

HotCnt(t) ==  \* hot.count.fetch_add(overall_count, Relaxed)
  /\ pc[t] = "hotcnt"
  /\ cnt' = [cnt EXCEPT ![1 - loc[t].s] = @ + loc[t].exp]
  /\ loc' = [loc EXCEPT ![t].add = loc[t].csum]
  /\ pc' = [pc EXCEPT ![t] = IF F64Atomic THEN "hsumadd" ELSE "hsumload"]
  /\ UNCHANGED <<sc, sum, bkt, lock, ip, agg>>

HSumAdd(t)  == pc[t] = "hsumadd"  /\ sum' = [sum EXCEPT ![1 - loc[t].s] = @ + loc[t].add]
               /\ pc' = [pc EXCEPT ![t] = "c_unlock"] /\ UNCHANGED <<sc, cnt, bkt, lock, ip, loc, agg>>
HSumLoad(t) == pc[t] = "hsumload" /\ SumLoad(t, 1 - loc[t].s, "hsumcas")
HSumCas(t)  == pc[t] = "hsumcas"  /\ SumCas(t, 1 - loc[t].s, "hsumload", "c_unlock")

CUnlock(t) == /\ pc[t] = "c_unlock" /\ lock' = None /\ Finish(t)
              /\ UNCHANGED <<sc, cnt, sum, bkt, loc, agg>>

(* ---- sample_sum / sample_count ---- *)
SLock(t)   == pc[t] = "s_lock" /\ lock = None /\ lock' = t /\ pc' = [pc EXCEPT ![t] = "s_sc"]
              /\ UNCHANGED <<sc, cnt, sum, bkt, ip, loc, agg>>
SLoadSc(t) == pc[t] = "s_sc" /\ loc' = [loc EXCEPT ![t].s = sc.hot] /\ pc' = [pc EXCEPT ![t] = "s_sum"]
              /\ UNCHANGED <<sc, cnt, sum, bkt, lock, ip, agg>>
SLoadSum(t) == pc[t] = "s_sum" /\ loc' = [loc EXCEPT ![t].rd = sum[loc[t].s]] /\ pc' = [pc EXCEPT ![t] = "s_unlock"]
              /\ UNCHANGED <<sc, cnt, sum, bkt, lock, ip, agg>>
SUnlock(t) == pc[t] = "s_unlock" /\ lock' = None /\ Finish(t) /\ UNCHANGED <<sc, cnt, sum, bkt, loc, agg>>
NLoad(t)   == pc[t] = "n_load" /\ loc' = [loc EXCEPT ![t].rd = sc.n] /\ Finish(t)
              /\ UNCHANGED <<sc, cnt, sum, bkt, lock, agg>>

Step(t) == \/ Start(t) \/ Claim(t) \/ BucketStep(t) \/ ObsSumAdd(t) \/ ObsSumLoad(t) \/ ObsSumCas(t) \/ Publish(t)
           \/ CLock(t) \/ Flip(t) \/ Spin(t) \/ DrainSum(t) \/ DrainB(t) \/ MergeB(t) \/ HotCnt(t)
           \/ HSumAdd(t) \/ HSumLoad(t) \/ HSumCas(t) \/ CUnlock(t)
           \/ SLock(t) \/ SLoadSc(t) \/ SLoadSum(t) \/ SUnlock(t) \/ NLoad(t)

Next == \E t \in Threads : Step(t)
Spec == Init /\ [][Next]_vars /\ \A t \in Threads : WF_vars(Step(t))

(* ---------------- properties ---------------- *)
AllDone == \A t \in Threads : pc[t] = "idle" /\ ip[t] > Len(Script[t])

\* C02: the snapshot a collector is about to return is exactly the aggregate of the
\* observations claimed before its flip (one consistent cut).
SnapshotIsCut == \A t \in Threads : pc[t] = "c_unlock" => loc[t].snap = loc[t].want

\* C03 (no waiting for anything else): if no observer is between claim and publish on the
\* cold shard, the spinning collector's CAS succeeds.
InFlightOn(s) == {u \in Threads : pc[u] \in {"bucket", "sumadd", "sumload", "sumcas", "publish"} /\ loc[u].s = s}
SpinOnlyWaitsForInflight == \A t \in Threads : (pc[t] = "spin" /\ InFlightOn(loc[t].s) = {}) => cnt[loc[t].s] = loc[t].exp

\* C03 conservation at quiescence: hot shard holds everything, cold shard is empty, totals agree
Quiescent == AllDone =>
   /\ cnt[sc.hot] = sc.n /\ sc.n = agg.count
   /\ sum[sc.hot] = agg.sum /\ bkt[sc.hot] = agg.b
   /\ cnt[1 - sc.hot] = 0 /\ sum[1 - sc.hot] = 0 /\ bkt[1 - sc.hot] = ZeroB

\* when nobody holds the lock, the cold shard is fully drained
ColdEmptyWhenUnlocked == lock = None => (sum[1 - sc.hot] = 0 /\ bkt[1 - sc.hot] = ZeroB)

\* C03 nested snapshots at model level: what a collector is about to report never exceeds what was claimed
AggLe(a, c) == a.count <= c.count /\ \A i \in 1..NB : a.b[i] <= c.b[i]
WantGrows == \A t \in Threads : pc[t] \in {"spin", "drainsum", "drainb", "mergeb", "hotcnt", "hsumload", "hsumcas", "hsumadd", "c_unlock"} => AggLe(loc[t].want, agg)

Termination == <>AllDone
=============================================================================
