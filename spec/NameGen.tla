---------------------------- MODULE NameGen ----------------------------
(* C09 generator: every string of bounded length over a small alphabet in every name position of a metric
   constructor, and every combination of constant / variable label names incl. clashes and the reserved "le".
   States are the inputs; one JSON line per input with the specification's verdict. *)
EXTENDS Desc, Json, TLC
CONSTANTS Alpha, MaxLen, LabelPool
VARIABLES mode, pos, s, cset, vseq
A == <<LA>>
Positions == {"name", "ns", "sub", "help", "const", "var"}
ClashVL == UNION {[1..k -> LabelPool] : k \in 0..3}       \* incl. a repeated name with another one in between
Init == \/ /\ mode = "pos" /\ pos \in Positions /\ s \in StrUpTo(Alpha, MaxLen) /\ cset = {} /\ vseq = <<>>
        \/ /\ mode = "clash" /\ pos = "-" /\ s = <<>> /\ cset \in SUBSET LabelPool /\ vseq \in ClashVL
Spec == Init /\ [][UNCHANGED <<mode, pos, s, cset, vseq>>]_<<mode, pos, s, cset, vseq>>
D == IF mode = "pos"
     THEN CASE pos = "name"  -> [name |-> FqName(<<>>, <<>>, s), help |-> A, cl |-> << >>, vl |-> <<>>]
            [] pos = "ns"    -> [name |-> FqName(s, <<>>, A), help |-> A, cl |-> << >>, vl |-> <<>>]
            [] pos = "sub"   -> [name |-> FqName(<<UZ>>, s, A), help |-> A, cl |-> << >>, vl |-> <<>>]
            [] pos = "help"  -> [name |-> A, help |-> s, cl |-> << >>, vl |-> <<>>]
            [] pos = "const" -> [name |-> A, help |-> A, cl |-> (s :> A), vl |-> <<>>]
            [] pos = "var"   -> [name |-> A, help |-> A, cl |-> << >>, vl |-> <<s>>]
     ELSE [name |-> A, help |-> A, cl |-> [n \in cset |-> A], vl |-> vseq]
Emit == PrintT(<<"CASE", ToJson([mode |-> mode, pos |-> pos, s |-> s, cset |-> SetToSeq(cset), vseq |-> vseq,
                                  ok |-> DescOK(D), okhist |-> HistDescOK(D), fq |-> D.name])>>)
\* the verdicts are total and histograms accept a subset of what plain metrics accept
Total == HistDescOK(D) => DescOK(D)
=============================================================================
