---------------------------- MODULE RegistryTrace ----------------------------
(* Trace validation for C06: events recorded from long random register/unregister histories on the real
   Registry (with the set of descriptor identities gather() showed after each call) must be a behaviour of
   Registry.  Unspecified registrations may go either way; later behaviour must be consistent with it. *)
EXTENDS Registry, Json, IOUtils
Rec == ndJsonDeserialize(IOEnv.TRACE)
VARIABLE l
Shown(e) == {<<e.ids[j][1], e.ids[j][2]>> : j \in DOMAIN e.ids}
IsEvent(op) == l <= Len(Rec) /\ Rec[l].op = op /\ l' = l + 1
\* "reset" starts a fresh registry (several recorded runs are concatenated)
TReset == IsEvent("new") /\ registered' = {} /\ dims' = << >>
TReg == IsEvent("reg") /\ LET e == Rec[l] c == e.c IN
          \/ e.res = "Ok" /\ (RegisterOk(c) \/ RegisterUnspecOk(c))
          \/ e.res # "Ok" /\ RegisterErr(c) /\ (ErrKind(c) = "AlreadyReg" => e.res = "AlreadyReg")
          \/ e.res # "Ok" /\ RegisterUnspecErr(c)
TUnreg == IsEvent("unreg") /\ LET e == Rec[l] c == e.c IN
          \/ e.res = "Ok" /\ UnregisterOk(c)
          \/ e.res # "Ok" /\ UnregisterErr(c)
\* after every call gather() shows exactly the registered descriptors
TNext == (TReset \/ TReg \/ TUnreg) /\ Shown(Rec[l]) = UNION {Ids(c) : c \in registered'}
TSpec == (Init /\ l = 1) /\ [][TNext]_<<vars, l>>
TraceAccepted == LET d == TLCGet("stats").diameter IN
                 IF d - 1 = Len(Rec) THEN TRUE ELSE Print(<<"TRACE-REJECTED-AT", d, IF d <= Len(Rec) THEN Rec[d] ELSE "end">>, FALSE)
=============================================================================
