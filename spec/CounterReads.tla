---------------------------- MODULE CounterReads ----------------------------
(* API-level oracle for C01.  Input: recorded histories of a real Counter / IntCounter, one JSON object
   per line: [calls |-> <<call>>, final |-> [get |-> n]],  call = [t, i, k, inv, ret, res] (+ v | vs).
   Increment amounts are distinct powers of two, so a value names the set of increments it sums.
   Deliberately weaker than linearizability: exactly the three clauses of the statement. *)
EXTENDS Integers, Sequences, FiniteSets, TLC, Json, IOUtils

Hists == ndJsonDeserialize(IOEnv.HISTS)

RECURSIVE SumSeq(_)
SumSeq(s) == IF s = <<>> THEN 0 ELSE Head(s) + SumSeq(Tail(s))
RECURSIVE SumOver(_, _)
SumOver(S, f) == IF S = {} THEN 0 ELSE LET x == CHOOSE x \in S : TRUE IN f[x] + SumOver(S \ {x}, f)

\* a float counter can be incremented by +Inf (sentinel PInf, as in LinGauge): sums saturate there
PInf == 1000000000
Sat(x) == IF x >= PInf THEN PInf ELSE x
Amount(c) == CASE c.k = "inc" -> 1 [] c.k = "incby" -> c.v [] c.k = "lflush" -> SumSeq(c.vs) [] OTHER -> 0
Incs(cs)   == {i \in DOMAIN cs : cs[i].k \in {"inc", "incby", "lflush"} /\ Amount(cs[i]) > 0}
Reads(cs)  == {i \in DOMAIN cs : cs[i].k = "get"}
Resets(cs) == {i \in DOMAIN cs : cs[i].k = "reset"}
Amt(cs)    == [i \in DOMAIN cs |-> Amount(cs[i])]
HasBit(s, v) == (s \div v) % 2 = 1
SetOf(cs, n) == {i \in Incs(cs) : HasBit(n, Amount(cs[i]))}

\* a value read by a call with interval [inv, ret] lies between "everything completed before it began" and
\* "everything started before it returned" (holds for any amounts) ...
Bounded(cs, n, inv, ret) ==
  /\ Sat(SumOver({i \in Incs(cs) : cs[i].ret < inv}, Amt(cs))) <= n
  /\ n <= Sat(SumOver({i \in Incs(cs) : cs[i].inv < ret}, Amt(cs)))
\* ... and, when the amounts are distinct powers of two, is exactly the sum of such a set S
Pow2 == {1, 2, 4, 8, 16, 32, 64, 128, 256, 512, 1024, 2048, 4096}
NamesItsSet(cs) == /\ \A i \in Incs(cs) : Amount(cs[i]) \in Pow2
                   /\ \A i, j \in Incs(cs) : i # j => Amount(cs[i]) # Amount(cs[j])
Explained(cs, n, inv, ret) ==
  /\ Bounded(cs, n, inv, ret)
  /\ NamesItsSet(cs) =>
       LET S == SetOf(cs, n) IN
       /\ n >= 0 /\ SumOver(S, Amt(cs)) = n
       /\ \A i \in Incs(cs) : cs[i].ret < inv => i \in S       \* every increment completed before the read began
       /\ \A i \in S : cs[i].inv < ret                          \* none started after it returned

Intervened(cs, r1, r2) == \E z \in Resets(cs) : ~(cs[z].ret < cs[r1].inv) /\ ~(cs[r2].ret < cs[z].inv)

HistoryOK(h) ==
  LET cs == h.calls IN
  /\ Resets(cs) = {} => /\ h.final.get = Sat(SumOver(Incs(cs), Amt(cs)))                     \* nothing lost, nothing twice
                        /\ \A r \in Reads(cs) : Explained(cs, cs[r].res, cs[r].inv, cs[r].ret)
  /\ \A r1, r2 \in Reads(cs) : (cs[r1].ret < cs[r2].inv /\ ~Intervened(cs, r1, r2)) => cs[r1].res <= cs[r2].res

VARIABLE k
Init == k = 1
Next == k <= Len(Hists) /\ k' = k + 1
Spec == Init /\ [][Next]_k
AllReads == k <= Len(Hists) => (HistoryOK(Hists[k]) \/ PrintT(<<"REJECTED", k>>))
=============================================================================
