---------------------------- MODULE GatherGen ----------------------------
(* Generator for C07 / C14 / C16: registry configurations = subsets of a menu of collectors x prefix x common
   labels.  One JSON line per configuration with the expected gather() result. *)
EXTENDS Gather, Json, TLC
CONSTANTS Menu,        \* [id -> collector]
          MaxSize, PrefixSet, CommonSet
VARIABLES sel, prefix, common
Reg == {Menu[i] : i \in sel}
GInit == /\ sel \in {S \in SUBSET DOMAIN Menu : S # {} /\ Cardinality(S) <= MaxSize}
         /\ prefix \in PrefixSet /\ common \in CommonSet
GSpec == GInit /\ [][UNCHANGED <<sel, prefix, common>>]_<<sel, prefix, common>>
\* only configurations the registry admits: no two collectors with equal descriptor identity is arranged by the menu
G == Gather(Reg, prefix, common)
JFam(f) == [name |-> f.name, help |-> f.help, types |-> SetToSeq(f.types),
            samples |-> [j \in DOMAIN f.samples |-> [labels |-> f.samples[j].labels, common |-> f.samples[j].common, v |-> f.samples[j].v, type |-> f.samples[j].type]]]
Emit == PrintT(<<"CASE", ToJson([sel |-> SetToSeq(sel), prefix |-> prefix, common |-> LabelSeq(common), g |-> [i \in DOMAIN G |-> JFam(G[i])]])>>)
Ordered == StrictlyIncreasing(G)
AllThere == Complete(Reg, prefix, G)
Valid == NamesValid(G)
=============================================================================
