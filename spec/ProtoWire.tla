---------------------------- MODULE ProtoWire ----------------------------
(* Protocol-buffers wire decoder for the delimited io.prometheus.client.MetricFamily stream — the "independent
   decoder" of C13 is this specification.  Schemas transcribed from proto/proto_model.proto.
   Input (ndjson, IOEnv.HISTS): [id, bytes |-> <<0..255>>, exp |-> <<canonical families>>].
   The decoder is a pure operator over the byte sequence (one TLC evaluation per stream).
   Canonical message = sequence indexed by field number:
     string -> bytes, double -> its 8 little-endian bytes (absent = 0.0), varint -> base-128 groups without
     trailing zero groups (absent = 0), optional message -> canonical message (absent = all defaults),
     repeated message -> sequence of canonical messages.
   64-bit quantities are never turned into TLC integers (32 bit); only tags and lengths are.
   Unknown field numbers, wrong wire types, truncated fields and trailing bytes are rejected;
   field order and non-minimal varints are not constrained (any valid encoding is accepted).            *)
EXTENDS Integers, Sequences, FiniteSets, TLC, Json, IOUtils

Recs == ndJsonDeserialize(IOEnv.HISTS)

V == [k |-> "varint", t |-> "", rep |-> FALSE]
D == [k |-> "double", t |-> "", rep |-> FALSE]
B == [k |-> "bytes", t |-> "", rep |-> FALSE]
M(t) == [k |-> "msg", t |-> t, rep |-> FALSE]
R(t) == [k |-> "msg", t |-> t, rep |-> TRUE]
\* field number -> descriptor (functions with integer domains)
Schema == [
  LabelPair    |-> (1 :> B @@ 2 :> B),
  Gauge        |-> (1 :> D),
  Counter      |-> (1 :> D),
  Quantile     |-> (1 :> D @@ 2 :> D),
  Summary      |-> (1 :> V @@ 2 :> D @@ 3 :> R("Quantile")),
  Untyped      |-> (1 :> D),
  Histogram    |-> (1 :> V @@ 2 :> D @@ 3 :> R("Bucket")),
  Bucket       |-> (1 :> V @@ 2 :> D),
  Metric       |-> (1 :> R("LabelPair") @@ 2 :> M("Gauge") @@ 3 :> M("Counter") @@ 4 :> M("Summary") @@ 5 :> M("Untyped") @@ 6 :> V @@ 7 :> M("Histogram")),
  MetricFamily |-> (1 :> B @@ 2 :> B @@ 3 :> V @@ 4 :> R("Metric")) ]
MaxNum(ty) == CHOOSE n \in DOMAIN Schema[ty] : \A m \in DOMAIN Schema[ty] : m <= n
WireType(d) == IF d.k = "varint" THEN 0 ELSE IF d.k = "double" THEN 1 ELSE 2

Fail == [ok |-> FALSE, groups |-> <<>>, next |-> 0]
RECURSIVE ReadVarint(_, _, _, _)       \* bytes, index, last allowed index, groups so far
ReadVarint(bs, i, j, g) ==
  IF i > j \/ Len(g) >= 10 THEN Fail
  ELSE IF bs[i] >= 128 THEN ReadVarint(bs, i + 1, j, Append(g, bs[i] - 128))
  ELSE [ok |-> TRUE, groups |-> Append(g, bs[i]), next |-> i + 1]
RECURSIVE Strip(_)
Strip(g) == IF g # <<>> /\ g[Len(g)] = 0 THEN Strip(SubSeq(g, 1, Len(g) - 1)) ELSE g
RECURSIVE NatOf(_)
NatOf(g) == IF g = <<>> THEN 0 ELSE g[1] + 128 * NatOf(Tail(g))
Small(g) == Len(Strip(g)) <= 4                       \* fits a TLC integer

Zero8 == <<0, 0, 0, 0, 0, 0, 0, 0>>
RECURSIVE Canon(_, _), Default(_)
Default(d) == IF d.rep THEN <<>>
              ELSE IF d.k = "double" THEN Zero8
              ELSE IF d.k = "msg" THEN Canon(d.t, <<>>)
              ELSE <<>>
\* fs : sequence of <<field number, value>> in wire order
Canon(ty, fs) ==
  [n \in 1..MaxNum(ty) |->
     IF n \notin DOMAIN Schema[ty] THEN <<>>
     ELSE LET d == Schema[ty][n]
              vs == SelectSeq(fs, LAMBDA p : p[1] = n) IN
          IF d.rep THEN [i \in DOMAIN vs |-> vs[i][2]]
          ELSE IF vs = <<>> THEN Default(d) ELSE vs[Len(vs)][2]]

RECURSIVE Fields(_, _, _, _, _)        \* bytes, first index, last index, message type, fields so far
Fields(bs, i, j, ty, acc) ==
  IF i > j THEN [ok |-> TRUE, fs |-> acc]
  ELSE LET tag == ReadVarint(bs, i, j, <<>>) IN
       IF ~tag.ok \/ ~Small(tag.groups) THEN [ok |-> FALSE, fs |-> acc]
       ELSE LET tv == NatOf(tag.groups)  num == tv \div 8  wt == tv % 8 IN
            IF num \notin DOMAIN Schema[ty] THEN [ok |-> FALSE, fs |-> acc]                 \* unknown field
            ELSE LET d == Schema[ty][num] IN
                 IF wt # WireType(d) THEN [ok |-> FALSE, fs |-> acc]
                 ELSE IF wt = 0 THEN
                        LET v == ReadVarint(bs, tag.next, j, <<>>) IN
                        IF ~v.ok THEN [ok |-> FALSE, fs |-> acc]
                        ELSE Fields(bs, v.next, j, ty, Append(acc, <<num, Strip(v.groups)>>))
                 ELSE IF wt = 1 THEN
                        IF tag.next + 7 > j THEN [ok |-> FALSE, fs |-> acc]
                        ELSE Fields(bs, tag.next + 8, j, ty, Append(acc, <<num, SubSeq(bs, tag.next, tag.next + 7)>>))
                 ELSE LET ln == ReadVarint(bs, tag.next, j, <<>>) IN
                      IF ~ln.ok \/ ~Small(ln.groups) THEN [ok |-> FALSE, fs |-> acc]
                      ELSE LET e == ln.next + NatOf(ln.groups) - 1 IN
                           IF e > j THEN [ok |-> FALSE, fs |-> acc]
                           ELSE IF d.k = "bytes" THEN Fields(bs, e + 1, j, ty, Append(acc, <<num, IF e < ln.next THEN <<>> ELSE SubSeq(bs, ln.next, e)>>))
                           ELSE LET sub == Fields(bs, ln.next, e, d.t, <<>>) IN
                                IF ~sub.ok THEN [ok |-> FALSE, fs |-> acc]
                                ELSE Fields(bs, e + 1, j, ty, Append(acc, <<num, Canon(d.t, sub.fs)>>))

\* the stream: length-delimited MetricFamily messages, nothing else
RECURSIVE Stream(_, _, _)
Stream(bs, i, acc) ==
  IF i > Len(bs) THEN [ok |-> TRUE, fams |-> acc]
  ELSE LET ln == ReadVarint(bs, i, Len(bs), <<>>) IN
       IF ~ln.ok \/ ~Small(ln.groups) THEN [ok |-> FALSE, fams |-> acc]
       ELSE LET e == ln.next + NatOf(ln.groups) - 1 IN
            IF e > Len(bs) THEN [ok |-> FALSE, fams |-> acc]
            ELSE LET m == Fields(bs, ln.next, e, "MetricFamily", <<>>) IN
                 IF ~m.ok THEN [ok |-> FALSE, fams |-> acc]
                 ELSE Stream(bs, e + 1, Append(acc, Canon("MetricFamily", m.fs)))

Verdict(r) == LET s == Stream(r.bytes, 1, <<>>) IN
              IF ~s.ok THEN "not a well-formed delimited MetricFamily stream"
              ELSE IF s.fams # r.exp THEN "decoded families differ from the gathered ones" ELSE ""

VARIABLE k
Init == k = 1
Next == k <= Len(Recs) /\ k' = k + 1
Spec == Init /\ [][Next]_k
Judge == k <= Len(Recs) => PrintT(<<"RESULT", ToJson([id |-> Recs[k].id, v |-> Verdict(Recs[k])])>>)
=============================================================================
