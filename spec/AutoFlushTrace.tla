---------------------------- MODULE AutoFlushTrace ----------------------------
(* Trace validation for auto-flushing thread-local metrics: a history RECORDED from the real code (vh_af) must be a
   behaviour of the conservation core of AutoFlush.tla.  The listed properties (C01, C12) fix what a flush hands
   over, not WHEN an automatic flush happens, so here the flush policy is left open: before and after the own effect
   of any call by thread t any subset of t's leaves may have been flushed.  What is fixed: an update adds its amount to exactly one local
   leaf; a flush moves exactly the pending data of the flushed leaves into the shared children, once; get returns
   the pending data; reset/clear discards the pending data of that leaf only; an explicit leaf.flush() flushes at
   least that leaf and handle.flush() every leaf; a thread's exit flushes local histograms (counters: flushed or
   discarded, the property leaves it open).  Timing differences against AutoFlush.tla are reported as model drift
   by the check, not as violations.                                                                             *)
EXTENDS AutoFlush, Json, IOUtils
Rec == ndJsonDeserialize(IOEnv.TRACE)
VARIABLE k
E == Rec[k]
IsEvent(op) == k <= Len(Rec) /\ Rec[k].op = op /\ k' = k + 1
AmtEq(r, a) == r.s = a.s /\ (Kind = "hist" => r.n = a.n)

\* an automatic flush may come BEFORE the call's own effect (a may_flush() at the head of the method), AFTER it, or both:
\* the leaves in pre are flushed, then eff turns t's pending data into mid, then the leaves in post are flushed
Flushed(t, pre) == [x \in Leaves |-> IF x \in pre THEN Z ELSE loc[t][x]]
PrePost(t, pre, mid, post) ==
  /\ shared' = [x \in Leaves |-> Plus(IF x \in pre THEN Plus(shared[x], loc[t][x]) ELSE shared[x], IF x \in post THEN mid[x] ELSE Z)]
  /\ loc' = [loc EXCEPT ![t] = [x \in Leaves |-> IF x \in post THEN Z ELSE mid[x]]]
Post(t, mid, ls) == PrePost(t, {}, mid, ls)

TNew == IsEvent("new") /\ clock' = 0 /\ alive' = {} /\ last' = [t \in Threads |-> 0]
        /\ loc' = [t \in Threads |-> ZeroLeaves] /\ shared' = ZeroLeaves /\ added' = ZeroLeaves /\ lost' = ZeroLeaves
TTick == IsEvent("tick") /\ Tick(E.d)
TStart == IsEvent("start") /\ Start(E.t)
TUpd == /\ IsEvent("upd") /\ E.t \in alive
        /\ added' = [added EXCEPT ![E.l] = Plus(@, [n |-> 1, s |-> E.v])]
        /\ \E pre, post \in SUBSET Leaves : PrePost(E.t, pre, [Flushed(E.t, pre) EXCEPT ![E.l] = Plus(@, [n |-> 1, s |-> E.v])], post)
        /\ UNCHANGED <<clock, alive, last, lost>>
TGet == /\ IsEvent("get") /\ E.t \in alive
        /\ \E pre, post \in SUBSET Leaves : AmtEq(E.res, Flushed(E.t, pre)[E.l]) /\ PrePost(E.t, pre, Flushed(E.t, pre), post)
        /\ UNCHANGED <<clock, alive, last, added, lost>>
TReset == /\ IsEvent("reset") /\ E.t \in alive
          /\ \E pre, post \in SUBSET Leaves :
                /\ lost' = [lost EXCEPT ![E.l] = Plus(@, Flushed(E.t, pre)[E.l])]
                /\ PrePost(E.t, pre, [Flushed(E.t, pre) EXCEPT ![E.l] = Z], post)
          /\ UNCHANGED <<clock, alive, last, added>>
TFlushLeaf == /\ IsEvent("flushleaf") /\ E.t \in alive
              /\ \E ls \in SUBSET Leaves : E.l \in ls /\ Post(E.t, loc[E.t], ls)
              /\ UNCHANGED <<clock, alive, last, added, lost>>
TFlushAll == /\ IsEvent("flushall") /\ E.t \in alive /\ Post(E.t, loc[E.t], Leaves)
             /\ UNCHANGED <<clock, alive, last, added, lost>>
TExit == /\ IsEvent("exit") /\ E.t \in alive /\ alive' = alive \ {E.t}
         /\ \E ls \in (IF Kind = "hist" THEN {Leaves} ELSE SUBSET Leaves) :
              /\ shared' = [x \in Leaves |-> IF x \in ls THEN Plus(shared[x], loc[E.t][x]) ELSE shared[x]]
              /\ lost' = [x \in Leaves |-> IF x \in ls THEN lost[x] ELSE Plus(lost[x], loc[E.t][x])]
         /\ loc' = [loc EXCEPT ![E.t] = ZeroLeaves]
         /\ UNCHANGED <<clock, last, added>>
\* what the harness saw after the call: the shared children and the pending data of every live root
ObsOK == /\ \A x \in Leaves : AmtEq(E.obs.shared[x], shared'[x])
         /\ alive' = {t \in Threads : E.obs.locs[t][CHOOSE x \in Leaves : TRUE].n # -1}
         /\ \A t \in alive' : \A x \in Leaves : AmtEq(E.obs.locs[t][x], loc'[t][x])
TNext == TNew \/ ((TTick \/ TStart \/ TUpd \/ TGet \/ TReset \/ TFlushLeaf \/ TFlushAll \/ TExit) /\ ObsOK)
TSpec == (Init /\ k = 1) /\ [][TNext]_<<vars, k>>
TraceAccepted == LET d == TLCGet("stats").diameter IN
                 IF d - 1 = Len(Rec) THEN TRUE ELSE Print(<<"TRACE-REJECTED-AT", d>>, FALSE)
ConservationHolds == Conservation /\ DeadHoldNothing
=============================================================================
