---------------------------- MODULE Registry ----------------------------
(* Abstract sequential model of Registry::register / unregister / gather (src/registry.rs, src/desc.rs).
   A collector is a non-empty sequence of descriptors; a descriptor is abstracted to what the registry
   looks at:  name (fully-qualified), help, cl (value of the one constant label, "-" = no constant label),
   vl (id of the variable-label name set).
     identity   DescId = <<name, constant-label values>>
     dimension  DimSig = <<help, constant-label names, variable-label names>>                      *)
EXTENDS Integers, Sequences, FiniteSets, TLC

CONSTANTS Collectors,  \* [cid -> Seq(desc)], desc = [name, help, cl, vl]
          CommonConst  \* TRUE: the registry was created with a common label named like the constant label of the descriptors

Cids == DOMAIN Collectors
DescId(d)  == <<d.name, d.cl>>
DimSig(d)  == <<d.help, d.cl # "-", d.vl>>
Ids(c)     == {DescId(Collectors[c][i]) : i \in DOMAIN Collectors[c]}
Names(c)   == {Collectors[c][i].name : i \in DOMAIN Collectors[c]}

VARIABLES registered,   \* set of cids currently registered
          dims          \* [name -> DimSig] for every name ever successfully registered (kept on unregister)
vars == <<registered, dims>>

RegIds == UNION {Ids(c) : c \in registered}

IdClash(c)  == \E i \in DOMAIN Collectors[c] : DescId(Collectors[c][i]) \in RegIds
DimClash(c) == \E i \in DOMAIN Collectors[c] : LET d == Collectors[c][i] IN d.name \in DOMAIN dims /\ dims[d.name] # DimSig(d)
\* a registry-level common label would be appended to samples that already carry a label of that name: such a collector
\* is never admitted (C09), and like every refused registration it leaves no trace
LabelClash(c) == CommonConst /\ \E i \in DOMAIN Collectors[c] : Collectors[c][i].cl # "-"
Refused(c)  == IdClash(c) \/ DimClash(c) \/ LabelClash(c)
\* the error kind is fixed only when the sole reason is an equal descriptor / the same collector
ErrKind(c)  == IF IdClash(c) /\ ~DimClash(c) /\ ~LabelClash(c) THEN "AlreadyReg" ELSE "Err"

\* cases the property does not speak about: collectors whose own descriptors repeat or contradict each other
Unspecified(c) == LET ds == Collectors[c] IN
   \E i, j \in DOMAIN ds : i < j /\ (DescId(ds[i]) = DescId(ds[j]) \/ (ds[i].name = ds[j].name /\ DimSig(ds[i]) # DimSig(ds[j])))

Init == registered = {} /\ dims = << >>

Admit(c) == /\ registered' = registered \cup {c}
            /\ dims' = [n \in DOMAIN dims \cup Names(c) |->
                          IF n \in DOMAIN dims THEN dims[n]
                          ELSE DimSig(Collectors[c][CHOOSE i \in DOMAIN Collectors[c] : Collectors[c][i].name = n])]

RegisterOk(c)     == ~Refused(c) /\ ~Unspecified(c) /\ Admit(c)
\* a refused registration leaves no trace: every variable unchanged
RegisterErr(c)    == Refused(c) /\ UNCHANGED vars
\* unspecified: either outcome, but consistently (admitted = fully registered, refused = no trace)
RegisterUnspecOk(c)  == ~Refused(c) /\ Unspecified(c) /\ Admit(c)
RegisterUnspecErr(c) == ~Refused(c) /\ Unspecified(c) /\ UNCHANGED vars
\* a collector is identified by its descriptor identities ("descriptors that share the same fully-qualified
\* name and the same constant-label values are considered equal"): unregistering any collector with the same
\* identities as a registered one removes that one
Same(c)           == {r \in registered : Ids(r) = Ids(c)}
UnregisterOk(c)   == Same(c) # {} /\ registered' = registered \ Same(c) /\ UNCHANGED dims
UnregisterErr(c)  == Same(c) = {} /\ UNCHANGED vars

Next == \E c \in Cids : RegisterOk(c) \/ RegisterErr(c) \/ RegisterUnspecOk(c) \/ RegisterUnspecErr(c) \/ UnregisterOk(c) \/ UnregisterErr(c)
Spec == Init /\ [][Next]_vars

(* ---------------- properties of the design ---------------- *)
\* identities of registered descriptors are pairwise distinct across collectors
DistinctIds == \A c1, c2 \in registered : c1 # c2 => Ids(c1) \cap Ids(c2) = {}
\* every registered descriptor agrees with the dimension recorded for its name
DimsAgree == \A c \in registered : ~Unspecified(c) => \A i \in DOMAIN Collectors[c] : dims[Collectors[c][i].name] = DimSig(Collectors[c][i])
\* dimensions are never forgotten or changed
DimsStable == [][\A n \in DOMAIN dims : n \in DOMAIN dims' /\ dims'[n] = dims[n]]_vars
\* what gather() shows: exactly the descriptors of the registered collectors
Gathered == RegIds
=============================================================================
