---------------------------- MODULE AtomCore ----------------------------
(* Proof kernel of AtomImpl: the atomic steps of one shared metric value, with the script abstracted to two constant
   operators (the signed amount of an update call, the value of a store call).  No recursive operators, so that the
   TLA+ proof system can reason about it.  AtomImpl refines this module (checked by TLC, property RefinesCore), and
   the theorem below holds for ANY set of threads, ANY scripts and ANY number of spurious compare-exchange failures. *)
EXTENDS Integers, Sequences, TLAPS

CONSTANTS Threads, NumCalls(_),      \* number of scripted calls of a thread
          Amount(_, _),              \* Amount(t, i): signed amount the i-th call of t adds (update calls)
          StoreValue(_, _)           \* StoreValue(t, i): value the i-th call of t stores (set / reset)
VARIABLES val, abs, pc, ip, rd,
          done       \* ghost: the update calls <<t, i>> that have taken effect
vars == <<val, abs, pc, ip, rd, done>>

Init == /\ val = 0 /\ abs = 0
        /\ pc = [t \in Threads |-> "idle"] /\ ip = [t \in Threads |-> 1] /\ rd = [t \in Threads |-> 0]
        /\ done = {}
Finish(t) == pc' = [pc EXCEPT ![t] = "idle"] /\ ip' = [ip EXCEPT ![t] = @ + 1]
Start(t) == /\ pc[t] = "idle" /\ ip[t] <= NumCalls(t)
            /\ \/ \E p \in {"rmw", "load", "store", "get"} : pc' = [pc EXCEPT ![t] = p] /\ UNCHANGED ip
               \/ ip' = [ip EXCEPT ![t] = @ + 1] /\ UNCHANGED pc              \* a call without any shared step
            /\ UNCHANGED <<val, abs, rd, done>>
Rmw(t)   == pc[t] = "rmw" /\ val' = val + Amount(t, ip[t]) /\ abs' = abs + Amount(t, ip[t]) /\ Finish(t) /\ UNCHANGED rd
            /\ done' = done \cup {<<t, ip[t]>>}
Load(t)  == pc[t] = "load" /\ rd' = [rd EXCEPT ![t] = val] /\ pc' = [pc EXCEPT ![t] = "cas"] /\ UNCHANGED <<val, abs, ip, done>>
Cas(t)   == /\ pc[t] = "cas"
            /\ \/ val = rd[t] /\ val' = val + Amount(t, ip[t]) /\ abs' = abs + Amount(t, ip[t]) /\ Finish(t) /\ UNCHANGED rd
                  /\ done' = done \cup {<<t, ip[t]>>}
               \/ pc' = [pc EXCEPT ![t] = "load"] /\ UNCHANGED <<val, abs, ip, rd, done>>  \* failed (changed value or spurious)
Store(t) == pc[t] = "store" /\ val' = StoreValue(t, ip[t]) /\ abs' = StoreValue(t, ip[t]) /\ Finish(t) /\ UNCHANGED <<rd, done>>
Get(t)   == pc[t] = "get" /\ Finish(t) /\ UNCHANGED <<val, abs, rd, done>>                 \* a read changes nothing shared
Step(t) == Start(t) \/ Rmw(t) \/ Load(t) \/ Cas(t) \/ Store(t) \/ Get(t)
Next == \E t \in Threads : Step(t)
Spec == Init /\ [][Next]_vars

Atomicity == val = abs
\* every update call takes effect AT MOST ONCE: a call that has taken effect is completed, hence the call a thread is
\* executing right now has not taken effect yet, and a call takes effect only as the thread's current call
TypeOK == ip \in [Threads -> Nat] /\ done \subseteq (Threads \X Nat)
AppliedAreCompleted == \A p \in done : p[2] < ip[p[1]]
InFlightNotApplied == \A t \in Threads : <<t, ip[t]>> \notin done
Inv == TypeOK /\ AppliedAreCompleted

THEOREM AtomicityForAnyThreads == Spec => []Atomicity
<1>1. Init => Atomicity
  BY DEF Init, Atomicity
<1>2. Atomicity /\ [Next]_vars => Atomicity'
  <2> SUFFICES ASSUME Atomicity, [Next]_vars PROVE Atomicity'
    OBVIOUS
  <2>1. CASE UNCHANGED vars
    BY <2>1 DEF Atomicity, vars
  <2>2. CASE Next
    <3>1. PICK t \in Threads : Step(t)
      BY <2>2 DEF Next
    <3>2. CASE Start(t)   BY <3>2 DEF Start, Atomicity
    <3>3. CASE Rmw(t)     BY <3>3 DEF Rmw, Atomicity
    <3>4. CASE Load(t)    BY <3>4 DEF Load, Atomicity
    <3>5. CASE Cas(t)     BY <3>5 DEF Cas, Atomicity
    <3>6. CASE Store(t)   BY <3>6 DEF Store, Atomicity
    <3>7. CASE Get(t)     BY <3>7 DEF Get, Atomicity
    <3>8. QED BY <3>1, <3>2, <3>3, <3>4, <3>5, <3>6, <3>7 DEF Step
  <2>3. QED BY <2>1, <2>2
<1>3. QED
  BY <1>1, <1>2, PTL DEF Spec

THEOREM AtMostOnceForAnyThreads == Spec => [](Inv /\ InFlightNotApplied)
<1>1. Init => Inv
  BY DEF Init, Inv, TypeOK, AppliedAreCompleted
<1>2. Inv /\ [Next]_vars => Inv'
  <2> SUFFICES ASSUME Inv, [Next]_vars PROVE Inv'
    OBVIOUS
  <2>1. CASE UNCHANGED vars
    BY <2>1 DEF Inv, TypeOK, AppliedAreCompleted, vars
  <2>2. CASE Next
    <3>1. PICK t \in Threads : Step(t)
      BY <2>2 DEF Next
    <3>2. CASE Start(t)   BY <3>2 DEF Start, Inv, TypeOK, AppliedAreCompleted
    <3>3. CASE Rmw(t)     BY <3>3 DEF Rmw, Finish, Inv, TypeOK, AppliedAreCompleted
    <3>4. CASE Load(t)    BY <3>4 DEF Load, Inv, TypeOK, AppliedAreCompleted
    <3>5. CASE Cas(t)     BY <3>5 DEF Cas, Finish, Inv, TypeOK, AppliedAreCompleted
    <3>6. CASE Store(t)   BY <3>6 DEF Store, Finish, Inv, TypeOK, AppliedAreCompleted
    <3>7. CASE Get(t)     BY <3>7 DEF Get, Finish, Inv, TypeOK, AppliedAreCompleted
    <3>8. QED BY <3>1, <3>2, <3>3, <3>4, <3>5, <3>6, <3>7 DEF Step
  <2>3. QED BY <2>1, <2>2
<1>3. Inv => InFlightNotApplied
  BY DEF Inv, TypeOK, AppliedAreCompleted, InFlightNotApplied
<1>4. QED
  BY <1>1, <1>2, <1>3, PTL DEF Spec
=============================================================================
