---------------------------- MODULE NamesOracle ----------------------------
(* C09 oracle over recorded gather() results: every family name is a valid metric name, every label name of
   every sample is valid, and label names within one sample are pairwise distinct.  Input lines:
   [fams |-> << [name |-> ranks, samples |-> << <<label-name ranks, ...>> >>] >>]                       *)
EXTENDS Desc, Json, IOUtils, TLC
Recs == ndJsonDeserialize(IOEnv.HISTS)
FamOK(f) == /\ ValidMetricName(f.name)
            /\ \A j \in DOMAIN f.samples : LET ls == f.samples[j] IN
                  /\ \A k \in DOMAIN ls : ValidLabelName(ls[k])
                  /\ \A k, l \in DOMAIN ls : k # l => ls[k] # ls[l]
RecOK(r) == \A i \in DOMAIN r.fams : FamOK(r.fams[i])
VARIABLE k
Init == k = 1
Next == k <= Len(Recs) /\ k' = k + 1
Spec == Init /\ [][Next]_k
AllValid == k <= Len(Recs) => (RecOK(Recs[k]) \/ PrintT(<<"REJECTED", k>>))
=============================================================================
