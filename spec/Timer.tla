---------------------------- MODULE Timer ----------------------------
(* Histogram timers (src/histogram.rs: HistogramTimer, LocalHistogramTimer, observe_closure_duration).
   A timer contributes exactly one observation when it is stopped with observe_duration / stop_and_record or
   simply dropped — on whichever thread — and nothing when stopped with stop_and_discard.
   A local timer owns a private (empty) clone of its local histogram; its observation reaches the SHARED
   histogram when the timer is consumed, not the parent local histogram's pending data.  Durations are not
   modelled (any non-negative number of seconds).                                                       *)
EXTENDS Integers, Sequences, FiniteSets, TLC
CONSTANTS Timers
VARIABLES tm,      \* [Timers -> [kind : {"-", "shared", "local"}, st : {"none", "running", "done"}]]
          cnt,     \* observations in the shared histogram
          lpend    \* observations pending in the local histogram handle
vars == <<tm, cnt, lpend>>
Init == tm = [t \in Timers |-> [kind |-> "-", st |-> "none"]] /\ cnt = 0 /\ lpend = 0
Running(t) == tm[t].st = "running"
Start(t, kind)    == tm[t].st = "none" /\ tm' = [tm EXCEPT ![t] = [kind |-> kind, st |-> "running"]] /\ UNCHANGED <<cnt, lpend>>
Finish(t)         == tm' = [tm EXCEPT ![t].st = "done"]
\* observe_duration, stop_and_record and plain drop all record exactly once
Record(t)         == Running(t) /\ cnt' = cnt + 1 /\ Finish(t) /\ UNCHANGED lpend
Discard(t)        == Running(t) /\ Finish(t) /\ UNCHANGED <<cnt, lpend>>
ClosureShared     == cnt' = cnt + 1 /\ UNCHANGED <<tm, lpend>>
ClosureLocal      == lpend' = lpend + 1 /\ UNCHANGED <<tm, cnt>>          \* lands in the local histogram
\* the timed closure itself uses the same histogram (a nested timed section): its observation and the closure's both count
ClosureSharedRe   == cnt' = cnt + 2 /\ UNCHANGED <<tm, lpend>>
ClosureLocalRe    == lpend' = lpend + 2 /\ UNCHANGED <<tm, cnt>>
LocalFlush        == cnt' = cnt + lpend /\ lpend' = 0 /\ UNCHANGED tm
Next == \/ \E t \in Timers : \E k \in {"shared", "local"} : Start(t, k)
        \/ \E t \in Timers : Record(t) \/ Discard(t)
        \/ ClosureShared \/ ClosureLocal \/ ClosureSharedRe \/ ClosureLocalRe \/ LocalFlush
Spec == Init /\ [][Next]_vars
\* a timer contributes at most once; the count never decreases
AtMostOnce == [][cnt' >= cnt /\ cnt' - cnt <= IF lpend' = 0 /\ lpend > 0 THEN lpend ELSE 2]_vars
=============================================================================
