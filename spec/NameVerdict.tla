---------------------------- MODULE NameVerdict ----------------------------
(* C09, code -> specification: names tried on the real constructors (every ASCII character in first and later position,
   long names, multi-byte characters at every position) with the constructor's verdict; the specification must agree.
   Input lines: [kind |-> "metric" | "label", s |-> <<ranks>>, accepted |-> BOOLEAN]                           *)
EXTENDS Desc, Json, IOUtils, TLC
Recs == ndJsonDeserialize(IOEnv.HISTS)
RecOK(r) == r.accepted = (IF r.kind = "metric" THEN ValidMetricName(r.s) ELSE ValidLabelName(r.s))
VARIABLE k
Init == k = 1
Next == k <= Len(Recs) /\ k' = k + 1
Spec == Init /\ [][Next]_k
AllAgree == k <= Len(Recs) => (RecOK(Recs[k]) \/ PrintT(<<"REJECTED", k>>))
=============================================================================
