---------------------------- MODULE LinVec ----------------------------
(* API-level oracle for C10: is each recorded history of a real metric vector linearizable w.r.t. a map from
   label values to children?  Input lines: [calls |-> <<call>>], call = [t, i, k, inv, ret, res] + key / h / v.
   The map (which child a key denotes, which child a handle is bound to) must be explained by one total
   order consistent with real time.  The *values* shown by collect / read through a handle are judged per
   child by the counter rule of C01 (a collection reads its children one after another, so it is not a
   snapshot of several counters at one instant; the property does not ask for that): the value shown for a
   child is the sum of a set of updates of that child containing every update completed before the call
   began and none started after it returned.  Update amounts are distinct powers of two. *)
EXTENDS Integers, Sequences, FiniteSets, TLC, Json, IOUtils

Hists == ndJsonDeserialize(IOEnv.HISTS)

RECURSIVE SumOver(_, _)
SumOver(S, f) == IF S = {} THEN 0 ELSE LET x == CHOOSE x \in S : TRUE IN f[x] + SumOver(S \ {x}, f)
HasBit(s, v) == (s \div v) % 2 = 1

IdOf(m, key) == IF \E p \in m : p[1] = key THEN (CHOOSE p \in m : p[1] = key)[2] ELSE 0
Bound(b, t, h) == IF \E p \in b : p[1] = t /\ p[2] = h THEN (CHOOSE p \in b : p[1] = t /\ p[2] = h)[3] ELSE 0
KeysOfRes(r) == {r[j][1] : j \in DOMAIN r}

\* value v shown by call c for child id is explained by the updates bound to that child
Explained(ops, opid, v, id, c) ==
  LET H == {p[1] : p \in {q \in opid : q[2] = id}}
      S == {i \in H : HasBit(v, ops[i].v)}
      amt == [i \in DOMAIN ops |-> IF ops[i].k = "hinc" THEN ops[i].v ELSE 0] IN
  /\ v >= 0 /\ SumOver(S, amt) = v
  /\ \A i \in H : ops[i].ret < c.inv => i \in S
  /\ \A i \in S : ops[i].inv < c.ret

\* consistency between the order that explains the map and the values: an update that started only after some call
\* which is ordered AFTER the reading call had returned cannot be part of what that reading call saw
Pos(ord, i) == CHOOSE k \in DOMAIN ord : ord[k] = i
SeenSet(ops, opid, v, id) == {i \in {p[1] : p \in {q \in opid : q[2] = id}} : HasBit(v, ops[i].v)}
NotFromTheFuture(ops, ord, g, S) ==
  \A i \in S : \A k \in (Pos(ord, g) + 1)..Len(ord) : ~(ops[ord[k]].ret < ops[i].inv)
ValuesOK(ops, opid, snaps, reads, ord) ==
  /\ \A s \in snaps : LET c == ops[s[1]] IN
        \A j \in DOMAIN c.res : /\ Explained(ops, opid, c.res[j][2], IdOf(s[2], c.res[j][1]), c)
                                 /\ NotFromTheFuture(ops, ord, s[1], SeenSet(ops, opid, c.res[j][2], IdOf(s[2], c.res[j][1])))
  /\ \A r \in reads : /\ Explained(ops, opid, ops[r[1]].res, r[2], ops[r[1]])
                       /\ NotFromTheFuture(ops, ord, r[1], SeenSet(ops, opid, ops[r[1]].res, r[2]))

\* st = [map: set of <<key, id>>, bind: set of <<t, h, id>>, nid, opid: set of <<call, id>>, snaps, reads]
RECURSIVE Lin(_, _, _)
Apply(ops, i, st) ==
  LET o == ops[i] IN
  CASE o.k = "with" ->
         LET old == IdOf(st.map, o.key)
             id == IF old # 0 THEN old ELSE st.nid + 1 IN
         [ok |-> TRUE, st |-> [st EXCEPT !.map = @ \cup {<<o.key, id>>}, !.nid = IF old # 0 THEN @ ELSE @ + 1,
                                       !.bind = {p \in @ : ~(p[1] = o.t /\ p[2] = o.h)} \cup {<<o.t, o.h, id>>}]]
    [] o.k = "hinc" -> [ok |-> Bound(st.bind, o.t, o.h) # 0, st |-> [st EXCEPT !.opid = @ \cup {<<i, Bound(st.bind, o.t, o.h)>>}]]
    [] o.k = "hget" -> [ok |-> Bound(st.bind, o.t, o.h) # 0, st |-> [st EXCEPT !.reads = @ \cup {<<i, Bound(st.bind, o.t, o.h)>>}]]
    [] o.k = "remove" -> [ok |-> (o.res = "ok") <=> (IdOf(st.map, o.key) # 0), st |-> [st EXCEPT !.map = {p \in @ : p[1] # o.key}]]
    [] o.k = "reset" -> [ok |-> TRUE, st |-> [st EXCEPT !.map = {}]]
    [] o.k = "collect" -> [ok |-> /\ Cardinality(KeysOfRes(o.res)) = Len(o.res)            \* no label values twice
                                  /\ KeysOfRes(o.res) = {p[1] : p \in st.map},              \* exactly the current children
                           st |-> [st EXCEPT !.snaps = @ \cup {<<i, st.map>>}]]
    [] OTHER -> [ok |-> FALSE, st |-> st]

Lin(ops, done, st) ==
  \/ done = DOMAIN ops /\ ValuesOK(ops, st.opid, st.snaps, st.reads, st.ord)
  \/ \E i \in (DOMAIN ops) \ done :
        /\ \A j \in (DOMAIN ops) \ done : ~(ops[j].ret < ops[i].inv)
        /\ LET a == Apply(ops, i, st) IN a.ok /\ Lin(ops, done \cup {i}, [a.st EXCEPT !.ord = Append(@, i)])

St0 == [map |-> {}, bind |-> {}, nid |-> 0, opid |-> {}, snaps |-> {}, reads |-> {}, ord |-> <<>>]

VARIABLE k
Init == k = 1
Next == k <= Len(Hists) /\ k' = k + 1
Spec == Init /\ [][Next]_k
Linearizable == k <= Len(Hists) => (Lin(Hists[k].calls, {}, St0) \/ PrintT(<<"REJECTED", k>>))
=============================================================================
