---------------------------- MODULE VecProj ----------------------------
(* Replay-material generator: VecImpl plus a redundant JSON projection of the shared state. *)
EXTENDS VecImpl, Json
VARIABLE proj
Present(m) == {k \in Keys : m[k] # 0}
P(m, v, w, r, pc_, ip_) ==
  ToJson([lock |-> [w |-> w, r |-> [t \in Threads |-> t \in r]],
          children |-> [k \in Keys |-> IF m[k] # 0 THEN v[m[k]] ELSE -1],
          pc |-> pc_, ip |-> ip_])
PInit == Init /\ proj = P(map, vals, lockW, lockR, pc, ip)
PStep(t) == Step(t) /\ proj' = P(map', vals', lockW', lockR', pc', ip')
PNext == \E t \in Threads : PStep(t)
PSpec == PInit /\ [][PNext]_<<vars, proj>>
=============================================================================
