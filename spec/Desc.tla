---------------------------- MODULE Desc ----------------------------
(* Descriptors (src/desc.rs, src/metrics.rs): name validation, fully-qualified names, the byte streams that
   define descriptor identity and dimension signature.  A descriptor is
      [name, help : Str,  cl : [set of label names -> Str] (constant labels),  vl : Seq(label name)]       *)
EXTENDS Chars, SequencesExt, FiniteSetsExt

\* [a-zA-Z_:][a-zA-Z0-9_:]*   and   [a-zA-Z_][a-zA-Z0-9_]*   (ASCII only)
MetricStart(c) == IsAsciiLetter(c) \/ c = USC \/ c = COLON
MetricRest(c)  == MetricStart(c) \/ IsAsciiDigit(c)
LabelStart(c)  == IsAsciiLetter(c) \/ c = USC
LabelRest(c)   == LabelStart(c) \/ IsAsciiDigit(c)
ValidMetricName(s) == Len(s) > 0 /\ MetricStart(s[1]) /\ \A i \in 2..Len(s) : MetricRest(s[i])
ValidLabelName(s)  == Len(s) > 0 /\ LabelStart(s[1]) /\ \A i \in 2..Len(s) : LabelRest(s[i])

\* namespace, subsystem and name joined by "_"; empty components are skipped; an empty name gives ""
FqName(ns, sub, name) ==
  IF name = <<>> THEN <<>>
  ELSE IF ns # <<>> /\ sub # <<>> THEN ns \o <<USC>> \o sub \o <<USC>> \o name
  ELSE IF ns # <<>> THEN ns \o <<USC>> \o name
  ELSE IF sub # <<>> THEN sub \o <<USC>> \o name
  ELSE name

VarSet(d) == {d.vl[i] : i \in DOMAIN d.vl}
\* constructors accept a descriptor exactly when ...
DescOK(d) == /\ d.help # <<>>
             /\ ValidMetricName(d.name)
             /\ \A n \in DOMAIN d.cl : ValidLabelName(n)
             /\ \A i \in DOMAIN d.vl : ValidLabelName(d.vl[i])
             /\ \A i, j \in DOMAIN d.vl : i # j => d.vl[i] # d.vl[j]          \* a variable label name twice
             /\ VarSet(d) \cap DOMAIN d.cl = {}                               \* the same name constant and variable
\* the reserved bucket label of histograms, "le" (l and e are outside the table: scalar + 1000)
LeName == <<1108, 1101>>
HistDescOK(d) == DescOK(d) /\ LeName \notin (DOMAIN d.cl \cup VarSet(d))

SortedNames(S) == SetToSortSeq(S, LAMBDA a, b : SeqLt(a, b))

\* identity: fully-qualified name and the constant-label VALUES in label-name order, each terminated by a
\* separator that cannot occur inside a string (0 is not a character rank)
SEP == 0
MARK == -1
IdStream(d) == d.name \o <<SEP>> \o Concat([i \in 1..Cardinality(DOMAIN d.cl) |-> d.cl[SortedNames(DOMAIN d.cl)[i]] \o <<SEP>>])
IdKey(d)    == <<d.name, [i \in 1..Cardinality(DOMAIN d.cl) |-> d.cl[SortedNames(DOMAIN d.cl)[i]]]>>
\* dimension: help and the label names, variable ones marked, in sorted order
DimNames(d) == DOMAIN d.cl \cup {<<MARK>> \o v : v \in VarSet(d)}
DimStream(d) == d.help \o <<SEP>> \o Concat([i \in 1..Cardinality(DimNames(d)) |-> SortedNames(DimNames(d))[i] \o <<SEP>>])
DimKey(d)   == <<d.help, DOMAIN d.cl, VarSet(d)>>

\* C15 as a statement about the streams (checked by TLC over a pool): equal streams <=> equal keys
IdentityIsStructural(P) == \A d1, d2 \in P : (IdStream(d1) = IdStream(d2)) <=> (IdKey(d1) = IdKey(d2))
DimensionIsStructural(P) == \A d1, d2 \in P : (DimStream(d1) = DimStream(d2)) <=> (DimKey(d1) = DimKey(d2))
=============================================================================
