---------------------------- MODULE RegProj ----------------------------
EXTENDS RegImpl, Json
VARIABLE proj
P(reg_, cval_, w, r, pc_, ip_) == ToJson([lock |-> [w |-> w, r |-> [t \in Threads |-> t \in r]],
                                          registered |-> [c \in Cids |-> c \in reg_], cval |-> cval_, pc |-> pc_, ip |-> ip_])
PInit == IInit /\ proj = P(registered, cval, lockW, lockR, pc, ip)
PStep(t) == Step(t) /\ proj' = P(registered', cval', lockW', lockR', pc', ip')
PNext == \E t \in Threads : PStep(t)
PSpec == PInit /\ [][PNext]_<<ivars, proj>>
=============================================================================
