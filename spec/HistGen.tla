---------------------------- MODULE HistGen ----------------------------
(* C08 generator: bucket lists (ordered, unordered, duplicated, NaN, infinite, empty) and observation sequences
   over the abstract float domain.  mode "accept": all bucket lists; mode "observe": accepted lists x observations. *)
EXTENDS Histogram, Json, TLC
CONSTANTS BVals, OVals, MaxB, MaxO
VARIABLES mode, bs, obs
Lists(S, n) == UNION {[1..k -> S] : k \in 0..n}
Init == \/ mode = "accept" /\ bs \in Lists(BVals, MaxB) /\ obs = <<>>
        \/ mode = "observe" /\ bs \in {b \in Lists(BVals, MaxB) : Accepted(b) /\ b # <<>>} /\ obs \in Lists(OVals, MaxO)
Spec == Init /\ [][UNCHANGED <<mode, bs, obs>>]_<<mode, bs, obs>>
S == Snapshot(Adjusted(bs), obs)
Emit == PrintT(<<"CASE", ToJson([mode |-> mode, bs |-> bs, obs |-> obs, accept |-> Accepted(bs), ubs |-> Adjusted(bs),
                                  count |-> S.count, sum |-> S.sum, cum |-> S.cum])>>)
\* design facts
CumMonotone == Accepted(bs) => Monotone(S) /\ (Len(S.cum) > 0 => S.cum[Len(S.cum)] <= S.count)
FirstBucketAgrees == Accepted(bs) => \A i \in DOMAIN Adjusted(bs) : CumByFirst(Adjusted(bs), obs, i) = S.cum[i]
=============================================================================
