---------------------------- MODULE Vec ----------------------------
(* Abstract metric vector (src/vec.rs): a map from label-VALUE TUPLES to children.  This is the atomic object
   VecImpl must implement (C10) and the meaning of child identity (C05).
     children : [set of tuples -> value]      a tuple is a sequence of strings, one per declared label name *)
EXTENDS Chars, SequencesExt, FiniteSetsExt

\* what must be fed to a hash so that distinct tuples stay distinct: every value followed by a separator that
\* cannot occur inside a value
SEP == 0
KeyStream(vals) == Concat([i \in DOMAIN vals |-> vals[i] \o <<SEP>>])
KeysInjectiveOn(T) == \A a, b \in T : (KeyStream(a) = KeyStream(b)) <=> (a = b)

\* pure state transformers (arity = number of declared variable labels)
WellFormed(arity, vals) == Len(vals) = arity
Get(ch, vals)        == IF vals \in DOMAIN ch THEN ch ELSE ch @@ (vals :> 0)          \* fresh child starts from zero
Add(ch, vals, v)     == [ch EXCEPT ![vals] = @ + v]
Delete(ch, vals)     == [t \in (DOMAIN ch) \ {vals} |-> ch[t]]
Clear(ch)            == << >>
\* map form: the request names every declared label exactly once; order of the keys is irrelevant
FromMap(names, m)    == [i \in DOMAIN names |-> m[names[i]]]
MapWellFormed(names, m) == DOMAIN m = {names[i] : i \in DOMAIN names}

\* labels a child exposes: declared names with the tuple's values, plus the constant labels, sorted by name
ChildLabels(names, consts, vals) ==
  SetToSortSeq({<<names[i], vals[i]>> : i \in DOMAIN names} \cup consts, LAMBDA p, q : SeqLt(p[1], q[1]))

(* state machine form, used for refinement and for sequential histories *)
CONSTANTS Arity, Tuples, Amounts
VARIABLE children
Init == children = << >>
DoGet(vals)    == WellFormed(Arity, vals) /\ children' = Get(children, vals)
DoAdd(vals, v) == vals \in DOMAIN children /\ children' = Add(children, vals, v)
DoRemove(vals) == vals \in DOMAIN children /\ children' = Delete(children, vals)
DoReset        == children' = Clear(children)
Refused(vals)  == ~WellFormed(Arity, vals) /\ UNCHANGED children                       \* errors create nothing
Next == \/ \E t \in Tuples : DoGet(t) \/ (\E v \in Amounts : DoAdd(t, v)) \/ DoRemove(t) \/ Refused(t)
        \/ DoReset
Spec == Init /\ [][Next]_children
OneChildPerTuple == \A a, b \in DOMAIN children : KeyStream(a) = KeyStream(b) => a = b
=============================================================================
