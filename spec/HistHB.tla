---------------------------- MODULE HistHB ----------------------------
(* Ghost happens-before layer over HistImpl: derives from the memory orderings the code
   actually uses (constant Ord, bound to the implementation by the shim trace) whether every
   observer/merge update of a shard cell happens-before the collector's drain of that cell. *)
EXTENDS HistImpl

CONSTANT Ord   \* [site -> {"Relaxed","Acquire","Release","AcqRel","SeqCst"}]

VARIABLES K,     \* [Threads -> SUBSET Token]   data writes that happen-before the thread's next op
          R,     \* [Loc -> SUBSET Token]       release clock of each atomic location / lock
          Wr,    \* [Cell -> SUBSET Token]      undrained data writes applied to a data cell
          race   \* TRUE once a drain was not ordered after a write it consumed

hbvars == <<K, R, Wr, race>>

IsAcq(o) == o \in {"Acquire", "AcqRel", "SeqCst"}
IsRel(o) == o \in {"Release", "AcqRel", "SeqCst"}

Cells == {<<"s", s>> : s \in 0..1} \cup {<<"b", s, i>> : s \in 0..1, i \in 1..NB}
Locs  == {<<"sc">>, <<"lock">>} \cup {<<"c", s>> : s \in 0..1} \cup Cells

\* access descriptor of the step thread t is about to take (function of the pre-state)
\* [x: location, acq, rel: BOOLEAN, w: token-or-None (data write), drain: BOOLEAN]
NoTok == <<>>
Acc(x, o, isWrite) == [on |-> TRUE, x |-> x, acq |-> IsAcq(o), rel |-> isWrite /\ IsRel(o), w |-> NoTok, drain |-> FALSE]
NoAcc == [on |-> FALSE]
Tok(t, cell) == <<t, ip[t], cell>>

Access(t) ==
  LET s == loc[t].s  h == 1 - loc[t].s IN
  CASE pc[t] = "claim"    -> Acc(<<"sc">>, Ord.claim, TRUE)
    [] pc[t] = "bucket"   -> LET j == NextB(t, loc[t].i) IN
                             IF j = 0 THEN NoAcc
                             ELSE [Acc(<<"b", s, j>>, Ord.bucket, TRUE) EXCEPT !.w = Tok(t, <<"b", s, j>>)]
    [] pc[t] = "sumadd"   -> [on |-> TRUE, x |-> <<"s", s>>, acq |-> IsAcq(Ord.f64load), rel |-> IsRel(Ord.f64cas), w |-> Tok(t, <<"s", s>>), drain |-> FALSE]
    [] pc[t] = "sumload"  -> Acc(<<"s", s>>, Ord.f64load, FALSE)
    [] pc[t] = "sumcas"   -> IF sum[s] = loc[t].rd
                             THEN [Acc(<<"s", s>>, Ord.f64cas, TRUE) EXCEPT !.w = Tok(t, <<"s", s>>)]
                             ELSE Acc(<<"s", s>>, Ord.f64casfail, FALSE)
    [] pc[t] = "publish"  -> Acc(<<"c", s>>, Ord.publish, TRUE)
    [] pc[t] \in {"c_lock", "s_lock"} -> [on |-> TRUE, x |-> <<"lock">>, acq |-> TRUE, rel |-> FALSE, w |-> NoTok, drain |-> FALSE]
    [] pc[t] \in {"c_unlock", "s_unlock"} -> [on |-> TRUE, x |-> <<"lock">>, acq |-> FALSE, rel |-> TRUE, w |-> NoTok, drain |-> FALSE]
    [] pc[t] = "flip"     -> Acc(<<"sc">>, Ord.flip, TRUE)
    [] pc[t] = "spin"     -> IF cnt[s] = loc[t].exp THEN Acc(<<"c", s>>, Ord.spinok, TRUE)
                             ELSE Acc(<<"c", s>>, Ord.spinfail, FALSE)
    [] pc[t] = "drainsum" -> [Acc(<<"s", s>>, Ord.drain, TRUE) EXCEPT !.drain = TRUE]
    [] pc[t] = "drainb"   -> [Acc(<<"b", s, loc[t].i>>, Ord.drain, TRUE) EXCEPT !.drain = TRUE]
    [] pc[t] = "mergeb"   -> [Acc(<<"b", h, loc[t].i>>, Ord.merge, TRUE) EXCEPT !.w = Tok(t, <<"b", h, loc[t].i>>)]
    [] pc[t] = "hotcnt"   -> Acc(<<"c", h>>, Ord.hotcnt, TRUE)
    [] pc[t] = "hsumadd"  -> [on |-> TRUE, x |-> <<"s", h>>, acq |-> IsAcq(Ord.f64load), rel |-> IsRel(Ord.f64cas), w |-> Tok(t, <<"s", h>>), drain |-> FALSE]
    [] pc[t] = "hsumload" -> Acc(<<"s", h>>, Ord.f64load, FALSE)
    [] pc[t] = "hsumcas"  -> IF sum[h] = loc[t].rd
                             THEN [Acc(<<"s", h>>, Ord.f64cas, TRUE) EXCEPT !.w = Tok(t, <<"s", h>>)]
                             ELSE Acc(<<"s", h>>, Ord.f64casfail, FALSE)
    [] pc[t] = "s_sc"     -> Acc(<<"sc">>, "Relaxed", FALSE)
    [] pc[t] = "s_sum"    -> Acc(<<"s", sc.hot>>, "Relaxed", FALSE)
    [] pc[t] = "n_load"   -> Acc(<<"sc">>, "Relaxed", FALSE)
    [] OTHER -> NoAcc

Ghost(t) ==
  LET a == Access(t) IN
  IF ~a.on THEN UNCHANGED hbvars
  ELSE LET sync == a.x \notin Cells   \* synchronisation through the data cells themselves is not counted
           k1 == IF a.acq /\ sync THEN K[t] \cup R[a.x] ELSE K[t]
           k2 == IF a.w = NoTok THEN k1 ELSE k1 \cup {a.w}
           gone == IF a.drain THEN Wr[a.x] ELSE {}
       IN /\ race' = (race \/ (a.drain /\ ~(Wr[a.x] \subseteq k1)))
          /\ K' = [u \in Threads |-> (IF u = t THEN k2 ELSE K[u]) \ gone]
          /\ R' = [x \in Locs |-> (IF x = a.x /\ a.rel /\ sync THEN R[x] \cup k2 ELSE R[x]) \ gone]
          /\ Wr' = [c \in Cells |-> IF c = a.x THEN (IF a.drain THEN {} ELSE IF a.w = NoTok THEN Wr[c] ELSE Wr[c] \cup {a.w})
                                   ELSE Wr[c]]

HBInit == Init /\ K = [t \in Threads |-> {}] /\ R = [x \in Locs |-> {}] /\ Wr = [c \in Cells |-> {}] /\ race = FALSE
HBNext == \E t \in Threads : Step(t) /\ Ghost(t)
HBSpec == HBInit /\ [][HBNext]_<<vars, hbvars>>

\* C02 (memory-model clause): the count hand-off orders every consumed update before the drain
HandOffOrdered == ~race
=============================================================================
