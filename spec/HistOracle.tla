---------------------------- MODULE HistOracle ----------------------------
(* C08, code -> specification: snapshots recorded from real histograms fed with ARBITRARY f64 bounds and
   observations (random mantissas, not the small abstract domain of HistGen) are judged against Histogram.tla
   after an order-preserving rank transform: every distinct finite value is replaced by its rank among the
   values of the case, infinities, negative zero and NaN keep their class.  All comparison-based clauses
   (acceptance, bucket placement, cumulative counts, count) are decided here; the arithmetic clause (sum in
   observation order) for arbitrary mantissas is outside the abstract float domain and is recomputed by the
   harness.  Input lines: [bs, obs : Seq(F), accepted : BOOLEAN, cum : Seq(Nat), count : Nat]          *)
EXTENDS Histogram, Json, IOUtils, TLC
Recs == ndJsonDeserialize(IOEnv.HISTS)
F(x) == [c |-> x.c, n |-> x.n]
Fs(s) == [i \in DOMAIN s |-> F(s[i])]
RecOK(r) == LET bs == Fs(r.bs)  obs == Fs(r.obs) IN
            /\ r.accepted = Accepted(bs)
            /\ (r.accepted /\ bs # <<>>) =>
                  LET s == Snapshot(Adjusted(bs), obs) IN
                  /\ r.count = s.count
                  /\ Len(r.cum) = Len(s.cum) /\ \A i \in DOMAIN s.cum : r.cum[i] = s.cum[i]
VARIABLE k
Init == k = 1
Next == k <= Len(Recs) /\ k' = k + 1
Spec == Init /\ [][Next]_k
AllOK == k <= Len(Recs) => (RecOK(Recs[k]) \/ PrintT(<<"REJECTED", k>>))
=============================================================================
