---------------------------- MODULE VecImpl ----------------------------
(* Step-level model of MetricVecCore (src/vec.rs) with counter children (src/counter.rs, src/atomic64.rs).
   The shim trace of the real code shows the step structure
     get-or-create : RLock, RUnlock [, WLock, WUnlock]      remove / reset : WLock, WUnlock
     collect       : RLock, (load of one child)*, RUnlock   handle update  : fetch_add | load ; CAS loop
   Map reads and writes are thread-local work inside the critical section, so they are folded into the
   lock-acquiring action.  Children are named by creation event (the allocator reuses addresses). *)
EXTENDS Integers, Sequences, FiniteSets, TLC

CONSTANTS Threads, Script, Keys, Flavor, MaxId,
          RefAmounts   \* amounts used by the scripts (witnesses for the refinement check)
\* op = [k |-> "with", key, h] | [k |-> "hinc", h, v] | [k |-> "hget", h] | [k |-> "remove", key] | [k |-> "reset"] | [k |-> "collect"]

VARIABLES map,     \* [Keys -> 0..MaxId]   0 = no child
          vals,    \* [1..MaxId -> Int]    value cell of each child ever created
          nid,     \* number of children created so far
          lockW,   \* writer holding the children lock, or "none"
          lockR,   \* set of readers holding it
          pc, ip, loc

vars == <<map, vals, nid, lockW, lockR, pc, ip, loc>>
Op(t) == Script[t][ip[t]]
Slots == 0..2

Init == /\ map = [k \in Keys |-> 0] /\ vals = [i \in 1..MaxId |-> 0] /\ nid = 0
        /\ lockW = "none" /\ lockR = {}
        /\ pc = [t \in Threads |-> "idle"] /\ ip = [t \in Threads |-> 1]
        /\ loc = [t \in Threads |-> [hit |-> 0, hs |-> [s \in Slots |-> 0], rd |-> 0, todo |-> {}, ok |-> TRUE]]

Finish(t) == pc' = [pc EXCEPT ![t] = "idle"] /\ ip' = [ip EXCEPT ![t] = @ + 1]
CanRead == lockW = "none"
CanWrite == lockW = "none" /\ lockR = {}

Start(t) ==
  /\ pc[t] = "idle" /\ ip[t] <= Len(Script[t])
  /\ pc' = [pc EXCEPT ![t] = CASE Op(t).k = "with" -> "g_rlock"
                               [] Op(t).k = "hinc" -> IF Flavor = "int" THEN "h_rmw" ELSE "h_load"
                               [] Op(t).k = "hget" -> "h_get"
                               [] Op(t).k = "remove" -> "d_wlock"
                               [] Op(t).k = "reset" -> "z_wlock"
                               [] Op(t).k = "collect" -> "c_rlock"]
  /\ UNCHANGED <<map, vals, nid, lockW, lockR, ip, loc>>

(* ---- get_metric_with_label_values ---- *)
GetRLock(t) ==   \* children.read() + lookup
  /\ pc[t] = "g_rlock" /\ CanRead
  /\ lockR' = lockR \cup {t}
  /\ loc' = [loc EXCEPT ![t].hit = map[Op(t).key]]
  /\ pc' = [pc EXCEPT ![t] = "g_runlock"]
  /\ UNCHANGED <<map, vals, nid, lockW, ip>>
GetRUnlock(t) ==
  /\ pc[t] = "g_runlock"
  /\ lockR' = lockR \ {t}
  /\ IF loc[t].hit # 0
     THEN /\ loc' = [loc EXCEPT ![t].hs[Op(t).h] = loc[t].hit] /\ Finish(t)
     ELSE /\ pc' = [pc EXCEPT ![t] = "g_wlock"] /\ UNCHANGED <<ip, loc>>
  /\ UNCHANGED <<map, vals, nid, lockW>>
GetWLock(t) ==   \* get_or_create_metric: children.write(), check again, insert
  /\ pc[t] = "g_wlock" /\ CanWrite
  /\ lockW' = t
  /\ IF map[Op(t).key] # 0
     THEN /\ loc' = [loc EXCEPT ![t].hit = map[Op(t).key]] /\ UNCHANGED <<map, nid>>
     ELSE /\ nid' = nid + 1
          /\ map' = [map EXCEPT ![Op(t).key] = nid + 1]
          /\ loc' = [loc EXCEPT ![t].hit = nid + 1]
  /\ pc' = [pc EXCEPT ![t] = "g_wunlock"]
  /\ UNCHANGED <<vals, lockR, ip>>
GetWUnlock(t) ==
  /\ pc[t] = "g_wunlock"
  /\ lockW' = "none"
  /\ loc' = [loc EXCEPT ![t].hs[Op(t).h] = loc[t].hit]
  /\ Finish(t) /\ UNCHANGED <<map, vals, nid, lockR>>

(* ---- remove_label_values / reset ---- *)
DelWLock(t) ==
  /\ pc[t] = "d_wlock" /\ CanWrite
  /\ lockW' = t
  /\ loc' = [loc EXCEPT ![t].ok = (map[Op(t).key] # 0)]
  /\ map' = [map EXCEPT ![Op(t).key] = 0]
  /\ pc' = [pc EXCEPT ![t] = "d_wunlock"]
  /\ UNCHANGED <<vals, nid, lockR, ip>>
ResetWLock(t) ==
  /\ pc[t] = "z_wlock" /\ CanWrite
  /\ lockW' = t
  /\ map' = [k \in Keys |-> 0]
  /\ pc' = [pc EXCEPT ![t] = "d_wunlock"]
  /\ UNCHANGED <<vals, nid, lockR, ip, loc>>
WUnlock(t) ==
  /\ pc[t] = "d_wunlock"
  /\ lockW' = "none" /\ Finish(t)
  /\ UNCHANGED <<map, vals, nid, lockR, loc>>

(* ---- collect ---- *)
ColRLock(t) ==
  /\ pc[t] = "c_rlock" /\ CanRead
  /\ lockR' = lockR \cup {t}
  /\ LET ids == {map[k] : k \in {x \in Keys : map[x] # 0}} IN
     /\ loc' = [loc EXCEPT ![t].todo = ids]
     /\ pc' = [pc EXCEPT ![t] = IF ids = {} THEN "c_runlock" ELSE "c_child"]
  /\ UNCHANGED <<map, vals, nid, lockW, ip>>
ColChild(t) ==   \* child.metric(): one load per child, in hash-map order (any order)
  /\ pc[t] = "c_child"
  /\ \E i \in loc[t].todo :
       /\ loc' = [loc EXCEPT ![t].todo = @ \ {i}]
       /\ pc' = [pc EXCEPT ![t] = IF loc[t].todo = {i} THEN "c_runlock" ELSE "c_child"]
  /\ UNCHANGED <<map, vals, nid, lockW, lockR, ip>>
ColRUnlock(t) ==
  /\ pc[t] = "c_runlock"
  /\ lockR' = lockR \ {t} /\ Finish(t)
  /\ UNCHANGED <<map, vals, nid, lockW, loc>>

(* ---- updates through a handle (no lock) ---- *)
Target(t) == loc[t].hs[Op(t).h]
HRmw(t) ==
  /\ pc[t] = "h_rmw"
  /\ vals' = [vals EXCEPT ![Target(t)] = @ + Op(t).v]
  /\ Finish(t) /\ UNCHANGED <<map, nid, lockW, lockR, loc>>
HLoad(t) ==
  /\ pc[t] = "h_load"
  /\ loc' = [loc EXCEPT ![t].rd = vals[Target(t)]]
  /\ pc' = [pc EXCEPT ![t] = "h_cas"]
  /\ UNCHANGED <<map, vals, nid, lockW, lockR, ip>>
HCas(t) ==
  /\ pc[t] = "h_cas"
  /\ \/ /\ vals[Target(t)] = loc[t].rd
        /\ vals' = [vals EXCEPT ![Target(t)] = @ + Op(t).v]
        /\ Finish(t) /\ UNCHANGED <<map, nid, lockW, lockR, loc>>
     \/ /\ vals[Target(t)] # loc[t].rd
        /\ pc' = [pc EXCEPT ![t] = "h_load"]
        /\ UNCHANGED <<map, vals, nid, lockW, lockR, ip, loc>>
HGet(t) ==
  /\ pc[t] = "h_get"
  /\ loc' = [loc EXCEPT ![t].rd = vals[Target(t)]]
  /\ Finish(t) /\ UNCHANGED <<map, vals, nid, lockW, lockR>>

Step(t) == \/ Start(t) \/ GetRLock(t) \/ GetRUnlock(t) \/ GetWLock(t) \/ GetWUnlock(t)
           \/ DelWLock(t) \/ ResetWLock(t) \/ WUnlock(t) \/ ColRLock(t) \/ ColChild(t) \/ ColRUnlock(t)
           \/ HRmw(t) \/ HLoad(t) \/ HCas(t) \/ HGet(t)
Next == \E t \in Threads : Step(t)
Spec == Init /\ [][Next]_vars /\ \A t \in Threads : WF_vars(Step(t))

AllDone == \A t \in Threads : pc[t] = "idle" /\ ip[t] > Len(Script[t])

(* ---------------- properties ---------------- *)
\* the children lock is a readers-writer lock
LockSafety == lockW # "none" => lockR = {}
\* a collection never shows the same label values twice / one child per key: the mapping is a function and
\* no two keys share a child
OneChildPerKey == \A k1, k2 \in Keys : (map[k1] # 0 /\ map[k1] = map[k2]) => k1 = k2
\* simultaneous first requests for the same label values yield the same child: whenever two threads hold
\* handles obtained for the same key with no removal of that key in between, the handles are equal.
\* (ghost-free form) a handle obtained by a call that has just finished points at the current child of its key
FreshHandleIsCurrent ==
  \A t \in Threads : (pc[t] = "g_wunlock" \/ (pc[t] = "g_runlock" /\ loc[t].hit # 0)) =>
       (lockW = t => map[Op(t).key] = loc[t].hit)
\* children are created only under the write lock, ids are never reused
IdsBounded == nid <= MaxId

(* ---------------- refinement: VecImpl implements the atomic map Vec ---------------- *)
\* abstract children: the label-value tuple <<k>> of every key that currently has a child, with that child's value.
\* Updates through handles of removed children change nothing visible (stuttering steps of Vec).
AbsChildren == [t \in {<<k>> : k \in {x \in Keys : map[x] # 0}} |-> vals[map[t[1]]]]
VecAbs == INSTANCE Vec WITH children <- AbsChildren, Arity <- 1, Tuples <- {<<k>> : k \in Keys}, Amounts <- RefAmounts
RefinesVec == VecAbs!Spec
Termination == <>AllDone
=============================================================================
