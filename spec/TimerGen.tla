---------------------------- MODULE TimerGen ----------------------------
(* C18 behaviour generator: all histories of length MaxLen over start / observe_duration / stop_and_record /
   stop_and_discard / drop (each on the creating thread or moved to another thread) and closure observations. *)
EXTENDS Timer, Json
CONSTANT MaxLen
VARIABLE hist
Ev(op, t, kind, thr) == [op |-> op, t |-> t, kind |-> kind, thread |-> thr, cnt |-> cnt', lpend |-> lpend']
HInit == Init /\ hist = <<>>
HNext == /\ Len(hist) < MaxLen
         /\ \/ \E t \in Timers : \E k \in {"shared", "local"} : Start(t, k) /\ hist' = Append(hist, Ev("start", t, k, FALSE))
            \/ \E t \in Timers : \E thr \in BOOLEAN :
                 \/ Record(t)  /\ \E op \in {"observe_duration", "stop_and_record", "drop_timer", "drop_timer_unwinding"} : hist' = Append(hist, Ev(op, t, tm[t].kind, thr))
                 \/ Discard(t) /\ hist' = Append(hist, Ev("stop_and_discard", t, tm[t].kind, thr))
            \/ ClosureShared /\ hist' = Append(hist, Ev("closure", "-", "shared", FALSE))
            \/ ClosureLocal  /\ hist' = Append(hist, Ev("closure", "-", "local", FALSE))
            \/ ClosureSharedRe /\ hist' = Append(hist, Ev("closure_reenter", "-", "shared", FALSE))
            \/ ClosureLocalRe  /\ hist' = Append(hist, Ev("closure_reenter", "-", "local", FALSE))
            \/ LocalFlush    /\ hist' = Append(hist, Ev("lflush", "-", "local", FALSE))
HSpec == HInit /\ [][HNext]_<<vars, hist>>
Emit == Len(hist) = MaxLen => PrintT(<<"REPLAY", ToJson(hist)>>)
=============================================================================
