---------------------------- MODULE Macros ----------------------------
(* Registration macros (src/macros.rs) as shorthands: the meaning of every arm is an explicit constructor
   record followed by Register on the named registry (the default registry when none is named).
   States are the inputs: (macro, form, trailing comma, how the options value is built, argument values,
   target registry, name already taken or fresh).  One JSON line per state with the explicit twin. *)
EXTENDS Integers, Sequences, FiniteSets, TLC, Json
CONSTANTS ConstPool,    \* set of constant-label maps (as sets of <<k, v>>)
          LabelPool,    \* set of variable-label name lists
          BucketPool    \* set of bucket lists (sequences of integers scaled by the harness, or the string "inf"); <<>> = defaults
Scalars == {"counter", "int_counter", "gauge", "int_gauge"}
Vecs == {"counter_vec", "int_counter_vec", "gauge_vec", "int_gauge_vec"}
AllMacros == Scalars \cup Vecs \cup {"histogram", "histogram_vec"}
Forms(m) == IF m \in Scalars THEN {"opts", "name_help"}
            ELSE IF m \in Vecs THEN {"opts_labels", "name_help_labels"}
            ELSE IF m = "histogram" THEN {"opts", "name_help", "name_help_buckets"}
            ELSE {"opts_labels", "name_help_labels", "name_help_labels_buckets"}
UsesOpts(f) == f \in {"opts", "opts_labels"}
HasBuckets(f) == f \in {"name_help_buckets", "name_help_labels_buckets"}
IsVec(m) == m \in Vecs \/ m = "histogram_vec"
IsHist(m) == m \in {"histogram", "histogram_vec"}

VARIABLES m, form, tc, optsvia, const, labels, buckets, target, taken
vars == <<m, form, tc, optsvia, const, labels, buckets, target, taken>>
Init == /\ m \in AllMacros /\ form \in Forms(m) /\ tc \in BOOLEAN
        /\ optsvia \in (IF UsesOpts(form) THEN {"opts!", "explicit"} ELSE {"-"})
        /\ const \in (IF UsesOpts(form) THEN ConstPool ELSE {{}})
        /\ labels \in (IF IsVec(m) THEN LabelPool ELSE {<<>>})
        /\ buckets \in (IF IsHist(m) /\ (HasBuckets(form) \/ UsesOpts(form)) THEN BucketPool ELSE {<<>>})
        \* histogram_opts!(name, help, buckets, const): constant labels only together with buckets
        /\ (IsHist(m) /\ UsesOpts(form) /\ optsvia = "opts!" /\ buckets = <<>> => const = {})
        /\ (HasBuckets(form) => buckets # <<>>)
        /\ target \in {"default", "custom", "custom_prefixed"}
        /\ taken \in {"no", "same", "otherkind"}      \* the name is fresh / taken by an equal metric / taken by a metric of another kind
Spec == Init /\ [][UNCHANGED vars]_vars

\* opts!(name, help, map1, map2, ...): the maps are merged left to right (HashMap::extend in the macro body), a name given twice keeps
\* the LATER value; `const` below is the merged map.
\* the explicit twin: constructor + arguments
Twin == [ctor |-> m, const |-> const, labels |-> labels, buckets |-> buckets]     \* name and help are supplied by the harness (unique per case)
\* a fresh name is admitted; a name whose descriptor is already registered in the target registry is refused
Outcome == IF taken # "no" THEN "AlreadyReg" ELSE "Ok"      \* descriptor identity carries no kind: another kind under the same identity is refused too
SetToSeq(S) == CHOOSE s \in [1..Cardinality(S) -> S] : \A i, j \in 1..Cardinality(S) : i # j => s[i] # s[j]
Emit == PrintT(<<"CASE", ToJson([m |-> m, form |-> form, tc |-> tc, optsvia |-> optsvia, const |-> SetToSeq(const), labels |-> labels, buckets |-> buckets,
                                  target |-> target, taken |-> taken, outcome |-> Outcome])>>)
=============================================================================
