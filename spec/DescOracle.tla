---------------------------- MODULE DescOracle ----------------------------
(* C15, code -> specification: descriptors built by the real Desc::new from strings outside the enumerated pools (long
   strings, length-framing adversarial splits) with the identity and dimension hash the code gave them; over every pair of
   a batch the specification demands:  equal id  <=>  equal IdKey,   equal dim_hash  <=>  equal DimKey.
   Input lines: [descs |-> << [name, help, cl |-> << <<lname, value>> >>, vl |-> << lname >>, id, dim] >>]          *)
EXTENDS Desc, Json, IOUtils, TLC
Recs == ndJsonDeserialize(IOEnv.HISTS)
ClFun(d) == [n \in {d.cl[i][1] : i \in DOMAIN d.cl} |-> (CHOOSE i \in DOMAIN d.cl : d.cl[i][1] = n)]
D(d) == [name |-> d.name, help |-> d.help, cl |-> [n \in DOMAIN ClFun(d) |-> d.cl[ClFun(d)[n]][2]], vl |-> d.vl]
BatchOK(r) == \A i, j \in DOMAIN r.descs : i < j =>
                 /\ (r.descs[i].id = r.descs[j].id) <=> (IdKey(D(r.descs[i])) = IdKey(D(r.descs[j])))
                 /\ (r.descs[i].dim = r.descs[j].dim) <=> (DimKey(D(r.descs[i])) = DimKey(D(r.descs[j])))
VARIABLE k
Init == k = 1
Next == k <= Len(Recs) /\ k' = k + 1
Spec == Init /\ [][Next]_k
AllOK == k <= Len(Recs) => (BatchOK(Recs[k]) \/ PrintT(<<"REJECTED", k>>))
=============================================================================
