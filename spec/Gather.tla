---------------------------- MODULE Gather ----------------------------
(* Registry::gather as a pure function of the registry's content (src/registry.rs).
   collector = [name, help : Str, type : STRING, samples : set of [labels : set of <<lname, lvalue>>, v : Int, type : STRING]]
   A sample's value v stands for the payload (counter/gauge value, histogram count, ...).                  *)
EXTENDS Desc

LabelSeq(ls) == SetToSortSeq(ls, LAMBDA p, q : SeqLt(p[1], q[1]))          \* labels of a sample, sorted by name
ValuesOf(s)  == [i \in 1..Cardinality(s.labels) |-> LabelSeq(s.labels)[i][2]]
\* lexicographic order on sequences of strings
RECURSIVE SeqSeqLt(_, _)
SeqSeqLt(a, b) == IF b = <<>> THEN FALSE ELSE IF a = <<>> THEN TRUE
                  ELSE IF Head(a) # Head(b) THEN SeqLt(Head(a), Head(b)) ELSE SeqSeqLt(Tail(a), Tail(b))
SampleLt(s, t) == SeqSeqLt(ValuesOf(s), ValuesOf(t))

NamesOf(reg)   == {c.name : c \in {x \in reg : x.samples # {}}}             \* only names that currently have a sample
Under(reg, n)  == {c \in reg : c.name = n}
SamplesOf(reg, n) == UNION {c.samples : c \in Under(reg, n)}
TypesOf(reg, n)   == {c.type : c \in {x \in Under(reg, n) : x.samples # {}}}
HelpsOf(reg, n)   == {c.help : c \in Under(reg, n)}

Prefixed(prefix, n) == IF prefix = <<>> THEN n ELSE prefix \o <<USC>> \o n

Family(reg, prefix, common, n) ==
  [name    |-> Prefixed(prefix, n),
   help    |-> CHOOSE h \in HelpsOf(reg, n) : TRUE,
   types   |-> TypesOf(reg, n),                      \* a singleton unless collectors of different kinds share the name (C14)
   samples |-> [i \in 1..Cardinality(SamplesOf(reg, n)) |->
                  LET s == SetToSortSeq(SamplesOf(reg, n), SampleLt)[i] IN
                  [labels |-> LabelSeq(s.labels), common |-> LabelSeq(common), v |-> s.v, type |-> s.type]]]

\* families in strictly increasing name order (ordered by the unprefixed name; the prefix is common to all)
Gather(reg, prefix, common) ==
  [i \in 1..Cardinality(NamesOf(reg)) |-> Family(reg, prefix, common, SetToSortSeq(NamesOf(reg), SeqLt)[i])]

(* ---- properties of the function itself (checked by TLC over the generated configurations) ---- *)
StrictlyIncreasing(g) == \A i \in 1..(Len(g) - 1) : SeqLt(g[i].name, g[i + 1].name)
\* every sample of every registered collector exactly once
Complete(reg, prefix, g) == \A c \in reg : \A s \in c.samples :
    Cardinality({<<i, j>> \in UNION {{<<i, j>> : j \in DOMAIN g[i].samples} : i \in DOMAIN g} :
                   g[i].name = Prefixed(prefix, c.name) /\ g[i].samples[j].labels = LabelSeq(s.labels) /\ g[i].samples[j].v = s.v}) = 1
\* C09: all names that reach a sample are valid and pairwise distinct
NamesValid(g) == \A i \in DOMAIN g : /\ ValidMetricName(g[i].name)
                                     /\ \A j \in DOMAIN g[i].samples :
                                          LET all == g[i].samples[j].labels \o g[i].samples[j].common IN
                                          /\ \A k \in DOMAIN all : ValidLabelName(all[k][1])
                                          /\ \A k, l \in DOMAIN all : k # l => all[k][1] # all[l][1]
=============================================================================
