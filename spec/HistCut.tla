---------------------------- MODULE HistCut ----------------------------
(* API-level oracle for C02 / C03.  Input: recorded histories of the real Histogram, one JSON
   object per line:  [bounds |-> <<..>>, calls |-> <<call>>, final |-> [collect, count, sum]]
   call = [t, i, k, inv, ret, res] + v (k = "obs") | vs (k = "flush").
   Observed values are distinct powers of two, so a snapshot's sum names its candidate set S.
   The oracle demands exactly what the properties state and nothing about how the code does it. *)
EXTENDS Integers, Sequences, FiniteSets, TLC, Json, IOUtils

Hists == ndJsonDeserialize(IOEnv.HISTS)

RECURSIVE SumSeq(_)
SumSeq(s) == IF s = <<>> THEN 0 ELSE Head(s) + SumSeq(Tail(s))
RECURSIVE SumOver(_, _)
SumOver(S, f) == IF S = {} THEN 0 ELSE LET x == CHOOSE x \in S : TRUE IN f[x] + SumOver(S \ {x}, f)

Vals(c)      == IF c.k = "obs" THEN <<c.v>> ELSE c.vs
Items(cs)    == {i \in DOMAIN cs : cs[i].k \in {"obs", "flush"}}
Collects(cs) == {i \in DOMAIN cs : cs[i].k = "collect"}
HasBit(s, v) == (s \div v) % 2 = 1
\* an item is in the snapshot when all its values are; "some but not all" breaks batch atomicity
AllIn(c, s)  == \A j \in DOMAIN Vals(c) : HasBit(s, Vals(c)[j])
SomeIn(c, s) == \E j \in DOMAIN Vals(c) : HasBit(s, Vals(c)[j])
Cut(cs, s)   == {i \in Items(cs) : Len(Vals(cs[i])) > 0 /\ AllIn(cs[i], s)}
ItemSum(cs)  == [i \in DOMAIN cs |-> IF i \in Items(cs) THEN SumSeq(Vals(cs[i])) ELSE 0]
ItemLen(cs)  == [i \in DOMAIN cs |-> IF i \in Items(cs) THEN Len(Vals(cs[i])) ELSE 0]
LeCount(cs, S, b) == LET f == [i \in DOMAIN cs |-> IF i \in Items(cs) THEN Cardinality({j \in DOMAIN Vals(cs[i]) : Vals(cs[i])[j] <= b}) ELSE 0]
                     IN SumOver(S, f)

\* the snapshot r describes exactly the set S = Cut(cs, r.sum)
Describes(cs, B, r) ==
  LET S == Cut(cs, r.sum) IN
  /\ r.sum >= 0
  /\ \A i \in Items(cs) : SomeIn(cs[i], r.sum) => AllIn(cs[i], r.sum)      \* batch: entirely or not at all
  /\ SumOver(S, ItemSum(cs)) = r.sum                                        \* no phantom amount
  /\ r.count = SumOver(S, ItemLen(cs))
  /\ Len(r.b) = Len(B)
  /\ \A j \in DOMAIN B : r.b[j] = LeCount(cs, S, B[j])

CollectOK(cs, B, c) ==
  LET r == cs[c].res  S == Cut(cs, r.sum) IN
  /\ Describes(cs, B, r)
  /\ \A i \in Items(cs) : (cs[i].ret < cs[c].inv /\ Len(Vals(cs[i])) > 0) => i \in S   \* completed before the collect started
  /\ \A i \in S : cs[i].inv < cs[c].ret                                               \* none started after it returned
  /\ \A i \in S : \A j \in Items(cs) :                                                \* per-thread prefix closed
        (cs[j].t = cs[i].t /\ cs[j].i < cs[i].i /\ Len(Vals(cs[j])) > 0) => j \in S

\* C03: snapshots taken one after another describe growing sets; the snapshot after all threads
\* finished describes exactly all observations and get_sample_count / get_sample_sum agree with it
Nested(cs) == \A c1, c2 \in Collects(cs) : cs[c1].ret < cs[c2].inv => Cut(cs, cs[c1].res.sum) \subseteq Cut(cs, cs[c2].res.sum)
FinalOK(cs, B, f) ==
  LET All == {i \in Items(cs) : Len(Vals(cs[i])) > 0} IN
  /\ Describes(cs, B, f.collect)
  /\ Cut(cs, f.collect.sum) = All
  /\ f.count = f.collect.count
  /\ f.sum = f.collect.sum

HistoryOK(h) ==
  /\ \A c \in Collects(h.calls) : CollectOK(h.calls, h.bounds, c)
  /\ Nested(h.calls)
  /\ FinalOK(h.calls, h.bounds, h.final)

VARIABLE k
Init == k = 1
Next == k <= Len(Hists) /\ k' = k + 1
Spec == Init /\ [][Next]_k
\* never false: every rejected history is printed, so one run reports all of them
AllCuts == k <= Len(Hists) => (HistoryOK(Hists[k]) \/ PrintT(<<"REJECTED", k>>))
=============================================================================
