---------------------------- MODULE Chars ----------------------------
(* Strings are sequences of ranks into one fixed table of characters, in ascending Unicode scalar order
   (= UTF-8 byte order, the order str::cmp uses), mirrored in /verif/checks/chars.py:
    1 \n   2 \r   3 space  4 "   5 #   6 $   7 ,   8 -   9 0   10 9   11 :   12 =   13 A   14 Z   15 \   16 _
    17 a   18 z   19 {   20 }   21 e-acute (U+E9)   22 y-diaeresis (U+FF, its scalar value equals the separator byte the library hashes with)
    23 arabic-indic digit three (U+663)   24 CJK ni (U+4F60)   25 grinning face (U+1F600) *)
EXTENDS Integers, Sequences, FiniteSets

NL == 1  CR == 2  SP == 3  DQ == 4  HASH == 5  DOLLAR == 6  COMMA == 7  MINUS == 8  D0 == 9  D9 == 10  COLON == 11  EQ == 12
UA == 13  UZ == 14  BSL == 15  USC == 16  LA == 17  LZ == 18  LBR == 19  RBR == 20  EACUTE == 21  YUML == 22  ARAB3 == 23  CJK == 24  EMOJI == 25
AllChars == 1..25

\* ranks >= 1000 denote "Unicode scalar value + 1000" for characters outside the table (used when strings
\* recorded from the implementation are brought back into the specification; their order is not meaningful)
IsAsciiLetter(c) == c \in {UA, UZ, LA, LZ} \/ c \in 1065..1090 \/ c \in 1097..1122
IsAsciiDigit(c)  == c \in {D0, D9} \/ c \in 1048..1057
\* what char::is_alphabetic / is_numeric would additionally accept
IsUnicodeLetter(c) == IsAsciiLetter(c) \/ c \in {EACUTE, CJK}
IsUnicodeDigit(c)  == IsAsciiDigit(c) \/ c = ARAB3
Utf8Len(c) == IF c <= 20 THEN 1 ELSE IF c \in {21, 22, 23} THEN 2 ELSE IF c = 24 THEN 3 ELSE 4

\* all strings over alphabet A of length <= n
StrUpTo(A, n) == UNION {[1..k -> A] : k \in 0..n}

\* lexicographic order on strings (= byte-wise order of the UTF-8 encodings)
RECURSIVE SeqLt(_, _)
SeqLt(a, b) == IF b = <<>> THEN FALSE
               ELSE IF a = <<>> THEN TRUE
               ELSE IF Head(a) # Head(b) THEN Head(a) < Head(b)
               ELSE SeqLt(Tail(a), Tail(b))
SeqLe(a, b) == a = b \/ SeqLt(a, b)

RECURSIVE Concat(_)
Concat(ss) == IF ss = <<>> THEN <<>> ELSE Head(ss) \o Concat(Tail(ss))
=============================================================================
