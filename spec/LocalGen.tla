---------------------------- MODULE LocalGen ----------------------------
(* C12 behaviour generator: all histories of length MaxLen over the operations of Local.tla (single metric with
   local handles, or vector with local vector handles), each event with the expected observable state after it.
   Drops / evictions of local COUNTER handles are generated only when nothing is pending (the property leaves the
   other case open; it is covered by trace validation, LocalTrace).  Amount of the i-th event is 2^(i-1).      *)
EXTENDS Local, Json
CONSTANTS MaxLen, Mode
VARIABLE hist
Amt == 2 ^ Len(hist)
Obs == [shared |-> shared',
        locs |-> [h \in Handles |-> IF loc'[h].st = "alive" THEN loc'[h].pend ELSE [n |-> -1, s |-> -1]],
        coll |-> [k \in Keys |-> IF vmap'[k] # 0 THEN cval'[vmap'[k]] ELSE [n |-> -1, s |-> -1]]]
Ev(op, h, g, k, res) == [op |-> op, h |-> h, g |-> g, k |-> k, v |-> Amt, res |-> res, obs |-> Obs]
Specified(p) == Kind = "hist" \/ p = Z
HInit == Init /\ hist = <<>>
SingleNext ==
  \/ \E h \in Handles :
       \/ LNew(h)   /\ hist' = Append(hist, Ev("lnew", h, "-", "-", "Ok"))
       \/ LInc(h, Amt)   /\ hist' = Append(hist, Ev("linc", h, "-", "-", "Ok"))
       \/ LFlush(h)      /\ hist' = Append(hist, Ev("lflush", h, "-", "-", "Ok"))
       \/ LReset(h)      /\ hist' = Append(hist, Ev("lreset", h, "-", "-", "Ok"))
       \/ \E g \in Handles : LClone(h, g) /\ hist' = Append(hist, Ev("lclone", h, g, "-", "Ok"))
       \/ \E g \in Handles : Specified(loc[g].pend) /\ LCloneFrom(h, g, Kind = "hist") /\ hist' = Append(hist, Ev("lclonefrom", h, g, "-", "Ok"))
       \/ Specified(loc[h].pend) /\ LDrop(h, Kind = "hist") /\ hist' = Append(hist, Ev("ldrop", h, "-", "-", "Ok"))
       \* the same drop, performed by the stack unwinding of a panic that the process survives
       \/ Kind = "hist" /\ LDrop(h, TRUE) /\ hist' = Append(hist, Ev("ldrop_unwinding", h, "-", "-", "Ok"))
  \/ Direct(Amt) /\ hist' = Append(hist, Ev("direct", "-", "-", "-", "Ok"))
VecNext ==
  \/ \E h \in VHandles :
       \/ \E k \in Keys : LVInc(h, k, Amt) /\ hist' = Append(hist, Ev("lvinc", h, "-", k, "Ok"))
       \/ LVFlush(h) /\ hist' = Append(hist, Ev("lvflush", h, "-", "-", "Ok"))
       \/ \E k \in Keys : Specified(vloc[h].cache[k].pend) /\ LVRemove(h, k, Kind = "hist")
                          /\ hist' = Append(hist, Ev("lvremove", h, "-", k, IF RemoveOk(k) THEN "Ok" ELSE "Err"))
       \/ \E g \in VHandles : LVClone(h, g) /\ hist' = Append(hist, Ev("lvclone", h, g, "-", "Ok"))
       \/ (\A k \in Keys : Specified(vloc[h].cache[k].pend)) /\ LVDrop(h, Kind = "hist") /\ hist' = Append(hist, Ev("lvdrop", h, "-", "-", "Ok"))
       \/ Kind = "hist" /\ LVDrop(h, TRUE) /\ hist' = Append(hist, Ev("lvdrop_unwinding", h, "-", "-", "Ok"))
  \/ \E k \in Keys : DirectV(k, Amt) /\ hist' = Append(hist, Ev("directv", "-", "-", k, "Ok"))
  \/ \E k \in Keys : DirectRemove(k) /\ hist' = Append(hist, Ev("directremove", "-", "-", k, IF RemoveOk(k) THEN "Ok" ELSE "Err"))
HNext == Len(hist) < MaxLen /\ (IF Mode = "single" THEN SingleNext ELSE VecNext)
HSpec == HInit /\ [][HNext]_<<vars, hist>>
Emit == Len(hist) = MaxLen => PrintT(<<"REPLAY", ToJson(hist)>>)
\* a second flush adds nothing (action form)
SecondFlushIsNoop == [][\A h \in Handles : (Len(hist) > 0 /\ hist[Len(hist)].op = "lflush" /\ hist[Len(hist)].h = h /\ LFlush(h)) => shared' = shared]_<<vars, hist>>
=============================================================================
