"""C03 — histograms conserve observations across any sequence of collects and flushes."""
from histcheck import *
LEVEL = "model_checking"

Q = {"threads": ["o1", "f1", "c1"], "bounds": [2, 5],
     "scripts": {"o1": [{"k": "obs", "v": 1}],
                 "f1": [{"k": "flush", "vs": [2, 8]}, {"k": "flush", "vs": []}, {"k": "flush", "vs": [4]}],
                 "c1": [{"k": "collect"}, {"k": "collect"}, {"k": "collect"}, {"k": "sum"}, {"k": "count"}]}}
R = {"threads": ["o1", "f1", "c1", "c2"], "bounds": [2, 5],
     "scripts": {"o1": [{"k": "obs", "v": 1}, {"k": "obs", "v": 16}],
                 "f1": [{"k": "flush", "vs": [2, 8]}, {"k": "flush", "vs": [4]}],
                 "c1": [{"k": "collect"}, {"k": "collect"}, {"k": "count"}],
                 "c2": [{"k": "collect"}, {"k": "sum"}]}}
T = {"threads": ["o1", "f1", "c1", "c2", "c3"], "bounds": [2, 5], "budget": 8000,
     "scripts": {"o1": [{"k": "obs", "v": 1}, {"k": "obs", "v": 16}],
                 "f1": [{"k": "flush", "vs": [2, 8]}, {"k": "flush", "vs": [4, 32]}],
                 "c1": [{"k": "collect"}, {"k": "collect"}], "c2": [{"k": "collect"}, {"k": "sum"}], "c3": [{"k": "collect"}, {"k": "count"}]}}


# the same histories with every value and bound shifted down by 1000: all stored sums are negative
Rneg = dict(R, shift=1000)
Qneg = dict(Q, shift=1000)


# the same scripts on a histogram with 40 buckets (bucket lookup, snapshot assembly and flush loops over a long list)
Qwide = dict(Q, bounds=list(range(1, 41)))


def run(ctx):
    exe = build_harness()
    stats, samples = new_stats(), []
    if ctx.quick:
        run_scenario(ctx, "C03", exe, Qwide, "Qwide", stats, samples, model=False, nrandom=60, vias=("direct",), liveness=False, check=False)
        run_scenario(ctx, "C03", exe, Q, "Q", stats, samples, model=True, nrandom=200, vias=("direct",), liveness=True)
        run_scenario(ctx, "C03", exe, R, "R", stats, samples, model=False, nrandom=300, vias=("direct", "vec"), liveness=False)
        run_scenario(ctx, "C03", exe, Qneg, "Qneg", stats, samples, model=False, nrandom=200, vias=("direct",), liveness=False, check=False)
    else:
        run_scenario(ctx, "C03", exe, Qwide, "Qwide", stats, samples, model=False, nrandom=2000, vias=("direct", "vec"), liveness=False, check=False)
        run_scenario(ctx, "C03", exe, Qneg, "Qneg", stats, samples, model=False, nrandom=3000, vias=("direct", "vec"), liveness=False, check=False)
        run_scenario(ctx, "C03", exe, Rneg, "Rneg", stats, samples, model=False, nrandom=5000, vias=("direct",), liveness=False, check=False)
        run_scenario(ctx, "C03", exe, Q, "Q", stats, samples, model=True, nrandom=3000, vias=("direct", "vec", "registry"), liveness=True)
        run_scenario(ctx, "C03", exe, R, "R", stats, samples, model=False, nrandom=10000, vias=("direct", "vec", "registry"), liveness=True)
        run_scenario(ctx, "C03", exe, T, "T", stats, samples, model=False, nrandom=10000, vias=("direct",), liveness=False, check=False)
    finish_cov(ctx, stats, samples,
               "HistImpl with >=3 collections, batch flushes, get_sample_sum/count: invariants Quiescent, SnapshotIsCut, SpinOnlyWaitsForInflight and "
               "liveness Termination (WF) by TLC; edge-cover replay; HistCut judges nesting, batch atomicity and the quiescent snapshot; "
               "a call that does not return within the step budget under a fair schedule is a violation")
    ctx.assumptions += ["SC executions; <=5 threads; termination on the real code is judged under round-robin completion with a step budget"]


def replay(path):
    from replay_a import replay_hist
    return replay_hist("C03", path)
