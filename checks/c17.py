"""C17 — fallible APIs report bad input as Err and do not panic."""
import random, itertools
from grpb import *
from grpa import mc_module
from chars import *
import c09, c08
LEVEL = "model_checking"


def conc(v):
    return c08.conc(v, 1.0)


def run(ctx):
    exe = build_harness()
    quick = ctx.quick
    jobs = []      # (calls, expected in {"Ok","Err","Any"} for the LAST call, key, description)

    def add(calls, expected, key, what):
        jobs.append({"id": len(jobs), "calls": calls, "expected": expected, "key": key, "what": what})
    # ---- (a) names and label combinations in every constructor (verdicts from Desc.tla via NameGen)
    d = {"MCAlpha": "{UA, LZ, D0, USC, MINUS, EACUTE, ARAB3}", "MCPool": "{<<LA>>, <<LZ>>, LeName}"}
    cfg = "CONSTANTS\n  Alpha <- MCAlpha\n  MaxLen = %d\n  LabelPool <- MCPool\nSPECIFICATION Spec\nINVARIANTS Emit Total\nCHECK_DEADLOCK FALSE\n" % (2 if quick else 3)
    r = tlc(ctx, "NameGen", cfg, mc_text=mc_module("MCNameGen", "NameGen", d), mc_name="MCNameGen", workers=8, label="names", timeout=3000)
    for c in printed_values(r["output"], "CASE"):
        for lab, call, hist in (c09.pos_calls(c) if c["mode"] == "pos" else c09.clash_calls(c)):
            add([call], "Ok" if (c["okhist"] if hist else c["ok"]) else "Err", "constructor", "%s %s" % (lab, json.dumps(call)[:160]))
    # ---- (b) label requests of every cardinality / name set against vectors of 0..3 labels (verdicts: Vec.WellFormed / MapWellFormed)
    names_pool = ["a", "b", "c"]
    for kind in ("counter_vec", "gauge_vec", "histogram_vec", "int_gauge_vec"):
        for arity in range(0, 4):
            names = names_pool[:arity]
            base = [{"op": kind, "as": "v", "opts": {"name": "m", "help": "h"}, "labels": names}]
            for nv in range(0, 5):
                vals = ["x"] * nv
                for op in ("with", "remove"):
                    exp = ("Ok" if op == "with" else "Err") if nv == arity else "Err"       # removing a child that does not exist is an error
                    add(base + [{"op": op, "vec": "v", "vals": vals}], exp, "label-request", "%s(%d labels).%s(%d values)" % (kind, arity, op, nv))
            for keys in itertools.chain.from_iterable(itertools.combinations(names_pool + ["zz"], k) for k in range(0, 5)):
                wf = set(keys) == set(names)
                for op in ("with_map", "remove_map"):
                    exp = ("Ok" if op == "with_map" else "Err") if wf else "Err"
                    add(base + [{"op": op, "vec": "v", "pairs": [[k, "x"] for k in keys]}], exp, "label-request", "%s(%s).%s(keys %s)" % (kind, names, op, list(keys)))
                    # the same request when the child those values denote already exists
                    add(base + [{"op": "with", "vec": "v", "vals": ["x"] * arity}, {"op": op, "vec": "v", "pairs": [[k, "x"] for k in keys]}], "Ok" if wf else "Err", "label-request",
                        "%s(%s): child exists, then %s(keys %s)" % (kind, names, op, list(keys)))
    # ---- (c) bucket lists (verdicts: Histogram.Accepted via HistGen, acceptance mode only)
    dd = {"MCB": "{NegInf, Fin(-1), NegZero, Fin(0), Fin(1), PosInf, NaN}", "MCO": "{Fin(0)}"}
    cfgh = "CONSTANTS\n  BVals <- MCB\n  OVals <- MCO\n  MaxB = 3\n  MaxO = 0\nSPECIFICATION Spec\nINVARIANTS Emit\nCHECK_DEADLOCK FALSE\n"
    rh = tlc(ctx, "HistGen", cfgh, mc_text=mc_module("MCHistGenT", "HistGen", dd), mc_name="MCHistGenT", workers=8, label="buckets", timeout=3000)
    for c in printed_values(rh["output"], "CASE"):
        if c["mode"] != "accept":
            continue
        bs = [F(conc(x)) for x in c["bs"]]
        o = {"name": "h", "help": "h", "buckets": bs}
        add([{"op": "histogram", "as": "h", "opts": o}], "Ok" if c["accept"] else "Err", "buckets", "Histogram::with_opts buckets %s" % [c08.show(x) for x in c["bs"]])
        add([{"op": "histogram_vec", "as": "v", "opts": o, "labels": ["l"]}, {"op": "with", "vec": "v", "vals": ["x"]}], "Ok" if c["accept"] else "Any", "buckets", "HistogramVec child, buckets %s" % [c08.show(x) for x in c["bs"]])
    # ---- (d) bucket helper functions and (f) encoders (verdicts: Totality.tla)
    dt = {"MCF": "{NegInf, Fin(-1), NegZero, Fin(0), Fin(1), Fin(2), PosInf, NaN}"}
    cfgt = "CONSTANTS\n  FVals <- MCF\n  Counts = {0, 1, 3}\nSPECIFICATION Spec\nINVARIANTS Emit Total\nCHECK_DEADLOCK FALSE\n"
    rt = tlc(ctx, "Totality", cfgt, mc_text=mc_module("MCTotality", "Totality", dt), mc_name="MCTotality", workers=8, label="total", timeout=3000)
    tcases = printed_values(rt["output"], "CASE")
    for c in tcases:
        if c["mode"] == "linear":
            add([{"op": "linear_buckets", "start": F(conc(c["a"])), "width": F(conc(c["b"])), "count": c["n"]}], c["expected"], "bucket-helper", "linear_buckets(%s, %s, %d)" % (c08.show(c["a"]), c08.show(c["b"]), c["n"]))
        elif c["mode"] == "exponential":
            add([{"op": "exponential_buckets", "start": F(conc(c["a"])), "factor": F(conc(c["b"])), "count": c["n"]}], c["expected"], "bucket-helper", "exponential_buckets(%s, %s, %d)" % (c08.show(c["a"]), c08.show(c["b"]), c["n"]))
        else:
            # values from every magnitude class (the longest decimal renderings included)
            xs = [1.0, 1.7976931348623157e308, 5e-324, 1e40, -1e-40, float("nan"), float("-inf"), -0.0]
            x = xs[len(jobs) % len(xs)]
            y = xs[(len(jobs) // 3) % len(xs)]
            m = {"labels": [["l", "v\n\"\\é"]], "ts": [0, -(2 ** 63), 2 ** 63 - 1][len(jobs) % 3]}
            if c["ty"] == "HISTOGRAM":
                m["hist"] = {"count": 2 ** 64 - 1 if len(jobs) % 5 == 0 else 1, "sum": F(x), "b": [[F(y), 1]]}
            elif c["ty"] == "SUMMARY":
                m["summary"] = {"count": 1, "sum": F(x), "q": [[F(y), F(x)]]}
            elif c["ty"] == "GAUGE":
                m["gauge"] = F(x)
            elif c["ty"] == "COUNTER":
                m["counter"] = F(x)
            elif c["ty"] == "UNTYPED":
                m["untyped"] = F(x)
            fam = {"help": "h", "type": c["ty"], "metrics": [m] * c["nmetrics"]}
            if c["named"]:
                fam["name"] = "a"
            call = {"op": "text_encode" if c["enc"] == "text" else "pb_encode", "lit": [fam]}
            if c["failAfter"] >= 0:
                call["mode"] = "failing_writer"
                call["after"] = c["failAfter"]
            add([call], c["expected"], "encoder:%s:%s" % (c["enc"], c["ty"].lower()), "%s encoder, %s family, named=%s, %d metrics, writer fails after %d bytes" % (c["enc"], c["ty"], c["named"], c["nmetrics"], c["failAfter"]))
    # single metrics built from options that DECLARE variable labels: there are no values for them, so the constructor refuses
    # (Vec.tla's cardinality rule at its smallest instance: 0 values for n >= 1 declared labels)
    for k in ("counter", "int_counter", "gauge", "int_gauge", "histogram"):
        for var in (["a"], ["a", "b"], ["le_"], ["a", "b", "c"]):
            for const in ([], [["c", "v"]]):
                add([{"op": k, "as": "x", "opts": {"name": "m", "help": "h", "var": var, "const": const}}], "Err", "scalar-with-variable-labels", "%s built from options declaring variable labels %s" % (k, var))
        add([{"op": k, "as": "x", "opts": {"name": "m", "help": "h", "var": []}}], "Ok", "scalar-with-variable-labels", "%s built from options declaring no variable labels" % k)
    # hand-built histogram and summary families with NaN / infinite / unordered / repeated bounds and quantiles in every position:
    # unusual, not refused by anything the property names — Ok or Err, never a panic
    nanv = [float("nan"), 1.0, float("inf"), float("-inf"), 0.0, -0.0]
    for a in nanv:
        for b in nanv:
            for c3 in (None, float("nan"), 2.0):
                bs = [[F(a), 1], [F(b), 2]] + ([[F(c3), 3]] if c3 is not None else [])
                famh = {"name": "hb", "help": "h", "type": "HISTOGRAM", "metrics": [{"labels": [["l", "v"]], "hist": {"count": 3, "sum": F(1.0), "b": bs}}]}
                fams = {"name": "sq", "help": "h", "type": "SUMMARY", "metrics": [{"labels": [], "summary": {"count": 3, "sum": F(a), "q": [[F(a), F(b)], [F(b), F(a)]]}}]}
                for enc in ("text_encode", "pb_encode"):
                    add([{"op": enc, "lit": [famh]}], "Any", "encoder:odd-bounds", "%s of a histogram with bucket bounds %s" % (enc, [a, b] + ([c3] if c3 is not None else [])))
                    if c3 is None:
                        add([{"op": enc, "lit": [fams]}], "Any", "encoder:odd-bounds", "%s of a summary with quantiles %s" % (enc, [a, b]))
    # families whose type number lies outside the enum (decoded from a newer producer's bytes; protobuf-backed model): unsupported
    # input — either encoder may refuse it, neither may panic
    for n in (5, 6, 127, -1, 2 ** 31 - 1):
        for enc in ("text_encode", "pb_encode"):
            for payload in ({"gauge": F(1.0)}, {"hist": {"count": 1, "sum": F(1.0), "b": [[F(1.0), 1]]}}, {}):
                fam = {"name": "a", "help": "h", "type": "GAUGE", "type_number": n, "metrics": [dict({"labels": [["l", "v"]]}, **payload)]}
                add([{"op": enc, "lit": [fam, {"name": "b", "help": "h", "type": "COUNTER", "metrics": [{"labels": [], "counter": F(1.0)}]}]}], "Any", "encoder:unknown-type-number", "%s of a family whose type number is %d" % (enc, n))
    # ---- (e) registry: new_custom arguments, register / unregister of odd collectors
    pool = ["", "a", "9", "a b", "é", "_", "a:b"]
    for p in pool + [None]:
        for ln in pool:
            call = {"op": "registry", "as": "r", "custom": True, "labels": [[ln, "v"]]}
            if p is not None:
                call["prefix"] = p
            add([call], "Any", "registry", "Registry::new_custom(%r, {%r: v})" % (p, ln))
    odd = [{"op": "custom", "as": "z", "descs": [], "families": []},
           {"op": "custom", "as": "z", "descs": [{"fq_name": "n", "help": "h", "const": [], "var": []}] * 2, "families": []},
           {"op": "custom", "as": "z", "descs": [{"fq_name": "n", "help": "h", "const": [], "var": []}, {"fq_name": "n", "help": "other", "const": [], "var": []}], "families": []}]
    for o in odd:
        add([{"op": "registry", "as": "r"}, o, {"op": "register", "reg": "r", "obj": "z"}], "Any", "registry", "register(%s)" % json.dumps(o)[:120])
        add([{"op": "registry", "as": "r"}, o, {"op": "unregister", "reg": "r", "obj": "z"}], "Any", "registry", "unregister(%s) on an empty registry" % json.dumps(o)[:120])
        add([{"op": "registry", "as": "r"}, o, {"op": "register", "reg": "r", "obj": "z"}, {"op": "register", "reg": "r", "obj": "z"}, {"op": "unregister", "reg": "r", "obj": "z"}, {"op": "unregister", "reg": "r", "obj": "z"}, {"op": "gather", "reg": "r"}], "Any", "registry", "register twice / unregister twice %s" % json.dumps(o)[:100])
    res = run_api(ctx, exe, [{"id": j["id"], "calls": j["calls"]} for j in jobs], "total", nproc=12)
    nok = 0
    by_key = {}
    for j in jobs:
        rs = res[j["id"]]
        by_key[j["key"]] = by_key.get(j["key"], 0) + 1
        pan = [(c, x) for c, x in zip(j["calls"], rs) if "panic" in x]
        rp = {"calls": j["calls"], "expected": j["expected"]}
        if pan:
            ctx.violation("panic:" + j["key"], "%s panicked: %s" % (j["what"], pan[0][1]["panic"][:200]), rp)
            continue
        last = rs[-1]
        got = "Ok" if "ok" in last else "Err" if "err" in last else "Skip"
        if j["expected"] in ("Ok", "Err") and got != j["expected"] and got != "Skip":
            ctx.violation(("accepted-invalid:" if got == "Ok" else "rejected-valid:") + j["key"], "%s returned %s; the specification says %s" % (j["what"], got, j["expected"]), rp)
            continue
        nok += 1
    ctx.cov.update({"traces_validated_against_impl": nok, "calls_by_area": by_key, "calls": len(jobs),
                    "samples": [{"what": jobs[i]["what"], "expected": jobs[i]["expected"]} for i in (0, len(jobs) // 2, len(jobs) - 1)], "exhaustive": True,
                    "rule": "every enumerated argument of every listed fallible function is executed under catch_unwind: outcome must never be a panic and must be Err wherever the specifications "
                            "(Desc, Vec, Histogram, Totality) say the input is invalid; where neither documentation nor property decide, Ok and Err are both accepted"})
    ctx.assumptions += ["argument spaces are bounded pools (strings <=2-3 over 7 characters, bucket lists <=3 over 7 float classes, 0-3 label names, 5 metric types)"]


def replay(path):
    d = json.load(open(path))
    rp = d["replay"]
    ctx = Ctx("C17_replay", "quick", 0, LEVEL)
    exe = build_harness()
    rs = run_api(ctx, exe, [{"id": 0, "calls": rp["calls"]}], "replay")[0]
    for c, r in zip(rp["calls"], rs):
        print("  ", json.dumps(c)[:300], "->", json.dumps(r)[:300])
    got = "Ok" if "ok" in rs[-1] else "Err" if "err" in rs[-1] else "Other"
    bad = any("panic" in x for x in rs) or (rp["expected"] in ("Ok", "Err") and got != rp["expected"])
    print("verdict:", "violates (expected %s)" % rp["expected"] if bad else "conforms")
    shutil.rmtree(ctx.work, ignore_errors=True)
    return 1 if bad else 0
