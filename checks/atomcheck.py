"""C01 / C11: one shared metric value.  AtomImpl (step level) checked by TLC, replayed edge by edge into the real
Counter / IntCounter / Gauge / IntGauge, every recorded history judged by CounterReads / LinGauge."""
from grpa import *


def op_tla(o):
    if "vs" in o:
        return '[k |-> "%s", vs |-> %s]' % (o["k"], to_tla(o["vs"]))
    if "v" in o:
        return '[k |-> "%s", v |-> %d]' % (o["k"], o["v"])
    return '[k |-> "%s"]' % o["k"]


def script_tla(scripts):
    return " @@ ".join("(%s :> <<%s>>)" % (tla_str(t), ", ".join(op_tla(o) for o in ops)) for t, ops in scripts.items())


def consts(sc, spurious=False):
    return "  Threads = {%s}\n  Script <- MCScript\n  Flavor = %s\n  Spurious = %s\n  CounterConfig = %s\n" % (
        ", ".join(tla_str(t) for t in sc["threads"]), tla_str(sc["flavor"]), "TRUE" if spurious else "FALSE", "TRUE" if sc.get("counter") else "FALSE")


def pc_op(sc):
    def f(pc, node, t):
        if pc == "idle":
            return "CallStart"
        if pc == "rmw":
            o = sc["scripts"][t][node["ip"][t] - 1]
            return "FetchSub:x" if o["k"] in ("dec", "sub") else "FetchAdd:x"
        return {"load": "Load:x", "cas": "CasWeak:x", "store": "Store:x", "get": "Load:x"}[pc]
    return f


def harness_scen(sc, kind=None, share=None):
    obj = {"kind": kind or sc["kind"]}
    if share:
        obj["share"] = share             # "ref": the threads share ONE handle by reference instead of owning clones of it
        obj["creator"] = sc["threads"][0]   # ... and the first scripted thread is the thread that created the metric
    if "scale" in sc:
        obj["scale"] = sc["scale"]       # float metrics: amounts x scale (a power of two), observed values / scale
    if "base" in sc:
        obj["base"] = sc["base"]         # integer gauge: offset (wrapping) so that the scenario sits next to the i64 boundaries
    h = {"obj": obj, "threads": sc["threads"], "scripts": sc["scripts"], "budget": sc.get("budget", 3000)}
    if "pre" in sc:
        h["pre"] = sc["pre"]
    return h


def ring_image(h, m):
    """image of an integer-gauge history under x -> x mod m (amounts "MIN" / "MAX" / "-MAX" are the ends of the i64 range)"""
    names = {"MIN": -2 ** 63, "MAX": 2 ** 63 - 1, "-MAX": -(2 ** 63 - 1)}

    def f(x):
        x = names.get(x, x) if isinstance(x, str) else x
        return x % m if isinstance(x, int) and not isinstance(x, bool) else x
    calls = []
    for c in h["calls"]:
        c = dict(c)
        if "v" in c:
            c["v"] = f(c["v"])
        if c.get("k") == "get":
            c["res"] = f(c["res"])
        calls.append(c)
    fin = {k: f(v) for k, v in h.get("final", {}).items()}
    return {"calls": calls, "final": fin, "mod": m}


def check_model(ctx, sc, label, workers=4):
    d = {"MCScript": script_tla(sc["scripts"])}
    invs = "Atomicity NoLostIncrement ReadsExplained"
    r1 = tlc(ctx, "AtomImpl", "CONSTANTS\n%s\nSPECIFICATION Spec\nINVARIANTS %s\nPROPERTIES Termination Monotone RefinesCore\nCHECK_DEADLOCK FALSE\n" % (consts(sc), invs),
             mc_text=mc_module("MC" + label, "AtomImpl", d), mc_name="MC" + label, workers=workers, label="inv" + label)
    if not r1["ok"]:
        raise ToolError("AtomImpl %s violates %s (specification error)\n%s" % (label, r1["violated"], r1["output"][-2500:]))
    if sc["flavor"] == "f64":
        # safety also holds when compare_exchange_weak fails spuriously (not executable on the shimmed code, model only)
        r2 = tlc(ctx, "AtomImpl", "CONSTANTS\n%s\nSPECIFICATION Spec\nINVARIANTS %s\nPROPERTIES Monotone RefinesCore\nCHECK_DEADLOCK FALSE\n" % (consts(sc, True), invs),
                 mc_text=mc_module("MCS" + label, "AtomImpl", d), mc_name="MCS" + label, workers=workers, label="spur" + label)
        if not r2["ok"]:
            raise ToolError("AtomImpl %s (spurious CAS failure) violates %s\n%s" % (label, r2["violated"], r2["output"][-2500:]))
    return r1


def run_scenario(ctx, pid, exe, sc, label, stats, samples, oracle_mod, oracle_inv, model=True, nrandom=0, kinds=None, nproc=8, check=True, pb=None):
    if os.environ.get("VERIF_ONLY_PB"):      # self-test aid: judge the systematic search alone
        model, nrandom, sc = False, 0, {k: v for k, v in sc.items() if k != "starve"}
    r = check_model(ctx, sc, label) if check else {"actions_never": []}
    stats["never"][label] = r["actions_never"]
    results = []
    kinds = kinds or [sc["kind"]]
    if model:
        jobs, g = model_jobs(ctx, "AtomProj", {"MCScript": script_tla(sc["scripts"])}, consts(sc), pc_op(sc), sc["threads"], label)
        for kind in kinds:
            res = run_jobs(ctx, exe, harness_scen(sc, kind), jobs, "m" + label + kind, nproc=nproc)
            for x in res:
                x["kind"] = kind
            nd = sum(1 for x in res if x.get("drift"))
            stats["edges_total"] += g["edges"]
            stats["edges_matched"] += g["edges"] if nd == 0 else 0
            stats["paths"] += g["paths"]; stats["steps"] += g["steps"]; stats["conforming"] += len(res) - nd
            if nd:
                log("MODEL-DRIFT property=%s scenario=%s/%s: %d of %d replayed paths left the model (first: %s)" % (pid, label, kind, nd, len(res), json.dumps(next(x["drift"] for x in res if x.get("drift")))[:500]))
            results += res
            if res and len(samples) < 4:
                samples.append({"scenario": label, "object": kind, "job": res[0]["id"], "schedule": res[0]["choices"][:40], "calls": res[0]["calls"], "final": res[0].get("fin")})
    if sc.get("starve"):
        # lock-freedom stress schedules: the victim's compare-exchange fails many times in a row (see harness mode "starve")
        for kind in kinds:
            jobs = [{"id": "%s-s%d" % (label, i), "mode": "starve", "victim": v, "rounds": r} for i, (v, r) in enumerate(sc["starve"])]
            res = run_jobs(ctx, exe, harness_scen(sc, kind), jobs, "s" + label + kind, nproc=1)
            for x in res:
                x["kind"] = kind
            results += res
            stats["random"] += len(res)
    if nrandom:
        for kind in kinds:
            jobs = random_jobs(label + kind, nrandom, ctx.seed * 104729 + len(label + kind))
            res = run_jobs(ctx, exe, harness_scen(sc, kind), jobs, "r" + label + kind, nproc=nproc)
            for x in res:
                x["kind"] = kind
            results += res
            stats["random"] += len(res)
    # preemption-bounded systematic search on the real code (independent of the step-level model)
    pb = pb if pb is not None else ((3, 400) if ctx.quick else (4, 20000))
    if pb and pb[1]:
        for kind in kinds:
            # the systematic search shares one handle by reference between the threads (the other schedules use clones)
            share = "ref" if kind in ("counter", "intcounter", "gauge", "intgauge") else "clone"      # vector children: clones, created on the first thread
            res, info = pb_explore(ctx, exe, harness_scen(sc, kind, share), label + kind, pb[0], pb[1], nproc=nproc)
            for x in res:
                x["kind"] = kind
                x["share"] = share
            results += res
            stats["pb_executions"] = stats.get("pb_executions", 0) + info["executions"]
            stats["pb_complete"] = stats.get("pb_complete", 0) + (1 if info["complete"] else 0)
            stats["pb_searches"] = stats.get("pb_searches", 0) + 1
    by_id = {}
    for x in results:
        by_id[(x["id"], x["kind"])] = x
        rp = {"scenario": harness_scen(sc, x["kind"], x.get("share")), "job": {"id": x["id"], "mode": "choices", "choices": x["choices"]}, "oracle": [oracle_mod, oracle_inv]}
        if x.get("nonterm"):
            stats["nonterm"] += 1
            ctx.violation("nonterminating", "a call did not return within the step budget under schedule %s" % x["id"], rp)
        if x.get("panics"):
            ctx.violation("panic", "library code panicked: %s" % x["panics"], rp)
        if x.get("drift"):
            stats["drift"] += 1
            if len(ctx.drift) < 5:
                ctx.drift.append({"scenario": label, "job": x["id"], "drift": x["drift"]})
    seen = {}
    for x in results:
        if x.get("nonterm"):
            continue
        h = intify({"calls": x["calls"], "final": x.get("fin", {})})
        if sc.get("ring"):
            h = ring_image(h, sc["ring"])
        key = json.dumps(h, sort_keys=True)
        if key not in seen:
            seen[key] = (h, x)
    hs = list(seen.values())
    good = []
    for h, x in hs:
        if not ints_only(h):
            ctx.violation("value-not-integral", "a read returned a value no combination of the (integer) updates explains: job %s" % x["id"],
                          {"scenario": harness_scen(sc, x["kind"], x.get("share")), "job": {"id": x["id"], "mode": "choices", "choices": x["choices"]}, "history": h, "oracle": [oracle_mod, oracle_inv]})
        else:
            good.append((h, x))
    rej = oracle(ctx, oracle_mod, oracle_inv, [h for h, _ in good], label)
    for i in sorted(rej):
        h, x = good[i]
        ctx.violation("history-rejected", "%s rejects the recorded history of job %s on a %s (scenario %s)" % (oracle_mod, x["id"], x["kind"], label),
                      {"scenario": harness_scen(sc, x["kind"], x.get("share")), "job": {"id": x["id"], "mode": "choices", "choices": x["choices"]}, "history": h, "oracle": [oracle_mod, oracle_inv]})
    stats["histories"] += len(good)
    stats["rejected"] += len(rej)


def prove_core(ctx):
    """TLAPS: Atomicity and at-most-once application proved on the kernel AtomCore for ANY number of threads / scripts.
    (AtomImpl refines AtomCore: property RefinesCore, checked by TLC in every configuration above.)"""
    wd = ctx.path("tlaps")
    os.makedirs(wd, exist_ok=True)
    shutil.copy(os.path.join(SPEC, "AtomCore.tla"), wd)
    t0 = time.time()
    p = sh(["tlapm", "--threads", "8", "AtomCore.tla"], cwd=wd, check=False, timeout=1800)
    m = re.search(r"All (\d+) obligations? proved", p.stdout)
    if not m:
        raise ToolError("TLAPS did not prove AtomCore:\n" + "\n".join(l for l in p.stdout.splitlines() if not l.startswith(("Called from", "Raised")))[-3000:])
    n = int(m.group(1))
    ctx.cov["tlaps"] = {"module": "AtomCore", "theorems": ["AtomicityForAnyThreads", "AtMostOnceForAnyThreads"], "obligations": n, "discharged": n, "wall_s": round(time.time() - t0, 1),
                        "binding": "AtomImpl => AtomCore checked by TLC (PROPERTY RefinesCore) in every model configuration of this run"}
    log("[tlaps] AtomCore: all %d obligations proved (%.1fs)" % (n, time.time() - t0))


def new_stats():
    return {"edges_total": 0, "edges_matched": 0, "paths": 0, "steps": 0, "conforming": 0, "random": 0, "histories": 0, "rejected": 0,
            "drift": 0, "nonterm": 0, "never": {}}


def finish_cov(ctx, stats, samples, rule):
    ctx.cov.update({
        "traces_validated_against_impl": stats["conforming"] + stats["histories"],
        "samples": samples or [{"note": "no sample"}],
        "conformance": {"edges_total": stats["edges_total"], "edges_matched": stats["edges_matched"], "paths_replayed": stats["paths"],
                        "steps_replayed": stats["steps"], "paths_conforming": stats["conforming"], "drift_paths": stats["drift"]},
        "preemption_bounded_search": {"searches": stats.get("pb_searches", 0), "executions": stats.get("pb_executions", 0), "searches_complete_within_bound": stats.get("pb_complete", 0),
                                      "bound": 3 if ctx.quick else 4, "what": "stateless search over the real code's schedules (scheduler choices at every shim operation), all schedules with at most `bound` preemptions up to a cap; histories judged by the oracle specification"},
        "random_schedules": stats["random"], "distinct_histories_judged": stats["histories"], "histories_rejected": stats["rejected"],
        "actions_never_fired": stats["never"], "rule": rule,
    })


def replay(pid, path):
    d = json.load(open(path))
    rp = d["replay"]
    ctx = Ctx(pid + "_replay", "quick", 0, "model_checking")
    exe = build_harness()
    res = run_jobs(ctx, exe, rp["scenario"], [rp["job"]], "replay", nproc=1, want_ops=True)
    r = res[0]
    for o in r.get("ops", []):
        print("  step", json.dumps(o))
    for c in r["calls"]:
        print("  call", json.dumps(c))
    print("  final", json.dumps(r.get("fin")))
    rc = 0
    if r.get("nonterm"):
        print("verdict: non-terminating"); rc = 1
    elif r.get("panics"):
        print("verdict: panic", r["panics"]); rc = 1
    else:
        h = intify({"calls": r["calls"], "final": r.get("fin", {})})
        if not ints_only(h):
            print("verdict: rejected (non-integral value)"); rc = 1
        else:
            om, oi = rp.get("oracle", ["CounterReads", "AllReads"])
            rej = oracle(ctx, om, oi, [h], "replay")
            print("verdict:", ("rejected by " + om) if rej else ("accepted by " + om))
            rc = 1 if rej else 0
    shutil.rmtree(ctx.work, ignore_errors=True)
    return rc
