"""C04 — text exposition is a faithful, parseable rendering of the gathered state."""
import random, struct, itertools
from grpb import *
LEVEL = "translation_validation"
TYPES = {"COUNTER": "counter", "GAUGE": "gauge", "HISTOGRAM": "histogram", "SUMMARY": "summary", "UNTYPED": "untyped"}
CLS = {"nan": "nan", "+inf": "pinf", "-inf": "ninf"}
NASTY = ["a", "\\", '"', "\n", "é", "\r", " ", "{", "}", ",", "=", "#", "你", "\U0001F600", "\t", "n", "\\n", " ", "\x7f", "'"]
FLOATS = [0.0, -0.0, 1.0, -1.5, 1e21, 1e-7, 5e-324, 1.7976931348623157e308, 0.1, 1.0 / 3.0, 123456789.123456789, 2.0 ** 53, 2.0 ** -1022,
          float("nan"), float("inf"), float("-inf"), -2.5e-300, 4.35, 1e22, 1e15 + 0.5]


def count_text(c):
    """a count is printed as the f64 nearest to it (the text format's numbers are floats), in plain integer notation with the
    shortest digits that read back to that f64 — e.g. 2^64-1 as 18446744073709552000"""
    from decimal import Decimal
    return format(Decimal(repr(float(c))), "f").split(".")[0]


def codes(s):
    return [ord(c) for c in s]


def cls(f):
    return CLS.get(f["c"], "fin")


def expected_of(fams):
    """families_json of the harness -> (structure the parser must produce, finite values in parser order)"""
    exp, fin = [], []

    def num(f):
        if cls(f) == "fin":
            fin.append(f["bits"])
        return cls(f)
    for f in fams:
        ms = []
        for m in f["metrics"]:
            e = {"labels": [[codes(n), codes(v)] for n, v in m["labels"]], "ts": codes(str(m["ts"])) if m["ts"] != 0 else [],
                 "val": "fin", "bk": [], "count": [], "sum": "fin", "qs": []}
            t = f["type"]
            if t == "COUNTER":
                e["val"] = num(m["counter"])
            elif t == "GAUGE":
                e["val"] = num(m["gauge"])
            elif t == "HISTOGRAM":
                h = m["hist"]
                seen_inf = False
                for ub, cc in h["b"]:
                    e["bk"].append({"le": num(ub), "cc": codes(count_text(cc))})
                    seen_inf = seen_inf or ub["c"] == "+inf"
                if not seen_inf:
                    e["bk"].append({"le": "pinf", "cc": codes(count_text(h["count"]))})
                e["sum"] = num(h["sum"])
                e["count"] = codes(count_text(h["count"]))
            elif t == "SUMMARY":
                su = m["summary"]
                for q, v in su["q"]:
                    qc = num(q)
                    e["qs"].append({"q": qc, "v": num(v)})
                e["sum"] = num(su["sum"])
                e["count"] = codes(count_text(su["count"]))
            ms.append(e)
        exp.append({"name": codes(f["name"]), "help": codes(f["help"]), "type": codes(TYPES[f["type"]]), "metrics": ms})
    return exp, fin


def lit_metric(rnd, t, strings, floats, nl):
    m = {"labels": [["l%d" % i, rnd.choice(strings)] for i in range(nl)]}
    if rnd.random() < 0.3:
        m["ts"] = rnd.choice([1, -5, 1700000000000, 2 ** 62])
    if t == "COUNTER":
        m["counter"] = F(rnd.choice(floats))
    elif t == "GAUGE":
        m["gauge"] = F(rnd.choice(floats))
    elif t == "HISTOGRAM":
        nb = rnd.randint(0, 4)
        ubs = sorted(set(rnd.choice([x for x in floats if x == x and x != float("inf")]) for _ in range(nb)))
        cc, b = 0, []
        for ub in ubs:
            cc += rnd.randint(0, 3)
            b.append([F(ub), cc])
        cnt = cc + rnd.randint(0, 2)
        if rnd.random() < 0.2:
            # counts over the whole u64 range (a custom collector may report any): 2^53+1 has no exact f64, 2^63 and 2^64-1 do not fit i64
            big = rnd.choice([2 ** 53 + 1, 2 ** 63 - 1, 2 ** 63, 2 ** 64 - 1, 10 ** 19])
            cnt = big
            if b and rnd.random() < 0.7:
                b[-1][1] = big - rnd.choice([0, 1])
        if rnd.random() < 0.15:
            b.append([F(float("inf")), cnt])       # explicit +Inf bucket supplied by a custom collector
        m["hist"] = {"count": cnt, "sum": F(rnd.choice(floats)), "b": b}
    else:
        qs = [[F(rnd.choice([0.5, 0.9, 0.99, 0.0, 1.0, float("nan")])), F(rnd.choice(floats))] for _ in range(rnd.randint(0, 3))]
        m["summary"] = {"count": rnd.choice([rnd.randint(0, 9), rnd.randint(0, 9), 2 ** 63, 2 ** 64 - 1]), "sum": F(rnd.choice(floats)), "q": qs}
    return m


def rand_string(rnd, n):
    return "".join(rnd.choice(NASTY) if rnd.random() < 0.6 else chr(rnd.choice([rnd.randint(32, 126), rnd.randint(0xa0, 0x2fff), rnd.randint(0x10000, 0x1ffff)])) for _ in range(n))


def gen_jobs(ctx):
    rnd = random.Random(ctx.seed * 31 + 4)
    jobs = []
    # A. exhaustive: every string of length <= 2 over 6 characters as help and as label value
    alpha = ["a", "\\", '"', "\n", "é", "\r"]
    strs = [""] + alpha + ["".join(p) for p in itertools.product(alpha, repeat=2)]
    pairs = [(h, v) for h in strs for v in strs]
    if ctx.quick:
        pairs = [p for i, p in enumerate(pairs) if i % 4 == ctx.seed % 4 or len(p[0]) + len(p[1]) <= 2]
    for off in range(0, len(pairs), 25):
        lit = []
        for k, (h, v) in enumerate(pairs[off:off + 25]):
            lit.append({"name": "m%d" % k, "help": h, "type": ["COUNTER", "GAUGE"][k % 2], "metrics": [{"labels": [["l", v], ["z", v[::-1]]], ("counter" if k % 2 == 0 else "gauge"): F(k)}]})
        jobs.append({"src": {"lit": lit}, "tag": "exhaustive-strings"})
    # B. random rich families of every supported type
    nB = 120 if ctx.quick else 6000
    for i in range(nB):
        fl = FLOATS + [struct.unpack("<d", struct.pack("<Q", rnd.getrandbits(64)))[0] for _ in range(6)]
        strings = [rand_string(rnd, rnd.randint(0, 6)) for _ in range(5)] + [""]
        lit = []
        for k in range(rnd.randint(1, 5)):
            t = rnd.choice(["COUNTER", "GAUGE", "HISTOGRAM", "SUMMARY"])
            nl = rnd.randint(0, 3)
            # a custom collector's samples need not all carry the same number of labels: in half of the families the count varies per sample
            vary = rnd.random() < 0.5
            lit.append({"name": rnd.choice(["a", "a_b", "a:b", "_x9", "zz"]) + str(k), "help": rnd.choice(strings), "type": t,
                        "metrics": [lit_metric(rnd, t, strings, fl, rnd.randint(0, 3) if vary else nl) for _ in range(rnd.randint(1, 4))]})
        jobs.append({"src": {"lit": lit}, "tag": "random"})
    # C. families the library itself produces (registry gather, incl. prefix / common labels, histograms with odd observations)
    for i in range(20 if ctx.quick else 300):
        strings = [rand_string(rnd, rnd.randint(0, 5)) for _ in range(4)]
        calls = [{"op": "registry", "as": "r", "custom": True, "prefix": rnd.choice(["p", "q_r"]), "labels": [["ca", rnd.choice(strings)]]} if i % 2 else {"op": "registry", "as": "r"}]
        calls += [{"op": "counter_vec", "as": "cv", "opts": {"name": "cv", "help": rnd.choice(strings) or "h", "const": [["k", rnd.choice(strings)]]}, "labels": ["x", "y"]}]
        for k in range(rnd.randint(1, 3)):
            calls += [{"op": "with", "vec": "cv", "vals": [rnd.choice(strings), str(k)], "as": "c%d" % k}, {"op": "inc_by", "obj": "c%d" % k, "v": F(abs(rnd.choice([x for x in FLOATS if x == x and x >= 0])))}]
        calls += [{"op": "gauge", "as": "g", "opts": {"name": "g", "help": rnd.choice(strings) or "h"}}, {"op": "set", "obj": "g", "v": F(rnd.choice(FLOATS))}]
        calls += [{"op": "histogram_vec", "as": "hv", "opts": {"name": "hv", "help": "h\\n\"", "buckets": ([F(float("-inf"))] if i % 3 == 0 else []) + [F(-1.0), F(0.0), F(0.5), F(1e21)]}, "labels": ["z"]}, {"op": "with", "vec": "hv", "vals": [rnd.choice(strings)], "as": "h0"}]
        calls += [{"op": "observe", "obj": "h0", "v": F(rnd.choice(FLOATS))} for _ in range(rnd.randint(0, 4))]
        calls += [{"op": "int_gauge", "as": "ig", "opts": {"name": "ig", "help": "i"}}, {"op": "set", "obj": "ig", "v": -7}]
        calls += [{"op": "register", "reg": "r", "obj": o} for o in ("cv", "g", "hv", "ig")]
        jobs.append({"setup": calls, "src": {"reg": "r"}, "tag": "library"})
    # every type: labelled, label-less, labelled samples in one family (and a label-less family after a labelled one)
    for t in ("COUNTER", "GAUGE", "HISTOGRAM", "SUMMARY"):
        ms = [lit_metric(rnd, t, ["v", "w"], FLOATS, n) for n in (2, 0, 1, 0)]
        jobs.append({"src": {"lit": [{"name": "mixed_labels", "help": "h", "type": t, "metrics": ms}, {"name": "plain", "help": "h", "type": t, "metrics": [lit_metric(rnd, t, ["v"], FLOATS, 0)]}]}, "tag": "random"})
    # D. size: strings and families far larger than any internal buffer an encoder might use (8 KiB, 32 KiB, 64 KiB), placed
    #    before, between and after small families
    def big(n, pat):
        return (pat * (n // len(pat) + 1))[:n]
    small = lambda k: {"name": "s%d" % k, "help": "h", "type": "COUNTER", "metrics": [{"labels": [["l", "v"]], "counter": F(float(k))}]}
    sizes = [(700, "ab\\\n\"é"), (9000, "ab\\\n\"é"), (3000, "測試値"), (70000, "xyz ")] if ctx.quick else [(8191, "a"), (8192, "a"), (8193, "é"), (9000, "ab\\\n\"é"), (3000, "測試値"), (33000, "q\n"), (70000, "xyz "), (300000, "0123456789")]
    # sizes that put the ENCODED family (protobuf: 33 + varint_len(H) + H bytes for the "bighelp" family below) right at a power of
    # two: length-prefix boundaries (127/128, 16383/16384) and the sizes of typical internal buffers (256 ... 65536)
    def help_len_for(body):
        for vl in (1, 2, 3):
            h = body - 33 - vl
            if h >= 0 and (1 if h < 128 else 2 if h < 16384 else 3) == vl:
                return h
        return None
    boundary = sorted({help_len_for(2 ** k + d) for k in (range(7, 15) if ctx.quick else range(7, 18)) for d in (-2, -1, 0, 1)} - {None})
    sizes = [(n, pat, True) for n, pat in sizes] + [(n, "a", False) for n in boundary]
    for n, pat, both in sizes:
        # up to ~1 kB the TLA+ parser reads the text itself; beyond that (its character-level recursion is quadratic) the text must
        # equal the parser-verified text of the same families with a short placeholder in place of the long string, the placeholder
        # replaced by the escaped long string (escaping is a per-character homomorphism: \\ -> \\\\, newline -> \\n, in label values " -> \\")
        for st, huge in ((big(n, pat), None),) if n <= 1000 else ((big(n, pat), "big"), ("PLACEHOLDER_%d_" % n, "small")):
            tag = "large" if huge is None else "huge-" + huge
            extra = {} if huge is None else {"pair": n, "big": big(n, pat), "placeholder": "PLACEHOLDER_%d_" % n}
            jobs.append(dict({"src": {"lit": [small(1), {"name": "bighelp", "help": st, "type": "GAUGE", "metrics": [{"labels": [["l", "v"]], "gauge": F(1.5)}]}, small(2)]}, "tag": tag, "where": "help"}, **extra))
            if both:
                jobs.append(dict({"src": {"lit": [small(1), small(2), {"name": "biglabel", "help": "h", "type": "COUNTER", "metrics": [{"labels": [["a", "x"], ["l", st], ["z", "y"]], "counter": F(2.0)}, {"labels": [["a", "x2"], ["l", "short"], ["z", "y"]], "counter": F(3.0)}]}, small(3)]}, "tag": tag, "where": "label"}, **extra))
    for nm in ((700,) if ctx.quick else (700, 5000)):
        many = {"name": "many", "help": "h", "type": "COUNTER", "metrics": [{"labels": [["i", "%06d" % k], ["pad", "p" * 40]], "counter": F(float(k))} for k in range(nm)]}
        jobs.append({"src": {"lit": [small(1), small(2), many, small(3), {"name": "hh", "help": "x", "type": "HISTOGRAM", "metrics": [{"labels": [], "hist": {"count": 3, "sum": F(4.5), "b": [[F(1.0), 1], [F(2.0), 3]]}}]}]}, "tag": "large"})
        jobs.append({"src": {"lit": [many, small(1)]}, "tag": "large"})
    out = []
    for i, j in enumerate(jobs):
        calls = list(j.get("setup", []))
        src = j["src"]
        # earlier calls on the same thread that FAIL part-way (a writer that runs full) must leave nothing behind
        for k in sorted({rnd.randint(0, 40), rnd.randint(10, 200), rnd.randint(0, 2000)}):
            calls.append(dict({"op": "text_encode", "mode": "failing_writer", "after": k}, **src))
        calls.append(dict({"op": "text_encode", "mode": "chunked", "after": rnd.choice([1, 3, 7, 64])}, **src))
        calls.append(dict({"op": "families_json"}, **src))
        calls.append(dict({"op": "text_encode", "mode": "encode", "prefix": "# preé\n"}, **src))
        calls.append(dict({"op": "text_encode", "mode": "utf8", "prefix": "x"}, **src))
        calls.append(dict({"op": "text_encode", "mode": "to_string"}, **src))
        out.append(dict({"id": i, "calls": calls}, **{k: v for k, v in j.items() if k in ("tag", "where", "pair", "big", "placeholder")}))
    # encode, edit the same family objects in place, encode again (state cached inside the data model must not leak)
    for i in range(10 if ctx.quick else 200):
        t = rnd.choice(["COUNTER", "GAUGE", "HISTOGRAM", "SUMMARY"])
        strings = [rand_string(rnd, rnd.randint(0, 4)) for _ in range(3)] + ["", "v"]
        lit = [{"name": "ed%d" % k, "help": rnd.choice(strings), "type": t, "metrics": [lit_metric(rnd, t, strings, FLOATS, rnd.randint(0, 2)) for _ in range(rnd.randint(1, 2))]} for k in range(rnd.randint(1, 3))]
        calls = [{"op": "families", "as": "F", "lit": lit}, {"op": "text_encode", "fam": "F", "mode": "to_string"},
                 {"op": "fam_edit", "fam": "F", "idx": 0, "rename": "renamed_family_with_a_longer_name", "add_label": ["zz", rnd.choice(strings)], "help": rnd.choice(strings)},
                 {"op": "fam_edit", "fam": "F", "idx": 0, "push_family": {"name": "pushed", "help": "h", "type": "COUNTER", "metrics": [{"labels": [], "counter": F(128.0)}]}},
                 {"op": "text_encode", "fam": "F", "mode": "chunked", "after": 5},
                 {"op": "families_json", "fam": "F"}, {"op": "text_encode", "fam": "F", "mode": "encode", "prefix": "# preé\n"},
                 {"op": "text_encode", "fam": "F", "mode": "utf8", "prefix": "x"}, {"op": "text_encode", "fam": "F", "mode": "to_string"}]
        out.append({"id": len(out), "calls": calls, "tag": "edited-after-encode"})
    return out


def judge_outputs(ctx, jobs, res):
    """byte-level clauses decided here; returns records for the TLA+ parser"""
    recs = []
    huge, small_text = {}, {}
    for j in jobs:
        rs = res[j["id"]]
        fj, e1, e2, e3 = rs[-4], rs[-3], rs[-2], rs[-1]
        rp = {"calls": j["calls"]}
        if any("panic" in x for x in rs):
            ctx.violation("panic", "encoding panicked: %s" % [x for x in rs if "panic" in x][0], rp)
            continue
        if any("ok" not in x for x in (fj, e1, e2, e3)):
            ctx.violation("encode-failed", "a valid family list was refused: %s" % [x for x in (fj, e1, e2, e3) if "ok" not in x][0], rp)
            continue
        b1, b2, b3 = bytes.fromhex(e1["ok"]["hex"]), bytes.fromhex(e2["ok"]["hex"]), bytes.fromhex(e3["ok"]["hex"])
        ch = rs[-5]
        if j["calls"][-5].get("mode") == "chunked":
            if "ok" not in ch or bytes.fromhex(ch["ok"]["hex"]) != b3:
                ctx.violation("chunked-writer-differs", "a writer that accepts only a few bytes per call received different bytes: %s" % json.dumps(ch)[:200], rp)
                continue
        p1, p2 = "# preé\n".encode(), b"x"
        if not b1.startswith(p1) or not b2.startswith(p2):
            ctx.violation("not-append-only", "the encoder did not only append to its output buffer", rp)
            continue
        if not (b1[len(p1):] == b2[len(p2):] == b3):
            ctx.violation("entry-points-differ", "encode, encode_utf8 and encode_to_string produced different bytes", rp)
            continue
        try:
            text = b3.decode("utf-8")
        except UnicodeDecodeError:
            ctx.violation("not-utf8", "the output is not valid UTF-8", rp)
            continue
        if text and not text.endswith("\n"):
            ctx.violation("no-final-newline", "the output does not end with a newline", rp)
            continue
        if j["tag"] == "huge-big":
            huge[(j["pair"], j["where"])] = (j, text)
            continue
        if j["tag"] == "huge-small":
            small_text[(j["pair"], j["where"])] = text
        exp, fin = expected_of(fj["ok"])
        recs.append({"id": j["id"], "lines": text.split("\n")[:-1], "exp": exp, "fin": fin, "job": j})
    for key, (j, text) in huge.items():
        st = small_text.get(key)
        if st is None:
            continue        # the companion was itself rejected above
        esc = j["big"].replace("\\", "\\\\").replace("\n", "\\n")
        if j["where"] == "label":
            esc = esc.replace('"', '\\"')
        if st.replace(j["placeholder"], esc) != text:
            ctx.violation("huge-string", "a %d-character %s is not rendered as the text of the same families with a short string in its place would be (the short rendering is verified by the TextFormat parser); lengths %d vs %d" % (
                len(j["big"]), "help text" if j["where"] == "help" else "label value", len(st.replace(j["placeholder"], esc)), len(text)), {"calls": j["calls"]})
    return recs


def parse_with_tlc(ctx, recs, label):
    """Trace validation: the parser state machine consumes every line; returns {id: (verdict, tokens)}"""
    import concurrent.futures as cf
    results = {}
    batch = 40
    parts = []
    for off in range(0, len(recs), batch):
        part = recs[off:off + batch]
        tp = ctx.path("text_%s_%d.ndjson" % (label, off))
        with open(tp, "w") as f:
            for r in part:
                f.write(json.dumps({"ev": "begin"}) + "\n")
                for ln in r["lines"]:
                    f.write(json.dumps({"ev": "line", "s": codes(ln)}, separators=(",", ":")) + "\n")
                f.write(json.dumps({"ev": "end", "id": str(r["id"]), "exp": r["exp"]}, separators=(",", ":")) + "\n")
        parts.append((off, tp))

    def one(a):
        off, tp = a
        cfg = "SPECIFICATION Spec\nPOSTCONDITION Consumed\nCHECK_DEADLOCK FALSE\n"
        return tlc(ctx, "TextFormat", cfg, workers=1, env={"TRACE": tp}, coverage=False, label="parse%s%d" % (label, off), count=False, timeout=3000, heap="3g")
    with cf.ThreadPoolExecutor(max_workers=8) as ex:
        outs = list(ex.map(one, parts))
    for rt in outs:
        if not rt["ok"]:
            raise ToolError("TextFormat did not consume the whole trace:\n" + rt["output"][-3000:])
        for x in printed_values(rt["output"], "RESULT"):
            results[int(x["id"])] = (x["v"], x["toks"])
        parsed = {int(x["id"]): x["fams"] for x in printed_values(rt["output"], "PARSED")}
        for k, v in parsed.items():
            results[k] = results[k] + (v,)
    return results



def writer_and_thread_cases(ctx, exe, enc):
    """two more ways an encoder meets the outside world: a NON-BLOCKING sink that answers WouldBlock once after `room` bytes (the call
    must fail, or else have delivered exactly the stream), and SEVERAL THREADS encoding the same families at the same moment, each into
    its own buffer (every output must be the one a lone encode produces)"""
    op = "text_encode" if enc == "text" else "pb_encode"
    small = [{"name": "a", "help": "h", "type": "COUNTER", "metrics": [{"labels": [["l", "v"]], "counter": F(1.0)}]},
             {"name": "b", "help": "h é", "type": "HISTOGRAM", "metrics": [{"labels": [], "hist": {"count": 3, "sum": F(4.5), "b": [[F(1.0), 1], [F(2.0), 3]]}}]},
             {"name": "c", "help": "", "type": "GAUGE", "metrics": [{"labels": [["x", "1"]], "gauge": F(-2.5)}, {"labels": [["x", "2"]], "gauge": F(7.0)}]}]
    big = small[:1] + [{"name": "many", "help": "h", "type": "COUNTER", "metrics": [{"labels": [["i", "%05d" % k]], "counter": F(float(k))} for k in range(600)]}] + small[1:]
    ref = run_api(ctx, exe, [{"id": 0, "calls": [{"op": op, "lit": small}]}], "wbref")[0][0]
    if "ok" not in ref:
        ctx.violation("writer:reference-failed", "a plain encode of three ordinary families failed: %s" % json.dumps(ref)[:200], {"calls": [{"op": op, "lit": small}]})
        return 0
    refhex = ref["ok"]["hex"]
    T = len(refhex) // 2
    calls = [{"op": op, "lit": small, "mode": "wouldblock", "after": room} for room in range(0, T + 2)]
    rs = run_api(ctx, exe, [{"id": 0, "calls": calls}], "wb")[0]
    n = 0
    for c, x in zip(calls, rs):
        rp = {"calls": [c]}
        if "panic" in x:
            ctx.violation("writer:panic", "%s into a sink that answers WouldBlock after %d bytes panicked: %s" % (op, c["after"], x["panic"][:200]), rp)
        elif "ok" in x and x["ok"]["hex"] != refhex:
            ctx.violation("writer:wouldblock-corrupts-stream", "%s into a non-blocking sink that answers WouldBlock once after %d of %d bytes returned Ok, but the sink received %d bytes that are not the stream (a retry re-sent bytes already accepted, or dropped some)" % (
                op, c["after"], T, len(x["ok"]["hex"]) // 2), rp)
        else:
            n += 1
    cjobs = [{"id": k, "calls": [{"op": "encode_concurrent", "enc": enc, "lit": lit, "threads": 4, "rounds": 60 if ctx.quick else 2000}]} for k, lit in enumerate((small, big))]
    cres = run_api(ctx, exe, cjobs, "conc-enc")
    for j in cjobs:
        x = cres[j["id"]][0]
        if "ok" not in x or x["ok"]["differing"]:
            ctx.violation("writer:concurrent-encodes-differ", "4 threads encoding the same families at the same moment, each into its own buffer: %s" % json.dumps(x)[:300], {"calls": j["calls"]})
        else:
            n += 1
    return n


def refused_calls(ctx, exe):
    """'only append to their output' also holds for a call that FAILS: whatever the caller's buffer held before stays in front,
    whichever family of the slice is the one that cannot be encoded"""
    good = {"name": "ok", "help": "h", "type": "COUNTER", "metrics": [{"labels": [["l", "v"]], "counter": F(1.0)}]}
    bads = [{"help": "h", "type": "COUNTER", "metrics": [{"labels": [], "counter": F(1.0)}]},                 # no name
            {"name": "empty", "help": "h", "type": "GAUGE", "metrics": []},                                      # no samples
            {"name": "u", "help": "h", "type": "UNTYPED", "metrics": [{"labels": [], "untyped": F(1.0)}]}]     # no text rendering
    jobs = []
    for bad in bads:
        for lit in ([bad], [good, bad], [good, good, bad, good]):
            for prefix in ("", "# earlier output é\nm 1\n"):
                calls = [{"op": "text_encode", "lit": lit, "mode": m, "prefix": prefix} for m in ("encode", "utf8")] + [{"op": "text_encode", "lit": [good], "mode": "utf8", "prefix": prefix}]
                jobs.append({"id": len(jobs), "calls": calls, "prefix": prefix})
    res = run_api(ctx, exe, [{"id": j["id"], "calls": j["calls"]} for j in jobs], "refused", nproc=2)
    n = 0
    for j in jobs:
        rs = res[j["id"]]
        rp = {"calls": j["calls"]}
        for c, x in zip(j["calls"][:2], rs[:2]):
            if "panic" in x:
                ctx.violation("panic", "encoding a family list that must be refused panicked: %s" % x, rp)
            elif "ok" in x:
                ctx.violation("invalid-family-encoded", "%s encoded a family without name / without samples / of type UNTYPED" % c["mode"], rp)
            elif not bytes.fromhex(x.get("written", "")).startswith(j["prefix"].encode()):
                ctx.violation("not-append-only:failed-call", "%s returned Err and left the caller's buffer as %r — it held %r before the call" % (
                    "encode" if c["mode"] == "encode" else "encode_utf8", bytes.fromhex(x.get("written", ""))[:60], j["prefix"].encode()), rp)
            else:
                n += 1
        # the next successful call on the same thread is unaffected
        if "ok" not in rs[2] or not bytes.fromhex(rs[2]["ok"]["hex"]).startswith(j["prefix"].encode()):
            ctx.violation("after-failed-call", "a successful encode_utf8 after a failed one: %s" % json.dumps(rs[2])[:200], rp)
    ctx.cov["refused_encodes_append_only"] = n


def run(ctx):
    exe = build_harness()
    jobs = gen_jobs(ctx)
    res = run_api(ctx, exe, [{"id": j["id"], "calls": j["calls"]} for j in jobs], "text", nproc=12)
    recs = judge_outputs(ctx, jobs, res)
    refused_calls(ctx, exe)
    ctx.cov["nonblocking_sink_and_concurrent_encode_cases"] = writer_and_thread_cases(ctx, exe, "text")
    results = parse_with_tlc(ctx, recs, "t")
    nok, nlines, nfams = 0, 0, 0
    for r in recs:
        nlines += len(r["lines"]); nfams += len(r["exp"])
        out = results.get(r["id"])
        rp = {"calls": r["job"]["calls"]}
        if out is None:
            raise ToolError("no parser verdict for output %d" % r["id"])
        verdict, toks = out[0], out[1]
        if verdict:
            key = "parse:" + verdict.replace(" ", "-")[:40]
            ctx.violation(key, "the TextFormat parser (%s families): %s; first lines %r" % (r["job"]["tag"], verdict, r["lines"][:6]), rp)
            continue
        # numeric clause: an independent decimal parse of every finite value token gives back the exact bits
        got = []
        try:
            got = [fbits(float("".join(map(chr, t)))) for t in toks]
        except ValueError as e:
            ctx.violation("value-token", "a value token is not a number: %s" % e, rp)
            continue
        if got != r["fin"]:
            k = next((i for i, (a, b) in enumerate(zip(got, r["fin"])) if a != b), min(len(got), len(r["fin"])))
            ctx.violation("value-not-bit-exact", "finite value #%d printed as %r does not parse back to the encoded bits (%s vs %s)" % (
                k, "".join(map(chr, toks[k])) if k < len(toks) else None, got[k] if k < len(got) else None, r["fin"][k] if k < len(r["fin"]) else None), rp)
            continue
        nok += 1
    # the binding is live: corrupt one recorded output and expect a rejection
    if recs:
        import copy
        c = copy.deepcopy(recs[len(recs) // 2])
        c["id"] = 10 ** 6
        c["lines"][-1] = "zz" + c["lines"][-1] if c["lines"] else "x 1"       # a sample line that belongs to no family
        c2 = copy.deepcopy(recs[0]); c2["id"] = 10 ** 6 + 1
        if c2["exp"] and c2["exp"][0]["metrics"]:
            c2["exp"][0]["metrics"][0]["labels"] = c2["exp"][0]["metrics"][0]["labels"] + [[codes("zz"), codes("q")]]
        rr = parse_with_tlc(ctx, [c, c2], "corrupt")
        vac = [k for k, v in rr.items() if v[0] == "" and (k != 10 ** 6 or [fbits(float("".join(map(chr, t)))) for t in v[1]] == c["fin"])]
        if vac:
            raise ToolError("vacuity guard: corrupted outputs %s were accepted by the parser spec" % vac)
    ctx.cov.update({
        "programs": len(recs), "disagreements_checked": len(recs), "disagreements_found": len(recs) - nok, "families_encoded": nfams, "lines_parsed_by_TLC": nlines, "outputs_accepted": nok,
        "corrupted_controls_rejected": 2,
        "samples": [{"tag": r["job"]["tag"], "lines": r["lines"][:8]} for r in (recs[0], recs[len(recs) // 2], recs[-1])],
        "explanation": "every encoder output is split into lines and consumed, one TLC state per line, by the TextFormat parser state machine; the parse must equal the encoded families",
        "rule": "exhaustive: all strings of length <=2 over {a, \\, \", \\n, e-acute, \\r} as help text and label value; random: families of all four supported types with adversarial Unicode strings, "
                "every f64 class incl. subnormal/huge/random bit patterns, timestamps, 0-3 labels, 0-4 buckets/quantiles, explicit +Inf buckets; library-produced families through Registry::gather",
    })
    ctx.assumptions += ["bit-exactness of finite values is decided by an independent decimal parse (Python float) of the tokens the TLA+ parser extracted; TLC has no reals",
                        "counts < 10^9; valid metric and label names (C09)"]


def replay(path):
    d = json.load(open(path))
    rp = d["replay"]
    ctx = Ctx("C04_replay", "quick", 0, LEVEL)
    exe = build_harness()
    job = {"id": 0, "calls": rp["calls"], "tag": "replay"}
    res = run_api(ctx, exe, [{"id": 0, "calls": rp["calls"]}], "replay")
    recs = judge_outputs(ctx, [job], res)
    bad = bool(ctx.violations)
    for v in ctx.violations:
        print("  ", v["what"])
    if recs:
        r = recs[0]
        for ln in r["lines"][:40]:
            print("  |", repr(ln))
        out = parse_with_tlc(ctx, recs, "replay")[0]
        print("  parser verdict:", out[0] or "accepted")
        if out[0]:
            bad = True
        else:
            got = [fbits(float("".join(map(chr, t)))) for t in out[1]]
            if got != r["fin"]:
                print("  numeric tokens do not parse back to the encoded bits")
                bad = True
    print("verdict:", "violates" if bad else "conforms")
    shutil.rmtree(ctx.work, ignore_errors=True)
    return 1 if bad else 0
