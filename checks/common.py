"""Shared machinery for /verif/bin/check: TLC runs, harness builds, evidence, known findings."""
import json, os, re, shutil, subprocess, sys, time, hashlib

VERIF = os.path.dirname(os.path.dirname(os.path.abspath(__file__)))
SPEC = os.path.join(VERIF, "spec")
HARNESS = os.path.join(VERIF, "harness")
WORKROOT = os.path.join(VERIF, "work")
REPLAYS = os.path.join(VERIF, "replays")
EVID = os.path.join(VERIF, "evidence")
REPO = "/repo"
# Self-test mode only (bin/selftest): VERIF_ALT=<scratch worktree of /repo with a change applied> runs the same checks against
# that tree from a private copy of the harness, with work files, replays and evidence kept inside the worktree — so that
# /repo, /verif/evidence and other running checks are not touched.  Registered commands never set it.
if os.environ.get("VERIF_ALT_EVID"):       # fault-injection self-test: evidence, work files and replays of those runs go elsewhere
    _q = os.environ["VERIF_ALT_EVID"]
    WORKROOT, REPLAYS, EVID = os.path.join(_q, "work"), os.path.join(_q, "replays"), os.path.join(_q, "evidence")
ALT = os.environ.get("VERIF_ALT")
if ALT:
    REPO = os.path.abspath(ALT)
    _p = os.path.join(REPO, ".verif")
    WORKROOT, REPLAYS, EVID = os.path.join(_p, "work"), os.path.join(_p, "replays"), os.path.join(_p, "evidence")
    _h = os.path.join(_p, "harness")
    if not os.path.exists(os.path.join(_h, "Cargo.toml")):
        os.makedirs(_p, exist_ok=True)
        shutil.copytree(HARNESS, _h, ignore=shutil.ignore_patterns("target*", "gen", ".build.lock"), dirs_exist_ok=True)
        _t = open(os.path.join(_h, "Cargo.toml")).read().replace('"/repo/static-metric"', '"%s/static-metric"' % REPO).replace('"/repo"', '"%s"' % REPO)
        open(os.path.join(_h, "Cargo.toml"), "w").write(_t)
    HARNESS = _h
JAR = "/opt/veriftools/tla/tla2tools.jar:/opt/veriftools/tla/CommunityModules-deps.jar"


class ToolError(Exception):
    pass


# Self-test aid (bin/selftest faults): VERIF_FAULT=num|err|panic corrupts a few of the results that come back from the harness, on
# the unchanged tree.  Every check must then report a violation (exit 1) — none may stay quiet (vacuous judge) or fall over (exit 2:
# a reporting path that was never exercised).  Registered commands never set it.
FAULT = os.environ.get("VERIF_FAULT")


def _bump(v):
    """first number found in a result value is changed"""
    if isinstance(v, dict):
        if isinstance(v.get("hist"), dict) and _bump(v["hist"]):
            return True
        if "bits" in v and "c" in v:
            v["bits"] = str(int(v["bits"]) ^ 1)
            if "i" in v:
                v["i"] = v["i"] + 1
            return True
        for k in sorted(v):
            if isinstance(v[k], bool):
                continue
            if isinstance(v[k], int) and k not in ("inv", "ret", "i", "ts"):
                v[k] += 1
                return True
            if isinstance(v[k], (dict, list)) and _bump(v[k]):
                return True
    elif isinstance(v, list):
        for i, x in enumerate(v):
            if isinstance(x, bool):
                continue
            if isinstance(x, int):
                v[i] = x + 1
                return True
            if isinstance(x, (dict, list)) and _bump(x):
                return True
    return False


def inject_api_fault(res):
    """res: {job id: [call results]} from the sequential API harness"""
    if not FAULT:
        return res
    for n, jid in enumerate(sorted(res, key=str)):
        if n % 7 != 3:
            continue
        rs = res[jid]
        oks = [i for i, x in enumerate(rs) if isinstance(x, dict) and "ok" in x]
        if not oks:
            continue
        if FAULT == "panic":
            rs[oks[len(oks) // 2]] = {"panic": "injected fault"}
        elif FAULT == "err":
            rs[oks[-1]] = {"err": {"kind": "Msg", "msg": "injected fault"}}
        else:
            for i in reversed(oks):
                if isinstance(rs[i]["ok"], (dict, list)) and _bump(rs[i]["ok"]):
                    break
    return res


def inject_conc_fault(results):
    """results: list of executions from the scheduler harness (calls with res, fin)"""
    if not FAULT:
        return results
    for n, x in enumerate(results):
        if n % 5 != 2 or x.get("nonterm"):
            continue
        if FAULT == "panic":
            x["panics"] = [{"t": "t1", "msg": "injected fault"}]
        else:
            reads = [c for c in x.get("calls", []) if c.get("k") in ("get", "collect", "sum", "count", "hget", "gather") and c.get("res") not in (None, 0)]
            if reads:
                c = reads[-1]
                if isinstance(c["res"], int):
                    c["res"] += 1024
                else:
                    _bump(c["res"]) if isinstance(c["res"], (dict, list)) else None
            elif isinstance(x.get("fin"), dict):
                _bump(x["fin"])
    return results


def log(*a):
    print(*a, flush=True)


def sh(cmd, cwd=None, env=None, timeout=None, check=True, capture=True):
    e = dict(os.environ)
    if env:
        e.update(env)
    p = subprocess.run(cmd, cwd=cwd, env=e, timeout=timeout, shell=isinstance(cmd, str),
                       stdout=subprocess.PIPE if capture else None, stderr=subprocess.STDOUT if capture else None,
                       text=True)
    if check and p.returncode != 0:
        raise ToolError("command failed (%d): %s\n%s" % (p.returncode, cmd, (p.stdout or "")[-4000:]))
    return p


class Ctx:
    """One run of one check."""

    def __init__(self, pid, tier, seed, level):
        self.pid = pid
        self.tier = tier
        self.seed = seed
        self.level = level
        self.t0 = time.time()
        self.work = os.path.join(WORKROOT, pid)
        shutil.rmtree(self.work, ignore_errors=True)
        os.makedirs(self.work, exist_ok=True)
        os.makedirs(os.path.join(REPLAYS, pid), exist_ok=True)
        os.makedirs(EVID, exist_ok=True)
        self.violations = []     # [{key, what, replay}]
        self.known = []
        self.notes = []
        self.cov = {}            # coverage dict
        self.assumptions = []
        self.tlc_runs = []
        self.states = 0
        self.transitions = 0
        self.drift = []
        self.nrep = 0

    @property
    def quick(self):
        return self.tier == "quick"

    def path(self, name):
        return os.path.join(self.work, name)

    # ------------------------------------------------------------------ violations
    def violation(self, key, what, replay_obj):
        """Record a violation. `key` identifies the failing input/history class (matched against
        known_findings.json); replay_obj is written as the replay file."""
        self.nrep += 1
        self.per_key = getattr(self, "per_key", {})
        self.per_key[key] = self.per_key.get(key, 0) + 1
        if self.per_key[key] > 3:
            return None     # one defect, many witnesses: keep three replay files per key
        h = hashlib.sha1(json.dumps(replay_obj, sort_keys=True, default=str).encode()).hexdigest()[:10]
        path = os.path.join(REPLAYS, self.pid, "%s-%s.json" % (re.sub(r"[^A-Za-z0-9_.-]+", "_", key)[:60], h))
        with open(path, "w") as f:
            json.dump({"property": self.pid, "key": key, "what": what, "replay": replay_obj}, f, indent=1, default=str)
        self.violations.append({"key": key, "what": what, "replay": path})
        return path

    def add_tlc(self, r):
        self.tlc_runs.append({k: r[k] for k in ("module", "cfg", "role", "mode", "generated", "distinct", "wall_s", "ok", "actions_never") if k in r})
        if r.get("role") == "model":
            self.states += r.get("distinct", 0)
            self.transitions += r.get("generated", 0)

    # ------------------------------------------------------------------ finish
    def finish(self):
        kf = load_known_findings()
        open_keys = {(e["property"], e["key"]): e for e in kf if e.get("status") == "open"}
        new = []
        seen_known = {}
        for v in self.violations:
            e = match_known(self.pid, v["key"], open_keys)
            if e is not None:
                seen_known.setdefault(e["key"], (e, v))
            else:
                new.append(v)
        for k, (e, v) in sorted(seen_known.items()):
            log("KNOWN-FINDING: property=%s %s [%s] (e.g. replay=%s)" % (self.pid, e["what"], e["key"], v["replay"]))
        # de-duplicate new violations by key for printing
        printed = set()
        for v in new:
            if v["key"] in printed:
                continue
            printed.add(v["key"])
            log("VIOLATION property=%s replay=%s" % (self.pid, v["replay"]))
            log("  what: %s" % v["what"])
        cov = dict(self.cov)
        if self.tlc_runs:
            cov.setdefault("tlc_runs", self.tlc_runs)
        if self.level == "model_checking":
            cov.setdefault("states", max(self.states, 0))
            cov.setdefault("transitions", max(self.transitions, 0))
            cov.setdefault("traces_validated_against_impl", 0)
        if self.drift:
            cov["model_drift"] = self.drift[:5]
        cov["known_findings_seen"] = sorted(seen_known.keys())
        cov["violation_witnesses_per_key"] = getattr(self, "per_key", {})
        cov["violations_new"] = [{"key": v["key"], "what": v["what"], "replay": v["replay"]} for v in new[:20]]
        if self.notes:
            cov["notes"] = self.notes
        ev = {
            "property_id": self.pid,
            "tier": self.tier,
            "seed": self.seed,
            "level": self.level,
            "coverage": cov,
            "assumptions": self.assumptions,
            "wall_s": round(time.time() - self.t0, 2),
            "violations": len(printed),
        }
        validate_evidence(ev)
        with open(os.path.join(EVID, self.pid + ".json"), "w") as f:
            json.dump(ev, f, indent=1, default=str)
        shutil.rmtree(self.work, ignore_errors=True)
        if new:
            return 1
        log("OK property=%s tier=%s wall=%.1fs %s" % (self.pid, self.tier, time.time() - self.t0,
                                                       " ".join("%s=%s" % (k, cov[k]) for k in ("states", "transitions", "traces_validated_against_impl", "evaluations", "distinct_nontrivial", "programs") if k in cov)))
        return 0


def load_known_findings():
    p = os.path.join(VERIF, "known_findings.json")
    if not os.path.exists(p):
        return []
    return json.load(open(p))


def match_known(pid, key, open_keys):
    for (p, k), e in open_keys.items():
        if p == pid and (key == k or key.startswith(k + ":") or key.startswith(k + "/")):
            return e
    return None


def validate_evidence(ev):
    try:
        import jsonschema
    except Exception:
        jsonschema = None
    schema_path = "/root/.vp/EVIDENCE.schema.json"
    if jsonschema is None:
        # fall back to the tooling venv
        vt = shutil.which("python3-vt")
        if vt and os.path.exists(schema_path):
            p = subprocess.run([vt, "-c", "import json,sys,jsonschema; jsonschema.validate(json.load(sys.stdin), json.load(open('%s')))" % schema_path],
                               input=json.dumps(ev, default=str), text=True, stdout=subprocess.PIPE, stderr=subprocess.STDOUT)
            if p.returncode != 0:
                raise ToolError("evidence does not validate: " + p.stdout[-2000:])
        return
    if os.path.exists(schema_path):
        jsonschema.validate(json.loads(json.dumps(ev, default=str)), json.load(open(schema_path)))


# ---------------------------------------------------------------------- harness
_built = {}


def build_harness(plain=False):
    """cargo build of the harness against /repo's current working tree with hooks on."""
    key = "plain" if plain else "default"
    if key in _built:
        return _built[key]
    lock = os.path.join(HARNESS, "Cargo.lock")
    if not os.path.exists(lock):
        shutil.copy(os.path.join(REPO, "Cargo.lock"), lock)
    tdir = os.path.join(HARNESS, "target-plain" if plain else "target")
    cmd = ["cargo", "build", "--offline", "--quiet", "--target-dir", tdir]
    if plain:
        cmd += ["--no-default-features"]
    env = {"CARGO_NET_OFFLINE": "true"}
    t0 = time.time()
    # serialise concurrent checks on the cargo lock file
    import fcntl
    with open(os.path.join(HARNESS, ".build.lock"), "w") as lf:
        fcntl.flock(lf, fcntl.LOCK_EX)
        p = sh(cmd, cwd=HARNESS, env=env, check=False, timeout=1800)
    if p.returncode != 0:
        raise ToolError("harness build failed:\n" + p.stdout[-6000:])
    exe = os.path.join(tdir, "debug", "vh")
    _built[key] = exe
    log("[build] harness (%s) %.1fs" % (key, time.time() - t0))
    return exe


def vh(exe, args, timeout=3600, check=True, env=None, ok_codes=(0,)):
    p = sh([exe] + args, timeout=timeout, check=False, env=env)
    if check and p.returncode not in ok_codes:
        raise ToolError("vh %s failed (%d):\n%s" % (" ".join(args[:3]), p.returncode, p.stdout[-4000:]))
    return p


# ---------------------------------------------------------------------- TLC
def tla_str(s):
    return '"' + s.replace("\\", "\\\\").replace('"', '\\"') + '"'


def to_tla(v):
    """python value -> TLA+ expression (dict = record, list = tuple, str, int, bool)."""
    if isinstance(v, bool):
        return "TRUE" if v else "FALSE"
    if isinstance(v, int):
        return str(v)
    if isinstance(v, str):
        return tla_str(v)
    if isinstance(v, (list, tuple)):
        return "<<" + ", ".join(to_tla(x) for x in v) + ">>"
    if isinstance(v, dict):
        if not v:
            return "<<>>"
        return "[" + ", ".join("%s |-> %s" % (k, to_tla(x)) for k, x in v.items()) + "]"
    if isinstance(v, (set, frozenset)):
        return "{" + ", ".join(to_tla(x) for x in sorted(v, key=str)) + "}"
    raise ValueError(v)


def to_tla_fn(d):
    """dict -> TLA+ function with string keys (k :> v @@ ...)."""
    if not d:
        return "<<>>"
    return " @@ ".join("(%s :> %s)" % (tla_str(k), to_tla(v)) for k, v in d.items())


import threading
_wd_lock = threading.Lock()
_wd_ctr = [0]
TLC_STATS = re.compile(r"(\d+) states generated, (\d+) distinct states found, (\d+) states left on queue")


def tlc(ctx, module, cfg_text, mc_text=None, mc_name=None, workers=4, env=None, timeout=1200, simulate=None,
        dump=None, coverage=True, expect_ok=True, extra=None, deque=False, xss=True, label=None, heap="4g", count=True):
    """Run TLC on `module` (in /verif/spec) or on a generated MC module that EXTENDS it.
    Returns dict(ok, generated, distinct, output, violated, actions_fired, actions_never ...)."""
    import threading
    with _wd_lock:
        _wd_ctr[0] += 1
        wd = ctx.path("tlc_%s_%d" % (label or mc_name or module, _wd_ctr[0]))
    os.makedirs(wd, exist_ok=True)
    # copy the specification modules next to the generated one (TLC resolves EXTENDS in the cwd)
    for f in os.listdir(SPEC):
        if f.endswith(".tla"):
            shutil.copy(os.path.join(SPEC, f), os.path.join(wd, f))
    name = module
    if mc_text is not None:
        name = mc_name or ("MC" + module)
        with open(os.path.join(wd, name + ".tla"), "w") as f:
            f.write(mc_text)
    with open(os.path.join(wd, name + ".cfg"), "w") as f:
        f.write(cfg_text)
    jopts = []
    if xss:
        jopts.append("-Xss1g")
    if deque:
        jopts.append("-Dtlc2.tool.queue.IStateQueue=StateDeque")
    cmd = ["java", "-XX:+UseParallelGC", "-Xmx" + heap] + jopts + ["-cp", JAR, "tlc2.TLC", "-workers", str(workers), "-metadir", os.path.join(wd, "states"),
           "-noGenerateSpecTE", "-config", name + ".cfg"]
    if coverage and simulate is None:
        cmd += ["-coverage", "1"]
    if simulate:
        cmd += ["-simulate", simulate]
    if dump:
        cmd += ["-dump", "dot,actionlabels", dump]
    if extra:
        cmd += extra
    cmd += [name + ".tla"]
    e = dict(os.environ)
    e.pop("JAVA_TOOL_OPTIONS", None)
    if env:
        e.update({k: str(v) for k, v in env.items()})
    t0 = time.time()
    try:
        p = subprocess.run(cmd, cwd=wd, env=e, timeout=timeout, stdout=subprocess.PIPE, stderr=subprocess.STDOUT, text=True)
    except subprocess.TimeoutExpired:
        raise ToolError("TLC timed out after %ds on %s" % (timeout, name))
    out = p.stdout
    r = {"module": module, "cfg": name, "mode": "simulate" if simulate else "bfs", "wall_s": round(time.time() - t0, 1), "output": out, "wd": wd}
    m = None
    for m in TLC_STATS.finditer(out):
        pass
    if m:
        r["generated"], r["distinct"] = int(m.group(1)), int(m.group(2))
    else:
        r["generated"], r["distinct"] = 0, 0
    viol = re.search(r"Error: Invariant (\S+) is violated", out)
    r["violated"] = viol.group(1) if viol else None
    if r["violated"] is None:
        if "Error: Temporal properties were violated" in out:
            r["violated"] = "temporal"
        elif re.search(r"Error: Action property (\S+)", out):
            r["violated"] = re.search(r"Error: Action property (\S+)", out).group(1)
    errs = "Error:" in out
    r["ok"] = (p.returncode == 0) and not errs
    # coverage: action lines look like  <Claim line 73, col 1 to line 79, col 44 of module HistImpl>: 12:34
    fired, never = [], []
    for am in re.finditer(r"^<(\w+) line \d+, col \d+ to line \d+, col \d+ of module (\w+)>: (\d+):(\d+)", out, re.M):
        (fired if int(am.group(4)) > 0 else never).append(am.group(1))
    r["actions_fired"] = sorted(set(fired))
    r["actions_never"] = sorted(set(never) - set(fired))
    if not r["ok"] and expect_ok and r["violated"] is None and not errs:
        raise ToolError("TLC failed on %s (rc %d):\n%s" % (name, p.returncode, out[-3000:]))
    if errs and r["violated"] is None and expect_ok:
        # a TLC evaluation error (not a property violation) is a tool error
        if "is violated" not in out and "violated" not in out:
            raise ToolError("TLC error on %s:\n%s" % (name, out[-4000:]))
    r["role"] = "model" if count else "oracle/trace"
    ctx.add_tlc(r)
    return r


def printed_values(out, tag):
    """Values printed with PrintT(<<tag, json-string>>) -> list of parsed JSON."""
    res = []
    pat = re.compile(r'^<<"%s", "(.*)">>$' % re.escape(tag))
    for line in out.splitlines():
        m = pat.match(line)
        if m:
            s = m.group(1).replace('\\"', '"').replace("\\\\", "\\")
            res.append(json.loads(s))
    return res


# ---------------------------------------------------------------------- dot graph -> edge cover
def parse_dot(path, step_label="PStep"):
    import collections
    nodes = {}
    edges = collections.defaultdict(list)
    init = None
    node_re = re.compile(r'^(-?\d+) \[label="')
    edge_re = re.compile(r'^(-?\d+) -> (-?\d+) \[label="%s\(\\"(\w+)\\"\)"' % step_label)
    for line in open(path):
        m = edge_re.match(line)
        if m:
            edges[m.group(1)].append((m.group(3), m.group(2)))
            continue
        m = node_re.match(line)
        if m:
            nid = m.group(1)
            if nid in nodes:
                continue
            a = line.index('proj = \\"') + len('proj = \\"')
            b = line.index('}\\"', a) + 1
            nodes[nid] = json.loads(line[a:b].replace('\\\\\\"', '"'))
            if 'style = filled' in line[-60:]:
                init = nid
    for u in list(edges):
        edges[u] = sorted(set(edges[u]))
    return nodes, edges, init


def edge_cover(nodes, edges, init):
    """Root paths covering every edge, each extended to a terminal state."""
    import collections
    nedges = sum(len(v) for v in edges.values())
    rev = collections.defaultdict(list)
    for u in edges:
        for (t, v) in edges[u]:
            if v != u:
                rev[v].append(u)
    term = [n for n in nodes if not any(v != n for (_, v) in edges.get(n, []))]
    dist = {n: 0 for n in term}
    q = collections.deque(term)
    while q:
        v = q.popleft()
        for u in rev[v]:
            if u not in dist:
                dist[u] = dist[v] + 1
                q.append(u)
    parent = {init: None}
    depth = {init: 0}
    q = collections.deque([init])
    while q:
        u = q.popleft()
        for (t, v) in edges.get(u, []):
            if v not in parent:
                parent[v] = (u, t)
                depth[v] = depth[u] + 1
                q.append(v)

    def path_to(u):
        p = []
        while parent[u] is not None:
            pu, t = parent[u]
            p.append((pu, t, u))
            u = pu
        return p[::-1]
    covered = set()
    paths = []

    def extend(p, cur):
        while True:
            nxt = [(cur, t, v) for (t, v) in edges.get(cur, []) if (cur, t, v) not in covered]
            if nxt:
                nxt.sort(key=lambda e: (e[2] != cur, dist.get(e[2], 1 << 30)))
                e = nxt[0]
            else:
                out = [(cur, t, v) for (t, v) in edges.get(cur, []) if v != cur]
                if not out:
                    break
                e = min(out, key=lambda e: dist.get(e[2], 1 << 30))
            p.append(e)
            covered.add(e)
            cur = e[2]
        return p
    order = sorted(parent.keys(), key=lambda n: depth[n])
    for u in order:
        while any((u, t, v) not in covered for (t, v) in edges.get(u, [])):
            p = path_to(u)
            for e in p:
                covered.add(e)
            paths.append(extend(p, u))
    assert len(covered) == nedges, (len(covered), nedges)
    return paths, nedges
