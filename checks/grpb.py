"""Group B/C plumbing: run call sequences through the sequential API interpreter (vh api)."""
import concurrent.futures as cf
from common import *


def run_api(ctx, exe, jobs, tag, nproc=8, timeout=3600):
    """jobs: list of {"id", "calls": [...]}; returns {id: [results]}"""
    if not jobs:
        return {}
    nproc = max(1, min(nproc, (len(jobs) + 199) // 200))
    files = []
    for i in range(nproc):
        inp, outp = ctx.path("%s_api_in_%d.ndjson" % (tag, i)), ctx.path("%s_api_out_%d.ndjson" % (tag, i))
        with open(inp, "w") as f:
            for j in jobs[i::nproc]:
                f.write(json.dumps(j, separators=(",", ":")) + "\n")
        files.append((inp, outp))

    def one(io):
        vh(exe, ["api", io[0], io[1]], timeout=timeout)
    with cf.ThreadPoolExecutor(max_workers=nproc) as ex:
        list(ex.map(one, files))
    res = {}
    for inp, outp in files:
        with open(outp) as f:
            for line in f:
                r = json.loads(line)
                res[r["id"]] = r["res"]
        os.remove(inp)
        os.remove(outp)
    return res


def kind(r):
    """outcome class of one call result"""
    if "ok" in r:
        return "Ok"
    if "panic" in r:
        return "Panic"
    return r["err"]["kind"]


def fval(v):
    """value of a lossless float record produced by the harness"""
    import struct
    return struct.unpack("<d", struct.pack("<Q", int(v["bits"])))[0]


def fbits(x):
    import struct
    return str(struct.unpack("<Q", struct.pack("<d", float(x)))[0])


def F(x):
    """float literal for the harness (lossless)"""
    return {"bits": fbits(x)}
