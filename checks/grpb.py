"""Group B/C plumbing: run call sequences through the sequential API interpreter (vh api)."""
import concurrent.futures as cf
from common import *


def run_api(ctx, exe, jobs, tag, nproc=8, timeout=3600):
    """jobs: list of {"id", "calls": [...]}; returns {id: [results]}"""
    if not jobs:
        return {}
    nproc = max(1, min(nproc, (len(jobs) + 199) // 200))
    files = []
    for i in range(nproc):
        inp, outp = ctx.path("%s_api_in_%d.ndjson" % (tag, i)), ctx.path("%s_api_out_%d.ndjson" % (tag, i))
        with open(inp, "w") as f:
            for j in jobs[i::nproc]:
                f.write(json.dumps(j, separators=(",", ":")) + "\n")
        files.append((inp, outp))

    def one(io):
        """runs one input file; a job with a call that never returns comes back marked HANG (harness watchdog, exit code 3) and
        the jobs after it are run again from a new process"""
        inp, outp = io
        todo = [json.loads(l) for l in open(inp)]
        got = {}
        for rnd in range(6):
            p = vh(exe, ["api", inp, outp], timeout=timeout, check=False)
            if p.returncode in (1, 2, 4, 101):
                raise ToolError("vh api %s failed (%d):\n%s" % (inp, p.returncode, p.stdout[-3000:]))
            with open(outp) as f:
                for line in f:
                    try:
                        r = json.loads(line)
                    except ValueError:
                        continue        # a line cut off by the process being killed
                    got[r["id"]] = r["res"]
            todo = [j for j in todo if j["id"] not in got]
            if p.returncode not in (0, 3) and todo:
                # the process was terminated by a signal while running the first job that has no result (typically SIGABRT: a panic
                # while panicking).  That job's outcome is "the process aborted"; the ones after it are run again
                j = todo.pop(0)
                got[j["id"]] = [{"panic": "ABORT: the process was terminated (exit status %d) while running this job: %s" % (p.returncode, p.stdout[-300:].replace("\n", " ")), "abort": True}] + [{"skip": "not executed"}] * (len(j["calls"]) - 1)
            if p.returncode == 0 or not todo:
                break
            with open(inp, "w") as f:
                for j in todo:
                    f.write(json.dumps(j, separators=(",", ":")) + "\n")
        for j in todo:      # too many hanging jobs in one file: the rest is reported as not executed
            if j["id"] not in got:
                got[j["id"]] = [{"panic": "HANG: not executed, the harness process gave up after 6 hanging jobs", "hang": True}] + [{"skip": "not executed"}] * (len(j["calls"]) - 1)
        return got
    with cf.ThreadPoolExecutor(max_workers=nproc) as ex:
        parts = list(ex.map(one, files))
    res = {}
    for (inp, outp), got in zip(files, parts):
        res.update(got)
        os.remove(inp)
        os.remove(outp)
    return inject_api_fault(res)


def vary_builder_order(jobs, seed):
    """every options value of every call gets a (seed-dependent) order of the builder methods; the meaning does not depend on it"""
    import random as _r
    rnd = _r.Random(seed)
    steps = ["ns", "sub", "const_map", "const", "var"]
    for j in jobs:
        for c in j["calls"]:
            o = c.get("opts")
            if isinstance(o, dict) and "order" not in o:
                p = steps[:]
                rnd.shuffle(p)
                o["order"] = p
                if "buckets" in o and rnd.random() < 0.5:
                    o["buckets_first"] = True
    return jobs


def kind(r):
    """outcome class of one call result"""
    if "ok" in r:
        return "Ok"
    if "panic" in r:
        return "Panic"
    return r["err"]["kind"]


def fval(v):
    """value of a lossless float record produced by the harness"""
    import struct
    return struct.unpack("<d", struct.pack("<Q", int(v["bits"])))[0]


def fbits(x):
    import struct
    return str(struct.unpack("<Q", struct.pack("<d", float(x)))[0])


def F(x):
    """float literal for the harness (lossless)"""
    return {"bits": fbits(x)}
