"""C07 — gather() is complete, canonically ordered and deterministic."""
import random
from gathercommon import *
LEVEL = "model_checking"
COMMONS = [[], [["z0", "a"]], [["z0", "a"], ["A", "z"], ["_", ""]]]


def compare(case, fams):
    """oracle: the clauses the property states (order of families, samples, label SETS, values, help, type)"""
    exp = case["g"]
    if [f["name"] for f in fams] != [f["name"] for f in exp]:
        return "family names/order: expected %s, got %s" % ([f["name"] for f in exp], [f["name"] for f in fams])
    for f, e in zip(fams, exp):
        if f["help"] != e["help"]:
            return "help of %s: expected %r got %r" % (e["name"], e["help"], f["help"])
        if len(e["types"]) == 1 and f["type"] != e["types"][0]:
            return "type of %s: expected %s got %s" % (e["name"], e["types"][0], f["type"])
        if len(f["metrics"]) != len(e["samples"]):
            return "family %s: expected %d samples, got %d" % (e["name"], len(e["samples"]), len(f["metrics"]))
        for k, (m, s) in enumerate(zip(f["metrics"], e["samples"])):
            want = sorted(map(tuple, s["labels"] + s["common"]))
            got = sorted(map(tuple, m["labels"]))
            if want != got:
                return "family %s sample %d: expected labels %s, got %s" % (e["name"], k, want, got)
            if len(set(n for n, _ in m["labels"])) != len(m["labels"]):
                return "family %s sample %d: duplicate label name %s" % (e["name"], k, m["labels"])
            v = sample_value(s["type"], m)
            if v != s["v"]:
                return "family %s sample %d (%s): expected value %s, got %s" % (e["name"], k, got, s["v"], v)
    return None


def run(ctx):
    exe = build_harness()
    ids = [i for i in MENU if i not in MIXED]
    cases = generate(ctx, ids, 3 if ctx.quick else 4, ["", "Z"], COMMONS, "C07")
    rnd = random.Random(ctx.seed)
    R = 6 if ctx.quick else 12
    first = {}
    nok = 0
    njobs = 0
    label_orders = {}
    for off, part in chunks(list(enumerate(cases)), 400):
        jobs, meta = [], []
        for ci, c in part:
            orders = list(itertools.permutations(sorted(c["sel"])))
            cap = 3 if ctx.quick else 6
            if len(orders) > cap:
                orders = rnd.sample(orders, cap)
            for o in orders:
                for rep in range(R if len(c["common"]) > 1 else 2):
                    jobs.append({"id": len(jobs), "calls": scenario_calls(list(o), c["prefix"], c["common"])})
                    meta.append((ci, o))
        res = run_api(ctx, exe, jobs, "gather%d" % off, nproc=12)
        njobs += len(jobs)
        for j, (ci, o) in zip(jobs, meta):
            rs = res[j["id"]]
            bad = [x for x in rs if "ok" not in x]
            c = cases[ci]
            rp = {"calls": j["calls"], "case": c}
            if bad:
                ctx.violation("call-failed", "a call of an admissible scenario failed: %s" % bad[0], rp)
                continue
            fams = rs[-1]["ok"]
            why = compare(c, fams)
            if why:
                ctx.violation("gather-differs-from-spec:" + why.split(":")[0].split(" ")[0], "registry %s prefix=%r common=%s order=%s: %s" % (sorted(c["sel"]), c["prefix"], c["common"], list(o), why), rp)
                continue
            canon = json.dumps(fams, sort_keys=True)
            if ci not in first:
                first[ci] = (canon, list(o), j["calls"])
            elif first[ci][0] != canon:
                ctx.violation("nondeterministic:label-order" if len(c["common"]) > 1 else "nondeterministic", "two gathers of the same registry content differ (registration orders %s vs %s, fresh hash seeds): %s" % (
                    first[ci][1], list(o), first_diff(json.loads(first[ci][0]), fams)), {"calls": j["calls"], "calls_other": first[ci][2], "case": c})
                continue
            if len(c["common"]) > 1 and fams:
                label_orders.setdefault(ci, set()).add(tuple(n for n, _ in fams[0]["metrics"][0]["labels"]))
            nok += 1
        for ci, _ in part:
            if ci in first:
                first[ci] = (None, None, None) if False else first[ci]
        del res, jobs
        # canonical forms of finished configurations are no longer needed
        for ci, _ in part:
            first.pop(ci, None)
    # a scrape that unwinds (the user's closure of a pulling gauge panics once) leaves nothing behind: the next gather() on the same
    # thread — of this registry and of an unrelated one — is again the function of the registry content the specification says
    ucases = [c for c in cases if len(c["sel"]) >= 2 and "p1" not in c["sel"]]
    rnd2 = random.Random(ctx.seed + 77)
    rnd2.shuffle(ucases)
    ucases = ucases[:40 if ctx.quick else 1500]
    ujobs = []
    for ci, c in enumerate(ucases):
        o = sorted(c["sel"])
        rnd2.shuffle(o)
        calls = scenario_calls(o, c["prefix"], c["common"])[:-1]
        calls += [{"op": "pulling_gauge", "as": "pp", "name": "Mpanics", "help": "h", "value": 3, "panic_first": 1}, {"op": "register", "reg": "r", "obj": "pp"},
                  {"op": "gather", "reg": "r"}, {"op": "gather", "reg": "r"},
                  {"op": "registry", "as": "r2"}, {"op": "int_counter", "as": "lone", "opts": {"name": "lone", "help": "h"}}, {"op": "register", "reg": "r2", "obj": "lone"}, {"op": "gather", "reg": "r2"}]
        ujobs.append({"id": ci, "calls": calls})
    ures = run_api(ctx, exe, ujobs, "unwind", nproc=8)
    nunw = 0
    for j, c in zip(ujobs, ucases):
        rs = ures[j["id"]]
        rp = {"calls": j["calls"], "case": c}
        g1, g2, g3 = rs[-6], rs[-5], rs[-1]
        if any("ok" not in x for x in rs[:-6]) or "panic" not in g1:
            ctx.violation("unwind:setup", "the scripted panic did not happen as planned: %s" % json.dumps([x for x in rs if "ok" not in x][:2])[:300], rp)
            continue
        if "ok" not in g2 or "ok" not in g3:
            ctx.violation("unwind:gather-failed", "gather() after a scrape that unwound failed: %s" % json.dumps(g2 if "ok" not in g2 else g3)[:300], rp)
            continue
        pp = [f for f in g2["ok"] if f["name"].endswith("Mpanics")]
        rest = [f for f in g2["ok"] if not f["name"].endswith("Mpanics")]
        why = compare(c, rest)
        if why or len(pp) != 1 or len(pp[0]["metrics"]) != 1:
            ctx.violation("unwind:leftovers", "registry %s: after a gather() that unwound (panicking collector), the next gather() differs from the registry content: %s" % (sorted(c["sel"]), why or "the pulling gauge's family appears %d times" % len(pp)), rp)
            continue
        if [(f["name"], len(f["metrics"])) for f in g3["ok"]] != [("lone", 1)]:
            ctx.violation("unwind:leaks-into-other-registry", "after a gather() that unwound, an UNRELATED registry with one counter gathers %s" % [(f["name"], len(f["metrics"])) for f in g3["ok"]], rp)
            continue
        nunw += 1
    ctx.cov["unwound_scrapes_conforming"] = nunw
    # gather() is a function of what is registered NOW, whatever was registered, scraped and unregistered before
    byreg = {}
    for c in cases:
        byreg.setdefault((c["prefix"], json.dumps(c["common"])), []).append(c)
    pairs = []
    for lst in byreg.values():
        for _ in range(len(lst)):
            a, b = rnd2.choice(lst), rnd2.choice(lst)
            # the second content shares at least one metric name with the first, in another composition
            if a is not b and set(a["sel"]) != set(b["sel"]) and {f["name"] for f in a["g"]} & {f["name"] for f in b["g"]}:
                pairs.append((a, b))
    rnd2.shuffle(pairs)
    pairs = pairs[:80 if ctx.quick else 3000]
    hjobs = []
    for k, (a, b) in enumerate(pairs):
        oa, ob = sorted(a["sel"]), sorted(b["sel"])
        rnd2.shuffle(oa); rnd2.shuffle(ob)
        calls = [registry_call(a["prefix"], a["common"])]
        for i in dict.fromkeys(oa + ob):
            calls += ctor_calls(i)
        calls += [{"op": "register", "reg": "r", "obj": i} for i in oa] + [{"op": "gather", "reg": "r"}]
        calls += [{"op": "unregister", "reg": "r", "obj": i} for i in oa]
        calls += [{"op": "register", "reg": "r", "obj": i} for i in ob] + [{"op": "gather", "reg": "r"}]
        hjobs.append({"id": k, "calls": calls})
    hres = run_api(ctx, exe, hjobs, "hist", nproc=8)
    nhist = 0
    for j, (a, b) in zip(hjobs, pairs):
        rs = hres[j["id"]]
        rp = {"calls": j["calls"], "case": b}
        if any("ok" not in x for x in rs):
            ctx.violation("history:call-failed", "a call of a legal register / gather / unregister / register history failed: %s" % [x for x in rs if "ok" not in x][0], rp)
            continue
        why = compare(b, rs[-1]["ok"])
        if why:
            ctx.violation("history:" + why.split(":")[0].split(" ")[0], "registry first holding %s (scraped, then unregistered) and now holding %s: gather() does not describe the current content — %s" % (sorted(a["sel"]), sorted(b["sel"]), why), rp)
            continue
        nhist += 1
    ctx.cov["register_unregister_histories_conforming"] = nhist
    # a collector that BUNDLES several families (an application-side Collector wrapping library metrics), some of them without samples
    # at the moment of the scrape (a vector without children), in every position of its list: gather() holds exactly the families
    # that have a sample, sorted by name (Gather.tla: one family per name with at least one sample)
    import itertools as _it
    fam = lambda n, t, k: {"name": n, "help": "h", "type": t, "metrics": [dict({"labels": [["l", "v%d" % i]]}, **({"counter": F(1.0 + i)} if t == "COUNTER" else {"gauge": F(2.0 + i)})) for i in range(k)]}
    pool = [fam("bq_a", "COUNTER", 1), fam("bq_e1", "COUNTER", 0), fam("bq_c", "GAUGE", 2), fam("bq_e2", "GAUGE", 0)]
    bjobs = []
    for perm in _it.permutations(pool):
        for cut in (2, 3, 4):
            lst = list(perm[:cut])
            descs = [{"fq_name": f["name"], "help": "h", "const": [], "var": ["l"]} for f in lst]
            calls = [{"op": "registry", "as": "r"}, {"op": "int_counter", "as": "lone", "opts": {"name": "bq_lone", "help": "h"}}, {"op": "register", "reg": "r", "obj": "lone"},
                     {"op": "custom", "as": "cc", "descs": descs, "families": lst}, {"op": "register", "reg": "r", "obj": "cc"}, {"op": "gather", "reg": "r"}, {"op": "gather", "reg": "r"}]
            bjobs.append({"id": len(bjobs), "calls": calls, "want": sorted([(f["name"], len(f["metrics"])) for f in lst if f["metrics"]] + [("bq_lone", 1)])})
    bres = run_api(ctx, exe, [{"id": j["id"], "calls": j["calls"]} for j in bjobs], "bundle", nproc=4)
    nbun = 0
    for j in bjobs:
        rs = bres[j["id"]]
        got = [[(f["name"], len(f["metrics"])) for f in g["ok"]] if "ok" in g else g for g in rs[-2:]]
        if any("ok" not in x for x in rs) or got[0] != j["want"] or got[1] != j["want"]:
            ctx.violation("bundling-collector", "a collector returning the families %s (in this order) next to a plain counter: gather() holds %s, expected %s" % (
                [(f["name"], len(f["metrics"])) for f in j["calls"][3]["families"]], got[0], j["want"]), {"calls": j["calls"]})
        else:
            nbun += 1
    ctx.cov["bundling_collector_scenarios_conforming"] = nbun
    # completeness and order at scale
    import bulk
    nb = 0
    for n in ((3000,) if ctx.quick else (3000, 70000)):
        bj = bulk.gather_jobs(n)
        br = run_api(ctx, exe, [{"id": j["id"], "calls": j["calls"]} for j in bj], "bulk", nproc=1)
        nb += sum(1 for j in bj if bulk.judge_gather(ctx, j, br[j["id"]], "scale"))
    ctx.cov["scale_scenarios_conforming"] = nb
    ctx.cov.update({
        "traces_validated_against_impl": nok,
        "configurations": len(cases), "gathers": njobs, "gathers_conforming": nok,
        "distinct_label_orders_seen_max": max([len(v) for v in label_orders.values()] + [0]),
        "samples": [cases[len(cases) // 2]], "exhaustive": not ctx.quick,
        "rule": "TLC enumerates every registry built from <=3-4 of 9 collectors (counters sharing a name, vectors with 0-6 children over ordered value pool, histograms, pulling gauge) x prefix x 0/1/3 common labels "
                "and computes Gather(); each configuration gathered for several registration orders and repeated in fresh registries (fresh hash seeds); all runs must equal the spec on the stated clauses and each other byte for byte",
    })
    ctx.assumptions += ["hash-seed dependence is sampled (R repetitions per order), not enumerated"]


def first_diff(a, b):
    for fa, fb in zip(a, b):
        if fa != fb:
            for ma, mb in zip(fa["metrics"], fb["metrics"]):
                if ma != mb:
                    return "family %s: labels %s vs %s" % (fa["name"], ma["labels"], mb["labels"])
            return "family %s vs %s" % (fa["name"], fb["name"])
    return "length"


def replay(path):
    d = json.load(open(path))
    rp = d["replay"]
    if rp.get("bulk"):
        import bulk
        return bulk.replay(rp)
    ctx = Ctx("C07_replay", "quick", 0, LEVEL)
    exe = build_harness()
    outs = set()
    why = None
    for k in range(12):
        rs = run_api(ctx, exe, [{"id": 0, "calls": rp["calls"]}], "replay")[0]
        fams = rs[-1].get("ok")
        if fams is None:
            print("  gather failed:", rs[-1]); why = "failed"; break
        outs.add(json.dumps(fams, sort_keys=True))
        why = why or compare(rp["case"], fams)
    for o in list(outs)[:3]:
        print("  gathered:", o[:600])
    print("  distinct outputs over 12 fresh registries:", len(outs), "| spec comparison:", why or "equal")
    bad = bool(why) or len(outs) > 1
    print("verdict:", "violates" if bad else "conforms")
    shutil.rmtree(ctx.work, ignore_errors=True)
    return 1 if bad else 0
