"""Concretisation table shared with spec/Chars.tla (rank -> character, ascending Unicode scalar order)."""
TABLE = ["\n", "\r", " ", '"', "#", "$", ",", "-", "0", "9", ":", "=", "A", "Z", "\\", "_", "a", "z", "{", "}", "é", "ÿ", "٣", "你", "\U0001F600"]
RANK = {c: i + 1 for i, c in enumerate(TABLE)}
assert TABLE == sorted(TABLE)


def to_str(ranks):
    return "".join(TABLE[r - 1] if 1 <= r <= len(TABLE) else chr(r - 1000) for r in ranks)


def to_ranks(s):
    return [RANK[c] if c in RANK else 1000 + ord(c) for c in s]


def tla_seq(s):
    return "<<" + ", ".join(str(r) for r in to_ranks(s)) + ">>"


def tla_set_of(strings):
    return "{" + ", ".join(tla_seq(s) for s in strings) + "}"
