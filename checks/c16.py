"""C16 — exposition does not depend on the protobuf feature."""
import random
from gathercommon import *
import c07
LEVEL = "model_checking"


def strip(fams):
    for f in fams:
        for m in f["metrics"]:
            m.pop("present", None)
    return fams


def run(ctx):
    exe_pb = build_harness()
    exe_plain = build_harness(plain=True)
    ids = [i for i in MENU if i not in MIXED]
    cases = generate(ctx, ids, 3 if ctx.quick else 4, ["", "Z"], [[], [["z0", "a"]], [["z0", "a"], ["A", "z"]]], "C16")
    rnd = random.Random(ctx.seed)
    jobs, meta = [], []
    for ci, c in enumerate(cases):
        orders = list(itertools.permutations(sorted(c["sel"])))
        for o in rnd.sample(orders, min(2 if ctx.quick else 6, len(orders))):
            calls = scenario_calls(list(o), c["prefix"], c["common"])
            calls.append({"op": "text_encode", "reg": "r", "mode": "to_string"})
            # a second phase: unregister the first collector, update the others, gather again
            first = o[0]
            calls.append({"op": "unregister", "reg": "r", "obj": first})
            for i in o[1:]:
                if MENU[i][0] in ("counter", "int_counter"):
                    calls.append({"op": "inc_by", "obj": i, "v": 5})
                elif MENU[i][0] in ("gauge", "int_gauge"):
                    calls.append({"op": "sub", "obj": i, "v": 2})
                elif MENU[i][0] == "histogram":
                    calls.append({"op": "observe", "obj": i, "v": F(float("nan"))})
                elif MENU[i][0] == "counter_vec" and MENU[i][4]:
                    calls.append({"op": "remove", "vec": i, "vals": MENU[i][6][0][0]})
            calls.append({"op": "gather", "reg": "r"})
            calls.append({"op": "text_encode", "reg": "r", "mode": "to_string"})
            calls.append({"op": "register", "reg": "r", "obj": first})
            calls.append({"op": "gather", "reg": "r"})
            jobs.append({"id": len(jobs), "calls": calls})
            meta.append((ci, o))
    # families only a custom collector can supply (hand-built data-model values): random literals of every supported type,
    # unset type, explicitly set zero timestamp, empty help — gathered through a registry and encoded
    import c04
    nbase = len(jobs)
    for j in c04.gen_jobs(ctx):
        lit = None
        for cl in j["calls"]:
            if "lit" in cl:
                lit = cl["lit"]
        if lit is None or j["tag"] == "exhaustive-strings" and j["id"] % 4:
            continue
        calls = [{"op": "families_json", "lit": lit}, {"op": "text_encode", "lit": lit, "mode": "to_string"}]
        if len(jobs) % 3 == ctx.seed % 3 or not ctx.quick:
            # the same families built the way a collector that RECYCLES its values builds them (used objects emptied with clear_name /
            # take_label / take_metric and filled again; or the result copied over used values of other types with Clone::clone_from):
            # the outcome is that of fresh values, in both data models
            calls += [{"op": "families_json", "lit": lit, "recycle": "clear"}, {"op": "families_json", "lit": lit, "recycle": "clone_from"},
                      {"op": "text_encode", "lit": lit, "mode": "to_string", "recycle": "clone_from" if len(jobs) % 2 else "clear"}]
        jobs.append({"id": len(jobs), "calls": calls})
        meta.append((None, ()))
    special = [
        [{"name": "boot", "help": "h", "type": "GAUGE", "metrics": [{"labels": [["p", "e"]], "gauge": F(1.5), "ts": 0, "ts_force": True}]}],
        [{"name": "untyped_default", "help": "h", "metrics": [{"labels": [], "counter": F(2.0)}]}],
        [{"name": "nohelp", "type": "COUNTER", "metrics": [{"labels": [], "counter": F(2.0), "ts": -1}]}],
        [{"name": "s", "help": "", "type": "SUMMARY", "metrics": [{"labels": [], "summary": {"count": 0, "sum": F(0.0), "q": []}}]}],
        [{"name": "h0", "help": "x", "type": "HISTOGRAM", "metrics": [{"labels": [], "hist": {"count": 0, "sum": F(-0.0), "b": []}}]}],
    ]
    # one Metric on which a hand-written collector calls SEVERAL value setters, in every order, exposed under each family type
    import itertools as _it
    vals = {"counter": F(17.0), "gauge": F(4.0), "hist": {"count": 2, "sum": F(3.0), "b": [[F(1.0), 1]]}, "summary": {"count": 1, "sum": F(2.0), "q": [[F(0.5), F(2.0)]]}}
    for kinds in (("gauge", "counter"), ("counter", "hist"), ("gauge", "summary"), ("counter", "gauge", "hist")):
        for order in _it.permutations(kinds):
            for t in {"counter": ["COUNTER"], "gauge": ["GAUGE"], "hist": ["HISTOGRAM"], "summary": ["SUMMARY"]}[order[0]] + ["COUNTER" if "counter" in kinds else "GAUGE"]:
                special.append([{"name": "multi", "help": "h", "type": t, "metrics": [dict({"labels": [["l", "v"]], "order": list(order)}, **{k: vals[k] for k in kinds})]}])
    # fields a hand-written collector left UNSET (count, sum, a bucket's bound or count), and several samples of one family with the
    # SAME label set that differ only in their timestamps (absent / explicitly 0 / non-zero): both data models must agree on what
    # "unset" reads as and on the order in which gather() returns such samples
    for hist in ({"b": [[F(1.0), 3], [F(2.0), 7]]}, {"sum": F(2.5), "b": [[F(1.0), 3]]}, {"count": 4, "b": [[None, 2], [F(2.0), None]]}, {"count": 0, "sum": F(0.0), "b": [[F(1.0), 5]]}):
        special.append([{"name": "unset_h", "help": "h", "type": "HISTOGRAM", "metrics": [{"labels": [["l", "v"]], "hist": hist}]}])
    for su in ({"q": [[F(0.5), F(1.0)]]}, {"sum": F(1.5), "q": []}, {"count": 3, "q": [[F(0.9), F(2.0)]]}):
        special.append([{"name": "unset_s", "help": "h", "type": "SUMMARY", "metrics": [{"labels": [], "summary": su}]}])
    tsv = [{}, {"ts": 0, "ts_force": True}, {"ts": 5}, {"ts": -3}]
    for a in tsv:
        for b in tsv:
            if a is not b:
                special.append([{"name": "same_labels", "help": "h", "type": "GAUGE", "metrics": [dict({"labels": [["l", "v"]], "gauge": F(2.0)}, **a), dict({"labels": [["l", "v"]], "gauge": F(1.0)}, **b),
                                                                                                 dict({"labels": [["l", "a"]], "gauge": F(3.0)}, **b)]}])
    # a custom collector whose SAMPLES carry a label its descriptors do not declare and that has the name of a registry common label
    # (a relay forwarding remote samples): whatever gather() makes of it, both data models make the same
    for common in ([["z0", "a"]], [["z0", "a"], ["A", "z"]]):
        for own in ([["z0", "own"], ["p", "e"]], [["p", "e"], ["z0", "a"]], [["A", "x"], ["z0", "y"]]):
            lit = [{"name": "relay", "help": "h", "type": "GAUGE", "metrics": [{"labels": own, "gauge": F(1.5)}, {"labels": [["p", "f"]], "gauge": F(2.5)}]}]
            descs = [{"fq_name": "relay", "help": "h", "const": [], "var": ["p"]}]
            calls = [{"op": "registry", "as": "r", "custom": True, "labels": common}, {"op": "custom", "as": "cc", "descs": descs, "families": lit}, {"op": "register", "reg": "r", "obj": "cc"},
                     {"op": "gather", "reg": "r"}, {"op": "text_encode", "reg": "r", "mode": "to_string"}]
            jobs.append({"id": len(jobs), "calls": calls})
            meta.append((None, ()))
    for lit in special:
        descs = [{"fq_name": f["name"], "help": f.get("help") or "h", "const": [], "var": []} for f in lit]
        calls = [{"op": "registry", "as": "r"}, {"op": "custom", "as": "cc", "descs": descs, "families": lit}, {"op": "register", "reg": "r", "obj": "cc"},
                 {"op": "gather", "reg": "r"}, {"op": "text_encode", "reg": "r", "mode": "to_string"}, {"op": "families_json", "lit": lit}, {"op": "text_encode", "lit": lit, "mode": "to_string"},
                 {"op": "families_json", "lit": lit, "recycle": "clear"}, {"op": "families_json", "lit": lit, "recycle": "clone_from"}, {"op": "text_encode", "lit": lit, "mode": "to_string", "recycle": "clone_from"}]
        jobs.append({"id": len(jobs), "calls": calls})
        meta.append((None, ()))
    nok = 0
    ncmp = 0
    allj = list(zip(jobs, meta))
    for off, part in chunks(allj, 4000):
        pj = [j for j, _ in part]
        ra = run_api(ctx, exe_pb, pj, "pb%d" % off, nproc=8)
        rb = run_api(ctx, exe_plain, pj, "plain%d" % off, nproc=8)
        for j, (ci, o) in part:
            a, b = ra[j["id"]], rb[j["id"]]
            c = cases[ci] if ci is not None else {"sel": ["custom-collector families"], "prefix": "", "common": []}
            ok = True
            for k, (call, x, y) in enumerate(zip(j["calls"], a, b)):
                if call["op"] in ("gather", "families_json") and "ok" in x and "ok" in y:
                    x = {"ok": strip(x["ok"])}
                    y = {"ok": strip(y["ok"])}
                ncmp += 1
                if x != y:
                    # localise: which build departs from the specification (first gather only)?
                    who = ""
                    if ci is not None and call["op"] == "gather" and k == len(scenario_calls(list(o), c["prefix"], c["common"])) - 1:
                        wa = c07.compare(c, x.get("ok", [])) if "ok" in x else "failed"
                        wb = c07.compare(c, y.get("ok", [])) if "ok" in y else "failed"
                        who = " (vs Gather spec: protobuf build %s; plain build %s)" % (wa or "conforms", wb or "conforms")
                    ctx.violation("builds-differ:" + call["op"], "registry %s order %s: call #%d %s gives %s with the protobuf-backed model and %s with the plain model%s" % (
                        sorted(c["sel"]), list(o), k, json.dumps(call)[:120], json.dumps(x)[:300], json.dumps(y)[:300], who), {"calls": j["calls"][:k + 1]})
                    ok = False
                    break
            # within each build: recycled values give what fresh values give
            if ok:
                for which, rs in (("protobuf-backed", a), ("plain", b)):
                    ref = {}
                    for call, x in zip(j["calls"], rs):
                        if "lit" not in call or call["op"] not in ("families_json", "text_encode"):
                            continue
                        xs = {"ok": strip(x["ok"])} if call["op"] == "families_json" and "ok" in x else x
                        if "recycle" not in call:
                            ref[call["op"]] = xs
                        elif call["op"] in ref and ref[call["op"]] != xs:
                            ncmp += 1
                            ctx.violation("recycled-values-differ:" + call["recycle"], "%s model: families built from recycled values (%s) read %s, built from fresh values %s" % (
                                which, call["recycle"], json.dumps(xs)[:300], json.dumps(ref[call["op"]])[:300]), {"calls": j["calls"]})
                            ok = False
                            break
                    if not ok:
                        break
            nok += 1 if ok else 0
        del ra, rb
    ctx.cov.update({"traces_validated_against_impl": nok, "scenarios": len(jobs), "custom_collector_family_scenarios": len(jobs) - nbase, "scenarios_identical": nok, "call_results_compared": ncmp, "configurations": len(cases),
                    "samples": [{"sel": cases[len(cases) // 2]["sel"], "prefix": cases[len(cases) // 2]["prefix"], "common": cases[len(cases) // 2]["common"]}],
                    "rule": "GatherGen configurations (TLC) executed as identical call sequences (creation, updates, registration, gather, text encoding, unregistration, further updates incl. NaN observation and child removal, re-registration) "
                            "by two harness binaries built from /repo with default features and with --no-default-features; every call result, every gathered structure and the TextEncoder bytes must be identical; differences are localised against the Gather spec"})
    ctx.assumptions += ["TLA+ supplies the scenario space and the common reference; the decision itself is a differential comparison of the two builds"]


def replay(path):
    d = json.load(open(path))
    rp = d["replay"]
    ctx = Ctx("C16_replay", "quick", 0, LEVEL)
    a = run_api(ctx, build_harness(), [{"id": 0, "calls": rp["calls"]}], "pb")[0]
    b = run_api(ctx, build_harness(plain=True), [{"id": 0, "calls": rp["calls"]}], "plain")[0]
    bad = False
    for call, x, y in zip(rp["calls"], a, b):
        if call["op"] in ("gather", "families_json") and "ok" in x and "ok" in y:
            x, y = {"ok": strip(x["ok"])}, {"ok": strip(y["ok"])}
        if x != y:
            print("  differs at", json.dumps(call)[:200]); print("    protobuf:", json.dumps(x)[:400]); print("    plain:   ", json.dumps(y)[:400])
            bad = True
    print("verdict:", "builds differ" if bad else "identical")
    shutil.rmtree(ctx.work, ignore_errors=True)
    return 1 if bad else 0
