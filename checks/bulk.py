"""Scale scenarios: the same rules at sizes the enumerated behaviours cannot reach (thousands of children / label tuples /
calls per handle).  The expected summaries are the specifications' clauses instantiated at size N (Vec: one child per distinct
tuple; Local: Ledger — shared = direct + flushed; Gather: every sample once, lexicographic order)."""
from grpb import *


def summary_of(res, fam=None):
    if "ok" not in res:
        return None
    fams = res["ok"]
    if fam is not None:
        fams = [f for f in fams if f["name"] == fam]
    return fams[0] if fams else {"samples": 0, "distinct": 0, "total": {"i": 0}, "min": {}, "max": {}, "sorted": True}


def expect(ctx, key, what, got, want, rp):
    """want: dict of summary fields -> value (total/min/max compared as integers)"""
    if got is None:
        ctx.violation(key, "%s: the summary call failed" % what, rp)
        return False
    bad = []
    for k, v in want.items():
        g = got.get(k)
        if isinstance(g, dict):
            g = g.get("i")
        if g != v:
            bad.append("%s=%s (expected %s)" % (k, g, v))
    if bad:
        ctx.violation(key, "%s: %s" % (what, ", ".join(bad)), rp)
        return False
    return True


def local_vec_jobs(n):
    """C12 at scale: one local vector handle touching n distinct label tuples between two flushes, twice"""
    jobs = []
    for fl in ("counter", "int_counter", "histogram"):
        o = {"name": "m", "help": "h"}
        if fl == "histogram":
            o["buckets"] = [0.5, 1e12]
        upd = "lv_observe" if fl == "histogram" else "lv_inc_by"
        calls = [{"op": fl + "_vec", "as": "V", "opts": o, "labels": ["l"]}, {"op": "local", "of": "V", "as": "W"},
                 {"op": "repeat", "n": n, "calls": [{"op": upd, "obj": "W", "vals": ["k$i"], "v": 1}]},
                 {"op": "summary", "obj": "V"},
                 {"op": "lflush", "obj": "W"},
                 {"op": "summary", "obj": "V"},
                 {"op": "repeat", "n": n, "calls": [{"op": upd, "obj": "W", "vals": ["k$i"], "v": 2}]},
                 {"op": "lflush", "obj": "W"}, {"op": "lflush", "obj": "W"},
                 {"op": "summary", "obj": "V"}]
        jobs.append({"id": "bulk-local-%s-%d" % (fl, n), "calls": calls, "flavour": fl, "n": n})
    return jobs


def judge_local_vec(ctx, j, rs, prefix):
    n, fl = j["n"], j["flavour"]
    hist = fl == "histogram"
    rp = {"bulk": True, "calls": j["calls"]}
    if any("panic" in x for x in rs):
        ctx.violation(prefix + ":panic", "local %s vector with %d label tuples: %s" % (fl, n, [x for x in rs if "panic" in x][0]), rp)
        return False
    if rs[2]["ok"]["not_ok"] or rs[6]["ok"]["not_ok"]:
        ctx.violation(prefix + ":call-failed", "local %s vector with %d label tuples: %s" % (fl, n, rs[2]["ok"]["first_not_ok"] or rs[6]["ok"]["first_not_ok"]), rp)
        return False
    what = "one local %s-vector handle, %d distinct label tuples" % (fl, n)
    per1, per2 = (1, 2) if hist else (1, 3)        # histogram: sample counts 1 then 2; counter: values 1 then 1+2
    ok = expect(ctx, prefix + ":before-flush", what + ", before the first flush the shared vector", summary_of(rs[3]), {"total": 0}, rp)
    ok &= expect(ctx, prefix + ":after-flush", what + ", after one update each and a flush the shared vector", summary_of(rs[5]),
                 {"samples": n, "distinct": n, "total": n * per1, "min": per1, "max": per1}, rp)
    want = {"samples": n, "distinct": n, "total": n * per2, "min": per2, "max": per2}
    if hist:
        want["hist_sum"] = 3 * n
        want["last_bucket_total"] = 2 * n
    ok &= expect(ctx, prefix + ":after-second-flush", what + ", after a second update each and two flushes the shared vector", summary_of(rs[9]), want, rp)
    return ok


def long_batch_jobs(n):
    """C12 at scale in the other direction: ONE local handle accumulating n updates without a flush — the shared metric does not move
    until the flush, a clear discards all of it, the flush hands over exactly n"""
    jobs = []
    for fl, upd, rd in (("counter", "linc_by", "get"), ("int_counter", "linc_by", "get"), ("histogram", "lobserve", "metric")):
        o = {"name": "m", "help": "h"}
        if fl == "histogram":
            o["buckets"] = [0.5, 1e12]
        calls = [{"op": fl, "as": "m", "opts": o}, {"op": "local", "of": "m", "as": "L"},
                 {"op": "repeat", "n": n, "calls": [{"op": upd, "obj": "L", "v": 1}]}, {"op": rd, "obj": "m"},
                 {"op": "lclear" if fl == "histogram" else "lreset", "obj": "L"}, {"op": "lflush", "obj": "L"}, {"op": rd, "obj": "m"},
                 {"op": "repeat", "n": n, "calls": [{"op": upd, "obj": "L", "v": 1}]}, {"op": "lflush", "obj": "L"}, {"op": "lflush", "obj": "L"}, {"op": rd, "obj": "m"}]
        jobs.append({"id": "long-batch-%s-%d" % (fl, n), "calls": calls, "flavour": fl, "n": n})
    return jobs


def judge_long_batch(ctx, j, rs, prefix):
    n, fl = j["n"], j["flavour"]
    rp = {"bulk": True, "calls": j["calls"]}
    if any("ok" not in x for x in rs):
        ctx.violation(prefix + ":call-failed", "one local %s with %d updates: %s" % (fl, n, [x for x in rs if "ok" not in x][0]), rp)
        return False

    def val(r):
        return r["ok"]["hist"]["count"] if fl == "histogram" else r["ok"].get("i")
    got = [val(rs[3]), val(rs[6]), val(rs[10])]
    if got != [0, 0, n]:
        ctx.violation(prefix + ":long-batch", "one local %s handle: after %d updates without a flush the shared metric shows %s (expected 0), after clear + flush %s (expected 0), after %d more updates and a flush %s (expected %d)" % (
            fl, n, got[0], got[1], n, got[2], n), rp)
        return False
    return True


def vec_jobs(n):
    """C05 at scale: n distinct label tuples (two labels; the second label's values repeat) through the positional and the map form"""
    jobs = []
    for fl, upd in (("counter", "inc"), ("int_gauge", "inc"), ("histogram", "observe")):
        o = {"name": "m", "help": "h"}
        calls = [{"op": fl + "_vec", "as": "V", "opts": o, "labels": ["l1", "l2"]},
                 {"op": "repeat", "n": n, "calls": [{"op": "with", "vec": "V", "vals": ["k$i", "x"], "as": "c"}, {"op": upd, "obj": "c", "v": 1}]},
                 {"op": "summary", "obj": "V"},
                 {"op": "repeat", "n": n, "calls": [{"op": "with_map", "vec": "V", "pairs": [["l2", "x"], ["l1", "k$i"]], "as": "c"}, {"op": upd, "obj": "c", "v": 1}]},
                 {"op": "summary", "obj": "V"},
                 {"op": "repeat", "n": n, "calls": [{"op": "remove", "vec": "V", "vals": ["k$i", "x"]}]},
                 {"op": "summary", "obj": "V"}]
        jobs.append({"id": "bulk-vec-%s-%d" % (fl, n), "calls": calls, "flavour": fl, "n": n})
    return jobs


def judge_vec(ctx, j, rs, prefix):
    n, fl = j["n"], j["flavour"]
    rp = {"bulk": True, "calls": j["calls"]}
    if any("panic" in x for x in rs):
        ctx.violation(prefix + ":panic", "%s vector with %d label tuples: %s" % (fl, n, [x for x in rs if "panic" in x][0]), rp)
        return False
    for k in (1, 3, 5):
        if rs[k]["ok"]["not_ok"]:
            ctx.violation(prefix + ":call-failed", "%s vector with %d label tuples: %s" % (fl, n, rs[k]["ok"]["first_not_ok"]), rp)
            return False
    what = "%s vector, %d distinct label tuples" % (fl, n)
    ok = expect(ctx, prefix + ":one-child-per-tuple", what + ", each requested once (positional form) and updated once", summary_of(rs[2]), {"samples": n, "distinct": n, "total": n, "min": 1, "max": 1}, rp)
    ok &= expect(ctx, prefix + ":same-child-again", what + ", each requested again through the map form and updated again", summary_of(rs[4]), {"samples": n, "distinct": n, "total": 2 * n, "min": 2, "max": 2}, rp)
    ok &= expect(ctx, prefix + ":removed", what + ", after removing every one of them", summary_of(rs[6]), {"samples": 0}, rp)
    return ok


def gather_jobs(n):
    """C07 at scale: a registry whose vector has n children — every sample once, in lexicographic order of the label values"""
    o = {"name": "m", "help": "h"}
    calls = [{"op": "registry", "as": "r"}, {"op": "int_counter_vec", "as": "V", "opts": o, "labels": ["l"]}, {"op": "register", "reg": "r", "obj": "V"},
             # keys in an order unrelated to their lexicographic order, of different lengths
             {"op": "repeat", "n": n, "calls": [{"op": "with", "vec": "V", "vals": ["k$i"], "as": "c"}, {"op": "inc", "obj": "c"}]},
             {"op": "summary", "obj": "r"}]
    return [{"id": "bulk-gather-%d" % n, "calls": calls, "n": n}]


def judge_gather(ctx, j, rs, prefix):
    n = j["n"]
    rp = {"bulk": True, "calls": j["calls"]}
    if any("panic" in x for x in rs) or rs[3]["ok"]["not_ok"]:
        ctx.violation(prefix + ":call-failed", "registry with a %d-child vector: %s" % (n, [x for x in rs if "panic" in x] or rs[3]["ok"]["first_not_ok"]), rp)
        return False
    return expect(ctx, prefix + ":complete-and-ordered", "gather() of a registry with one vector of %d children" % n, summary_of(rs[4]), {"samples": n, "distinct": n, "total": n, "min": 1, "max": 1, "sorted": True}, rp)


def replay(rp):
    ctx = Ctx("bulk_replay", "quick", 0, "model_checking")
    rs = run_api(ctx, build_harness(), [{"id": 0, "calls": rp["calls"]}], "bulk")[0]
    for c, r in zip(rp["calls"], rs):
        print("  %-10s -> %s" % (c["op"], json.dumps(r)[:400]))
    print("verdict: see the summaries above against the expected values named in the violation (re-run the check to re-judge)")
    shutil.rmtree(ctx.work, ignore_errors=True)
    return 1


# ------------------------------------------------------------------------------------------------------------------------
# C05: a pool of label-value tuples built to be CLOSE to each other in every way a key function could confuse — boundary
# shifts, swapped positions, repeated / overlapping / dropped 8-byte lanes, zero padding, length changes, values that continue
# a label name which is a prefix of another label name.  All tuples of the pool are requested from ONE vector: it must end
# up with exactly one child per distinct tuple, each updated exactly as often as its tuple was used.
def neighbours(s):
    out = {s, s + "\0", s + "\0" * 7, "\0" + s, s + s, s[:-1], s[1:], s[::-1], s.swapcase(), s + s[-8:], s + " ", s + "ÿ"}
    n = len(s)
    if n > 8:
        k = (n // 8) * 8
        if k == n:
            k -= 8
        out.add(s[:k] + s[-8:])             # last lane overlapping the previous one
        out.add(s[:8] + s[:8] + s[8:])      # a lane twice
        out.add(s[8:] + s[:8])              # lanes rotated
        out.add(s[:8] + s[16:])             # a lane dropped
        out.add(s[:k])                      # tail dropped
        out.add(s[:n // 2] + s[n // 2 - 4:])  # an overlap in the middle
    return out


def adversarial_tuples(rnd, names):
    alpha = "abAB\0ÿ é=,\"/-_01"
    bases = ["", "a", "ab", "abcdefgh", "abcdefghijkl", "/api/v2/orders", "name", "hostname", "0" * 16]
    for ln in (3, 7, 8, 9, 15, 16, 17, 24, 31, 33):
        for _ in range(2):
            bases.append("".join(rnd.choice(alpha) for _ in range(ln)))
    vals = set()
    for b in bases:
        vals |= neighbours(b)
    vals = sorted(vals)
    k = len(names)
    tuples = set()
    few = rnd.sample(vals, min(len(vals), 60))
    for v in vals:
        for w in rnd.sample(few, 6):
            t = [w] * k
            t[rnd.randrange(k)] = v
            tuples.add(tuple(t))
            tuples.add(tuple(reversed(t)))
    # boundary shifts between adjacent positions
    for s in vals:
        for i in range(len(s) + 1):
            if k == 2:
                tuples.add((s[:i], s[i:]))
            else:
                tuples.add((s[:i], s[i:], "z")); tuples.add(("z", s[:i], s[i:]))
    # label names that continue each other: name_i + value_i == name_j + value_j' across positions
    for i in range(k):
        for j in range(k):
            if i != j and names[j].startswith(names[i]) and names[j] != names[i]:
                ext = names[j][len(names[i]):]
                for x in few[:25]:
                    for y in few[:25]:
                        t1 = ["q"] * k; t2 = ["q"] * k
                        t1[i], t1[j] = ext + x, y
                        t2[i], t2[j] = ext + y, x
                        tuples.add(tuple(t1)); tuples.add(tuple(t2))
    return sorted(tuples)


def single_byte_shift_tuples(k):
    """boundary shifts around EVERY character that is one byte in UTF-8 (any of them could be mistaken for a separator between
    values): a?b split at each position, for all 128 characters"""
    out = set()
    for c in range(128):
        s = "a" + chr(c) + "b"
        for i in range(len(s) + 1):
            if k == 2:
                out.add((s[:i], s[i:]))
            else:
                out.add((s[:i], s[i:], "z")); out.add(("z", s[:i], s[i:]))
    return out


def adversarial_vec_jobs(rnd, quick):
    jobs = []
    configs = [(["l1", "l2"], "counter"), (["host", "hostname"], "int_counter"), (["a", "ab"], "gauge"), (["x", "xy", "xyz"], "histogram")]
    for names, fl in configs:
        tuples = adversarial_tuples(rnd, names)
        if quick and len(tuples) > 6000:
            keep = set(rnd.sample(range(len(tuples)), 6000))
            tuples = [t for i, t in enumerate(tuples) if i in keep]
        tuples = sorted(set(tuples) | single_byte_shift_tuples(len(names)))
        upd = "observe" if fl == "histogram" else "inc"
        calls = [{"op": fl + "_vec", "as": "V", "opts": {"name": "m", "help": "h"}, "labels": names}]
        refused = []     # indexes of calls that must be refused (Err) and leave no trace: wrong number of values, unknown / missing label name, removal of a tuple that has no child
        for k, t in enumerate(tuples):
            calls += [{"op": "with", "vec": "V", "vals": list(t), "as": "c"}, {"op": upd, "obj": "c", "v": 1}]
            if k % 37 == 5:
                bad = [{"op": "with", "vec": "V", "vals": list(t) + ["extra"]}, {"op": "with", "vec": "V", "vals": list(t)[:-1]},
                       {"op": "with_map", "vec": "V", "pairs": [[n, v] for n, v in zip(names, t)][:-1] + [["nosuchlabel", t[-1]]]},
                       {"op": "with_map", "vec": "V", "pairs": [[n, v] for n, v in zip(names, t)][:-1]},
                       {"op": "remove", "vec": "V", "vals": [v + "\u0001never" for v in t]}][k % 5]
                refused.append(len(calls))
                calls.append(bad)
        calls.append({"op": "summary", "obj": "V"})
        for t in tuples:
            calls += [{"op": "with_map", "vec": "V", "pairs": [[n, v] for n, v in reversed(list(zip(names, t)))], "as": "c"}, {"op": upd, "obj": "c", "v": 1}]
        calls.append({"op": "summary", "obj": "V"})
        calls.append({"op": "collect", "obj": "V"})
        jobs.append({"id": "adv-%s" % "-".join(names), "calls": calls, "names": names, "flavour": fl, "tuples": tuples, "refused": refused})
        if fl in ("counter", "histogram"):
            # the same pool through ONE local vector handle (its per-handle cache is keyed like the shared map), flushed once at the end
            lupd = "lv_observe" if fl == "histogram" else "lv_inc_by"
            lcalls = [{"op": fl + "_vec", "as": "V", "opts": {"name": "m", "help": "h"}, "labels": names}, {"op": "local", "of": "V", "as": "W"}]
            for t in tuples:
                lcalls.append({"op": lupd, "obj": "W", "vals": list(t), "v": 1})
            lcalls += [{"op": "lflush", "obj": "W"}, {"op": "summary", "obj": "V"}]
            for t in tuples:
                lcalls.append({"op": lupd, "obj": "W", "vals": list(t), "v": 1})
            lcalls += [{"op": "lflush", "obj": "W"}, {"op": "summary", "obj": "V"}, {"op": "collect", "obj": "V"}]
            jobs.append({"id": "adv-local-%s" % "-".join(names), "calls": lcalls, "names": names, "flavour": fl, "tuples": tuples, "refused": [], "local": True})
    return jobs


def judge_adversarial(ctx, j, rs, prefix):
    n = len(j["tuples"])
    names = j["names"]
    rp = {"calls": j["calls"][:1] + j["calls"][-1:], "note": "full call list omitted (one `with`+update per tuple of the adversarial pool); see localisation in the message"}
    refused = set(j.get("refused", []))
    bad = [(i, x) for i, x in enumerate(rs) if ("ok" not in x) != (i in refused) or "panic" in x]
    if bad:
        i, x = bad[0]
        ctx.violation(prefix + (":bad-call-accepted" if i in refused else ":call-failed"), "%s vector with labels %s, %d tuples: call #%d %s %s: %s" % (
            j["flavour"], names, n, i, json.dumps(j["calls"][i])[:200], "must be refused with Err" if i in refused else "failed", json.dumps(x)[:200]), {"calls": [j["calls"][0], j["calls"][i]]})
        return False
    nr = len(refused)
    if j.get("local"):
        s1, s2 = summary_of(rs[n + 3]), summary_of(rs[2 * n + 5])
    else:
        s1, s2 = summary_of(rs[2 * n + 1 + nr]), summary_of(rs[4 * n + 2 + nr])
    ok1 = all((s1.get(k, {}).get("i") if isinstance(s1.get(k), dict) else s1.get(k)) == v for k, v in {"samples": n, "distinct": n, "min": 1, "max": 1}.items())
    ok2 = all((s2.get(k, {}).get("i") if isinstance(s2.get(k), dict) else s2.get(k)) == v for k, v in {"samples": n, "distinct": n, "min": 2, "max": 2}.items())
    if ok1 and ok2:
        return True
    # localise: which tuples share a child / are missing
    fams = rs[-1]["ok"]
    seen = {}
    for f in fams:
        for m in f["metrics"]:
            d = dict(map(tuple, m["labels"]))
            seen[tuple(d[x] for x in names)] = m
    missing = [t for t in j["tuples"] if t not in seen]
    heavy = [t for t, m in seen.items() if (m.get("hist", {}).get("count") if j["flavour"] == "histogram" else (m["gauge"] if j["flavour"] == "gauge" else m["counter"]).get("i")) not in (2,)]
    calls = [j["calls"][0]]
    for t in (missing[:1] + heavy[:1]):
        calls += [{"op": "with", "vec": "V", "vals": list(t), "as": "c"}, {"op": "inc" if j["flavour"] != "histogram" else "observe", "obj": "c", "v": 1}]
    calls.append({"op": "collect", "obj": "V"})
    ctx.violation(prefix + ":tuples-share-a-child", ("%s vector with label names %s" + (" (through one LOCAL vector handle, flushed)" if j.get("local") else "") + ": %d distinct tuples were requested (positional form, then map form) and updated once each time; the vector holds %s children "
                  "(min %s, max %s after the first pass); e.g. tuple %r has no child of its own and tuple %r was updated for it") % (
                      j["flavour"], names, n, s2.get("samples"), s1.get("min"), s1.get("max"), missing[:1], heavy[:1]), {"calls": calls})
    return False
