"""Scale scenarios: the same rules at sizes the enumerated behaviours cannot reach (thousands of children / label tuples /
calls per handle).  The expected summaries are the specifications' clauses instantiated at size N (Vec: one child per distinct
tuple; Local: Ledger — shared = direct + flushed; Gather: every sample once, lexicographic order)."""
from grpb import *


def summary_of(res, fam=None):
    if "ok" not in res:
        return None
    fams = res["ok"]
    if fam is not None:
        fams = [f for f in fams if f["name"] == fam]
    return fams[0] if fams else {"samples": 0, "distinct": 0, "total": {"i": 0}, "min": {}, "max": {}, "sorted": True}


def expect(ctx, key, what, got, want, rp):
    """want: dict of summary fields -> value (total/min/max compared as integers)"""
    if got is None:
        ctx.violation(key, "%s: the summary call failed" % what, rp)
        return False
    bad = []
    for k, v in want.items():
        g = got.get(k)
        if isinstance(g, dict):
            g = g.get("i")
        if g != v:
            bad.append("%s=%s (expected %s)" % (k, g, v))
    if bad:
        ctx.violation(key, "%s: %s" % (what, ", ".join(bad)), rp)
        return False
    return True


def local_vec_jobs(n):
    """C12 at scale: one local vector handle touching n distinct label tuples between two flushes, twice"""
    jobs = []
    for fl in ("counter", "int_counter", "histogram"):
        o = {"name": "m", "help": "h"}
        if fl == "histogram":
            o["buckets"] = [0.5, 1e12]
        upd = "lv_observe" if fl == "histogram" else "lv_inc_by"
        calls = [{"op": fl + "_vec", "as": "V", "opts": o, "labels": ["l"]}, {"op": "local", "of": "V", "as": "W"},
                 {"op": "repeat", "n": n, "calls": [{"op": upd, "obj": "W", "vals": ["k$i"], "v": 1}]},
                 {"op": "summary", "obj": "V"},
                 {"op": "lflush", "obj": "W"},
                 {"op": "summary", "obj": "V"},
                 {"op": "repeat", "n": n, "calls": [{"op": upd, "obj": "W", "vals": ["k$i"], "v": 2}]},
                 {"op": "lflush", "obj": "W"}, {"op": "lflush", "obj": "W"},
                 {"op": "summary", "obj": "V"}]
        jobs.append({"id": "bulk-local-%s-%d" % (fl, n), "calls": calls, "flavour": fl, "n": n})
    return jobs


def judge_local_vec(ctx, j, rs, prefix):
    n, fl = j["n"], j["flavour"]
    hist = fl == "histogram"
    rp = {"bulk": True, "calls": j["calls"]}
    if any("panic" in x for x in rs):
        ctx.violation(prefix + ":panic", "local %s vector with %d label tuples: %s" % (fl, n, [x for x in rs if "panic" in x][0]), rp)
        return False
    if rs[2]["ok"]["not_ok"] or rs[6]["ok"]["not_ok"]:
        ctx.violation(prefix + ":call-failed", "local %s vector with %d label tuples: %s" % (fl, n, rs[2]["ok"]["first_not_ok"] or rs[6]["ok"]["first_not_ok"]), rp)
        return False
    what = "one local %s-vector handle, %d distinct label tuples" % (fl, n)
    per1, per2 = (1, 2) if hist else (1, 3)        # histogram: sample counts 1 then 2; counter: values 1 then 1+2
    ok = expect(ctx, prefix + ":before-flush", what + ", before the first flush the shared vector", summary_of(rs[3]), {"total": 0}, rp)
    ok &= expect(ctx, prefix + ":after-flush", what + ", after one update each and a flush the shared vector", summary_of(rs[5]),
                 {"samples": n, "distinct": n, "total": n * per1, "min": per1, "max": per1}, rp)
    want = {"samples": n, "distinct": n, "total": n * per2, "min": per2, "max": per2}
    if hist:
        want["hist_sum"] = 3 * n
        want["last_bucket_total"] = 2 * n
    ok &= expect(ctx, prefix + ":after-second-flush", what + ", after a second update each and two flushes the shared vector", summary_of(rs[9]), want, rp)
    return ok


def vec_jobs(n):
    """C05 at scale: n distinct label tuples (two labels; the second label's values repeat) through the positional and the map form"""
    jobs = []
    for fl, upd in (("counter", "inc"), ("int_gauge", "inc"), ("histogram", "observe")):
        o = {"name": "m", "help": "h"}
        calls = [{"op": fl + "_vec", "as": "V", "opts": o, "labels": ["l1", "l2"]},
                 {"op": "repeat", "n": n, "calls": [{"op": "with", "vec": "V", "vals": ["k$i", "x"], "as": "c"}, {"op": upd, "obj": "c", "v": 1}]},
                 {"op": "summary", "obj": "V"},
                 {"op": "repeat", "n": n, "calls": [{"op": "with_map", "vec": "V", "pairs": [["l2", "x"], ["l1", "k$i"]], "as": "c"}, {"op": upd, "obj": "c", "v": 1}]},
                 {"op": "summary", "obj": "V"},
                 {"op": "repeat", "n": n, "calls": [{"op": "remove", "vec": "V", "vals": ["k$i", "x"]}]},
                 {"op": "summary", "obj": "V"}]
        jobs.append({"id": "bulk-vec-%s-%d" % (fl, n), "calls": calls, "flavour": fl, "n": n})
    return jobs


def judge_vec(ctx, j, rs, prefix):
    n, fl = j["n"], j["flavour"]
    rp = {"bulk": True, "calls": j["calls"]}
    if any("panic" in x for x in rs):
        ctx.violation(prefix + ":panic", "%s vector with %d label tuples: %s" % (fl, n, [x for x in rs if "panic" in x][0]), rp)
        return False
    for k in (1, 3, 5):
        if rs[k]["ok"]["not_ok"]:
            ctx.violation(prefix + ":call-failed", "%s vector with %d label tuples: %s" % (fl, n, rs[k]["ok"]["first_not_ok"]), rp)
            return False
    what = "%s vector, %d distinct label tuples" % (fl, n)
    ok = expect(ctx, prefix + ":one-child-per-tuple", what + ", each requested once (positional form) and updated once", summary_of(rs[2]), {"samples": n, "distinct": n, "total": n, "min": 1, "max": 1}, rp)
    ok &= expect(ctx, prefix + ":same-child-again", what + ", each requested again through the map form and updated again", summary_of(rs[4]), {"samples": n, "distinct": n, "total": 2 * n, "min": 2, "max": 2}, rp)
    ok &= expect(ctx, prefix + ":removed", what + ", after removing every one of them", summary_of(rs[6]), {"samples": 0}, rp)
    return ok


def gather_jobs(n):
    """C07 at scale: a registry whose vector has n children — every sample once, in lexicographic order of the label values"""
    o = {"name": "m", "help": "h"}
    calls = [{"op": "registry", "as": "r"}, {"op": "int_counter_vec", "as": "V", "opts": o, "labels": ["l"]}, {"op": "register", "reg": "r", "obj": "V"},
             # keys in an order unrelated to their lexicographic order, of different lengths
             {"op": "repeat", "n": n, "calls": [{"op": "with", "vec": "V", "vals": ["k$i"], "as": "c"}, {"op": "inc", "obj": "c"}]},
             {"op": "summary", "obj": "r"}]
    return [{"id": "bulk-gather-%d" % n, "calls": calls, "n": n}]


def judge_gather(ctx, j, rs, prefix):
    n = j["n"]
    rp = {"bulk": True, "calls": j["calls"]}
    if any("panic" in x for x in rs) or rs[3]["ok"]["not_ok"]:
        ctx.violation(prefix + ":call-failed", "registry with a %d-child vector: %s" % (n, [x for x in rs if "panic" in x] or rs[3]["ok"]["first_not_ok"]), rp)
        return False
    return expect(ctx, prefix + ":complete-and-ordered", "gather() of a registry with one vector of %d children" % n, summary_of(rs[4]), {"samples": n, "distinct": n, "total": n, "min": 1, "max": 1, "sorted": True}, rp)


def replay(rp):
    ctx = Ctx("bulk_replay", "quick", 0, "model_checking")
    rs = run_api(ctx, build_harness(), [{"id": 0, "calls": rp["calls"]}], "bulk")[0]
    for c, r in zip(rp["calls"], rs):
        print("  %-10s -> %s" % (c["op"], json.dumps(r)[:400]))
    print("verdict: see the summaries above against the expected values named in the violation (re-run the check to re-judge)")
    shutil.rmtree(ctx.work, ignore_errors=True)
    return 1
