"""C15 — descriptor identity is structural."""
from grpb import *
import random
from grpa import mc_module
from chars import *
LEVEL = "model_checking"


def run(ctx):
    exe = build_harness()
    quick = ctx.quick
    defs = {
        "MCNames": tla_set_of(["a", "az", "z", "aa"] if quick else ["a", "az", "z", "aa", "za", "a_"]),
        # help texts incl. two that differ only in a trailing / leading blank
        "MCHelps": tla_set_of(["a", "az", "a "] if quick else ["a", "az", "z", "aÿ", "a ", " a", "a\n"]),
        "MCLN": tla_set_of(["a", "A", "az"] if quick else ["a", "A", "z", "az"]),      # incl. two names that differ only in case
        # values incl. boundary-shifted splits around plain letters and around U+FF (whose scalar value is the library's separator byte)
        "MCVals": "{<<>>, <<LA>>, <<LZ>>, <<LA, LZ>>, <<YUML>>, <<LA, YUML>>, <<YUML, LA>>}" if quick else "StrUpTo({LA, LZ}, 2) \\cup {<<LA, LZ, LA>>, <<EACUTE>>, <<LA, EACUTE>>, <<YUML>>, <<LA, YUML>>, <<YUML, LA>>}",
        "MCTheorem": "RandomSubset(%d, Pool)" % (500 if quick else 1500),
    }
    mc = mc_module("MCDescGen", "DescGen, Randomization", defs)
    # TLC generates (and checks) initial states on one thread: the thorough pool is cut into slices run as parallel TLC processes
    parts = 1 if quick else 8
    cfgs = [("CONSTANTS\n  NameSet <- MCNames\n  HelpSet <- MCHelps\n  LN <- MCLN\n  ValSet <- MCVals\n  MaxCL = 2\n  MaxVL = 2\n  TheoremOn <- MCTheorem\n  PartN = %d\n  PartK = %d\n"
             "SPECIFICATION Spec\nINVARIANTS Emit Structural\nCHECK_DEADLOCK FALSE\n") % (parts, k) for k in range(parts)]
    import concurrent.futures as cf
    with cf.ThreadPoolExecutor(max_workers=parts) as ex:
        rs = list(ex.map(lambda kc: tlc(ctx, "DescGen", kc[1], mc_text=mc, mc_name="MCDescGen", workers=1 if parts > 1 else 8, label="gen%d" % kc[0], timeout=5000, heap="4g" if parts > 1 else "8g"), enumerate(cfgs)))
    cases = []
    for r in rs:
        if not r["ok"]:
            raise ToolError("DescGen failed: %s\n%s" % (r["violated"], r["output"][-3000:]))
        cs = printed_values(r["output"], "CASE")
        if len(cs) != r["distinct"]:
            raise ToolError("printed %d cases for %d states" % (len(cs), r["distinct"]))
        cases += cs
    if parts > 1:
        log("DescGen slices: %s descriptors" % [r["distinct"] for r in rs])
    pool_size = len(cases)
    del rs
    if len(cases) > 120000:
        # the thorough pool (several hundred thousand descriptors) is enumerated and its theorems checked by TLC; a seeded sample of it
        # is executed against the library
        cases = random.Random(ctx.seed + 15).sample(cases, 120000)
    jobs, meta = [], []
    R = 3 if quick else 6
    for ci, c in enumerate(cases):
        name, help_ = to_str(c["name"]), to_str(c["help"])
        cl = [[to_str(p[0]), to_str(p[1])] for p in c["cl"]]
        vl = [to_str(v) for v in c["vl"]]
        orders = [cl] if len(cl) < 2 else [cl, cl[::-1]]
        vi = 0
        for o in orders:
            for rep in range(R if len(cl) >= 2 else 1):
                calls = [{"op": "desc", "as": "d", "fq_name": name, "help": help_, "var": vl, "const": o}, {"op": "descs", "obj": "d"}]
                # the same descriptor through a metric constructor
                if vl:
                    calls += [{"op": "counter_vec", "as": "m", "opts": {"name": name, "help": help_, "const_map": o}, "labels": vl}, {"op": "descs", "obj": "m"}]
                else:
                    calls += [{"op": "gauge", "as": "m", "opts": {"name": name, "help": help_, "const": o}}, {"op": "descs", "obj": "m"}]
                # ... and through the histogram constructors (a third construction path: HistogramOpts::describe)
                if vl:
                    calls += [{"op": "histogram_vec", "as": "hm", "opts": {"name": name, "help": help_, "const_map": o}, "labels": vl}, {"op": "descs", "obj": "hm"}]
                else:
                    calls += [{"op": "histogram", "as": "hm", "opts": {"name": name, "help": help_, "const": o}}, {"op": "descs", "obj": "hm"}]
                jobs.append({"id": len(jobs), "calls": calls})
                meta.append((ci, vi))
                vi += 1
    res = run_api(ctx, exe, vary_builder_order(jobs, ctx.seed), "desc")
    # per case: all variants agree (insertion order / hash seed / constructor path independence)
    real = {}
    nvar = 0
    for j, (ci, vi) in zip(jobs, meta):
        rs = res[j["id"]]
        c = cases[ci]
        obs = []
        for k in (0, 2, 4):
            if "ok" in rs[k] and "ok" not in rs[k + 1]:
                ctx.violation("descriptor-unreadable", "the descriptor of a successfully built object could not be read: %s" % json.dumps(rs[k + 1])[:200], {"calls": j["calls"]})
                obs.append(None)
            elif "ok" in rs[k]:
                d = rs[k + 1]["ok"][0]
                obs.append((d["id"], d["dim"]))
            elif "panic" in rs[k]:
                ctx.violation("panic", "constructor panicked: %s" % rs[k], {"calls": j["calls"]})
                obs.append(None)
            else:
                obs.append(None)
        nvar += 1
        if obs[2] is not None and obs[0] is not None and obs[2] != obs[0]:
            ctx.violation("constructor-path-differs:histogram", "Desc::new and the histogram constructor disagree on identity/dimension for name=%r const=%r var=%r: %s vs %s" % (to_str(c["name"]), j["calls"][0]["const"], j["calls"][0]["var"], obs[0], obs[2]), {"calls": j["calls"]})
        if obs[0] != obs[1]:
            ctx.violation("constructor-path-differs", "Desc::new and the metric constructor disagree on identity/dimension for name=%r const=%r var=%r: %s vs %s" % (to_str(c["name"]), j["calls"][0]["const"], j["calls"][0]["var"], obs[0], obs[1]), {"calls": j["calls"]})
        prev = real.get(ci)
        if prev is None:
            real[ci] = (obs[0], j)
        elif prev[0] != obs[0]:
            ctx.violation("insertion-order-or-seed-dependent", "the same descriptor built twice (const labels inserted as %r vs %r) got different identity/dimension: %s vs %s" % (prev[1]["calls"][0]["const"], j["calls"][0]["const"], prev[0], obs[0]),
                          {"calls_a": prev[1]["calls"], "calls_b": j["calls"], "calls": j["calls"]})
    # equality pattern over all pairs == partition comparison, among descriptors the code accepted
    acc = [ci for ci in real if real[ci][0] is not None]
    nclasses = {}
    for what, idx, stream in (("identity", 0, "ids"), ("dimension", 1, "dims")):
        by_real, by_spec = {}, {}
        for ci in acc:
            by_real.setdefault(real[ci][0][idx], []).append(ci)
            by_spec.setdefault(json.dumps(cases[ci][stream]), []).append(ci)
        nclasses[what] = len(by_spec)
        # same real hash but different spec stream -> told apart by the spec, aliased by the code
        for h, members in by_real.items():
            streams = {}
            for ci in members:
                streams.setdefault(json.dumps(cases[ci][stream]), ci)
            if len(streams) > 1:
                a, b = list(streams.values())[:2]
                ctx.violation("%s-aliased" % what, "two descriptors that differ structurally share one %s: %s vs %s" % (what, show(cases[a]), show(cases[b])),
                              {"calls_a": real[a][1]["calls"], "calls_b": real[b][1]["calls"], "calls": real[a][1]["calls"], "expect": "different"})
        for sk, members in by_spec.items():
            hs = {}
            for ci in members:
                hs.setdefault(real[ci][0][idx], ci)
            if len(hs) > 1:
                a, b = list(hs.values())[:2]
                ctx.violation("%s-split" % what, "two structurally equal descriptors got different %s: %s vs %s" % (what, show(cases[a]), show(cases[b])),
                              {"calls_a": real[a][1]["calls"], "calls_b": real[b][1]["calls"], "calls": real[a][1]["calls"], "expect": "same"})
    # ---- code -> spec over strings outside the enumerated pool: long values and splits that are adversarial for
    # length-prefixed framing (a boundary moved by 2^8 or 2^16 bytes, the next length byte appearing as a character)
    from grpa import oracle
    batches = []

    def framing_batch(w):
        n = 256 ** w
        la = (n + 65) % 256
        A = chr(65)
        c2 = "p" * (n - 1) + A + "q" * 65
        ds = [{"name": "m", "help": "h", "cl": [["a", "x"], ["b", c2]], "vl": []},
              {"name": "m", "help": "h", "cl": [["a", "x" + A + "p" * (n - 1)], ["b", "q" * 65]], "vl": []},
              {"name": "m", "help": "h", "cl": [["a", "x" + A], ["b", "p" * (n - 1) + "q" * 65]], "vl": []},
              {"name": "m", "help": "h" + "p" * (n - 1) + A + "q" * 65, "cl": [], "vl": []},
              {"name": "m", "help": "h", "cl": [["p" * (n - 1) + "_" + "q" * 65, "v"]], "vl": []},
              {"name": "m" + "p" * (n - 1), "help": "h", "cl": [["a", "A" + "q" * 65]], "vl": []},
              {"name": "m", "help": "h", "cl": [["a", "p" * (n - 1) + "A" + "q" * 65]], "vl": []}]
        return ds
    batches.append(framing_batch(1))
    if not quick:
        batches.append(framing_batch(2))
    long_pool = ["", "a", "a" * 127, "a" * 128, "a" * 129, "a" * 255, "a" * 256, "a" * 257, "a" * 127 + "ÿ", "ÿ" + "a" * 127]
    batches.append([{"name": "m", "help": "h", "cl": [["a", v1], ["b", v2]], "vl": []} for v1 in long_pool[:6] for v2 in long_pool[:6]][:30])
    batches.append([{"name": "m" + n, "help": "h" + h, "cl": [], "vl": vl} for n in ("", "a" * 200) for h in ("", "a" * 200, "a" * 199 + "$a") for vl in ([], ["a"], ["a", "b"], ["b", "a"])])
    # fields run together with ANY joining character: a help text (or a constant-label value) that continues with a candidate
    # separator and the text of the next field must not alias a descriptor that has that text as a field of its own
    for c in ["ÿ", "\u00fe", "\u0000", "\u0001", "\u001f", ",", ";", "|", " ", "=", "$", "\n", "é"]:
        batches.append([{"name": "m", "help": "H" + c + "l", "cl": [], "vl": ["zz"]}, {"name": "m", "help": "H", "cl": [], "vl": ["l", "zz"]},
                        {"name": "m", "help": "H" + c + "l" + c + "zz", "cl": [], "vl": []}, {"name": "m", "help": "H", "cl": [["l", "v"]], "vl": ["zz"]},
                        {"name": "m", "help": "H" + c + "l", "cl": [["zz", "v"]], "vl": []}, {"name": "m", "help": "H" + c + "$l", "cl": [], "vl": ["zz"]},
                        {"name": "m", "help": "H", "cl": [["a", "x" + c + "y"]], "vl": []}, {"name": "m", "help": "H", "cl": [["a", "x"], ["b", "y"]], "vl": []},
                        {"name": "m", "help": "H", "cl": [["a", "x" + c], ["b", "y"]], "vl": []}, {"name": "m", "help": "H", "cl": [["a", "x"], ["b", c + "y"]], "vl": []},
                        {"name": "m", "help": "H", "cl": [["a", "x" + c + "y"], ["b", ""]], "vl": []}, {"name": "m", "help": "H", "cl": [["a", ""], ["b", "x" + c + "y"]], "vl": []}])
    # descriptors that differ only in the LAST byte(s) of a field that follows multi-byte characters (a key buffer sized in characters,
    # or any other byte/char confusion, cuts the tail), and help texts that differ only in blanks at either end
    for ch in ["é", "ÿ", "你", "\U0001F600", "éé", "你你"]:
        batches.append([{"name": "m", "help": "H", "cl": [["a", ch + "1"]], "vl": []}, {"name": "m", "help": "H", "cl": [["a", ch + "2"]], "vl": []},
                        {"name": "m", "help": "H", "cl": [["a", ch], ["b", "1"]], "vl": []}, {"name": "m", "help": "H", "cl": [["a", ch], ["b", "2"]], "vl": []},
                        {"name": "m", "help": "H" + ch, "cl": [], "vl": ["zone_a"]}, {"name": "m", "help": "H" + ch, "cl": [], "vl": ["zone_b"]},
                        {"name": "m", "help": "H" + ch + "C", "cl": [], "vl": []}, {"name": "m", "help": "H" + ch + "F", "cl": [], "vl": []},
                        {"name": "m", "help": "H" + ch, "cl": [["zone_a", ""]], "vl": []}, {"name": "m", "help": "H" + ch, "cl": [["zone_b", ""]], "vl": []}])
    batches.append([{"name": "m", "help": h, "cl": [], "vl": []} for h in ("Jobs done.", "Jobs done. ", " Jobs done.", "Jobs done.\n", "Jobs done.\t", " ", "  ", "Jobs  done.")])
    # boundary shifts with NOTHING between the fields: one word cut at every pair of positions into (help, first name, second name) for
    # constant and for variable labels, into (name, first value, second value), and a help text ending in the marker of variable labels
    w = "abcdef"
    cuts = [(i, j) for i in range(1, len(w)) for j in range(i + 1, len(w))]
    batches.append([{"name": "m", "help": w[:i], "cl": [[w[i:j], "v"], [w[j:], "v"]], "vl": []} for i, j in cuts] + [{"name": "m", "help": w[:i], "cl": [[w[i:], "v"]], "vl": []} for i in range(1, len(w))])
    batches.append([{"name": "m", "help": w[:i], "cl": [], "vl": [w[i:j], w[j:]]} for i, j in cuts] + [{"name": "m", "help": w[:i], "cl": [], "vl": [w[i:]]} for i in range(1, len(w))]
                   + [{"name": "m", "help": w[:i] + "$", "cl": [[w[i:], "v"]], "vl": []} for i in range(1, len(w))])
    batches.append([{"name": w[:i], "help": "h", "cl": [["k1", w[i:j]], ["k2", w[j:]]], "vl": []} for i in range(1, len(w)) for j in range(i, len(w) + 1)])
    # many constant labels (9, 12, 20 - beyond any small inline capacity), the same descriptor built from hash maps filled in different
    # orders (every map is a fresh one with its own hash seed), next to descriptors that differ from it in one value or one name
    ordr = random.Random(ctx.seed + 151)
    for nl in (9, 12, 20):
        base = [["k%02d" % i, "v%d" % i] for i in range(nl)]
        many = []
        for _ in range(5):
            o = list(base); ordr.shuffle(o)
            many.append({"name": "m", "help": "h", "cl": o, "vl": []})
        many.append({"name": "m", "help": "h", "cl": base[:-1] + [[base[-1][0], "other"]], "vl": []})
        many.append({"name": "m", "help": "h", "cl": base[:-1] + [["k99", base[-1][1]]], "vl": []})
        many.append({"name": "m", "help": "h", "cl": base[:-1], "vl": [base[-1][0]]})
        batches.append(many)
    ojobs = []
    for bi, ds in enumerate(batches):
        for di, dsc in enumerate(ds):
            ojobs.append({"id": len(ojobs), "calls": [{"op": "desc", "as": "d", "fq_name": dsc["name"], "help": dsc["help"], "var": dsc["vl"], "const": dsc["cl"]}, {"op": "descs", "obj": "d"}], "b": bi, "d": di})
    ores = run_api(ctx, exe, [{"id": j["id"], "calls": j["calls"]} for j in ojobs], "long")
    recs = [{"descs": []} for _ in batches]
    for j in ojobs:
        rs = ores[j["id"]]
        if "ok" not in rs[0]:
            continue
        dsc = batches[j["b"]][j["d"]]
        real_d = rs[1]["ok"][0]
        # (scalar values, not the ranks of chars.py: DescOracle only compares and sorts, and the order must be the code's byte order for
        # every character - UTF-8 byte order is scalar value order)
        sv = lambda t: [1000 + ord(ch) for ch in t]
        recs[j["b"]]["descs"].append({"name": sv(dsc["name"]), "help": sv(dsc["help"]), "cl": [[sv(n), sv(v)] for n, v in dsc["cl"]], "vl": [sv(v) for v in dsc["vl"]],
                                      "id": real_d["id"], "dim": real_d["dim"]})
    rej = oracle(ctx, "DescOracle", "AllOK", recs, "long", chunk=1)
    for i in sorted(rej):
        ctx.violation("long-or-framing-adversarial-strings", "identity / dimension pattern of batch %d (long strings, length-framing adversarial splits) differs from the structural one" % i,
                      {"calls": [c for j in ojobs if j["b"] == i for c in j["calls"]][:40], "expect": "pattern"})
    nvar += sum(len(r["descs"]) for r in recs)
    ctx.cov["long_string_batches_judged_by_DescOracle"] = len(recs)
    ctx.cov.update({
        "traces_validated_against_impl": nvar,
        "descriptors": len(cases), "accepted_by_code": len(acc), "variants_executed": nvar, "classes": nclasses,
        "pairs_covered_by_partition_comparison": len(acc) * (len(acc) - 1) // 2,
        "samples": [show(cases[i]) for i in (0, len(cases) // 3, len(cases) - 1)],
        "exhaustive": pool_size == len(cases), "pool_enumerated_by_TLC": pool_size,
        "rule": "every descriptor of the TLC-enumerated pool (thorough: a seeded sample of 120000 of them) built with Desc::new and a metric constructor, with constant labels inserted in every order and in fresh hash maps; "
                "partition of real id / dim_hash compared with the partition by the specification's IdStream / DimStream (= all pairs); theorem equal-stream <=> equal-key checked by TLC on a random sub-pool",
    })
    ctx.assumptions += ["equality up to collisions of the 64-bit hash itself", "strings over {a, z} (and e-acute in thorough) of length <= 2-3, <= 2 constant and <= 2 variable labels"]


def show(c):
    return {"name": to_str(c["name"]), "help": to_str(c["help"]), "const": [[to_str(p[0]), to_str(p[1])] for p in c["cl"]], "var": [to_str(v) for v in c["vl"]]}


def replay(path):
    d = json.load(open(path))
    rp = d["replay"]
    ctx = Ctx("C15_replay", "quick", 0, LEVEL)
    exe = build_harness()
    out = []
    for key in ("calls_a", "calls_b"):
        if key in rp:
            rs = run_api(ctx, exe, [{"id": 0, "calls": rp[key]}], "replay")[0]
            print("  ", rp[key][0], "->", rs[1].get("ok", rs[0]))
            out.append((rs[1]["ok"][0]["id"], rs[1]["ok"][0]["dim"]) if "ok" in rs[1] else None)
    shutil.rmtree(ctx.work, ignore_errors=True)
    if len(out) == 2 and None not in out:
        what = 0 if "identity" in d["key"] else 1
        same = out[0][what] == out[1][what]
        bad = (rp.get("expect") == "different" and same) or (rp.get("expect") == "same" and not same)
        if "expect" not in rp:
            bad = out[0] != out[1]
        print("verdict:", "violates" if bad else "conforms")
        return 1 if bad else 0
    print("verdict: see above")
    return 1
