"""Menu of collectors shared by C07 / C14 / C16: abstract form for GatherGen.tla, constructor calls for the harness."""
import itertools
from grpb import *
from grpa import mc_module
from chars import *

# id -> (ctor op, name, help, const pairs, var labels, type, children [(vals, updates)], extra)
MENU = {
    "c1": ("counter", "a", "az", [["Z", "a"]], [], "COUNTER", [([], 1)]),
    "c2": ("counter", "a", "az", [["Z", "z"]], [], "COUNTER", [([], 2)]),
    "c3": ("counter_vec", "a", "az", [["Z", "é"]], [], "COUNTER", [([], 32)]),
    "g1": ("gauge", "a", "az", [["Z", "az"]], [], "GAUGE", [([], 3)]),
    "v1": ("counter_vec", "aa", "a", [], ["a", "z"], "COUNTER", [(["", "a"], 1), (["a", ""], 2), (["z", "a"], 4), (["é", ""], 8), (["a", "a"], 16), (["你", "A"], 64)]),
    "v2": ("gauge_vec", "a_a", "a", [["Z", "a"]], ["a"], "GAUGE", []),
    "h1": ("histogram", "a0", "a z", [], [], "HISTOGRAM", [([], 2)]),
    "p1": ("pulling_gauge", "Za", "a", [], [], "GAUGE", [([], 7)]),
    "i1": ("int_gauge", "a:a", "a", [], [], "GAUGE", [([], 5)]),
    # collectors of the SAME non-counter kind sharing a name (merged families must keep the declared type)
    "ga": ("gauge", "zz", "a", [["Z", "a"]], [], "GAUGE", [([], 3)]),
    "gb": ("gauge_vec", "zz", "a", [["Z", "z"]], [], "GAUGE", [([], 9)]),
    "ha": ("histogram", "a9", "a", [["Z", "a"]], [], "HISTOGRAM", [([], 1)]),
    "hb": ("histogram", "a9", "a", [["Z", "z"]], [], "HISTOGRAM", [([], 3)]),
    # a vector that has children next to the child-less vector v2 of the same name and kind
    "v2b": ("gauge_vec", "a_a", "a", [["Z", "z"]], ["a"], "GAUGE", [(["z"], 4), ([""], 2)]),
    # collectors only an application can write: a consistent UNTYPED family from a custom collector, and a vector built on
    # a user-defined MetricVecBuilder through the documented extension point MetricVec::create
    "cu": ("custom_untyped", "z9", "a", [["Z", "a"]], [], "UNTYPED", [([], 7)]),
    "uv": ("user_gauge_vec", "zzz", "a", [["Z", "a"]], ["a"], "GAUGE", [(["z"], 4), (["a"], 2)]),
    "uw": ("gauge_vec", "zzz", "a", [["Z", "z"]], ["a"], "GAUGE", [(["z"], 8)]),
    "i2": ("int_counter", "Z_a", "a", [], [], "COUNTER", [([], 6)]),      # its name already starts with the registry prefix "Z_"
    "hv": ("histogram_vec", "z", "z", [["Z9", "0"]], ["a"], "HISTOGRAM", [(["z"], 1), (["a"], 2), ([""], 1)]),
}
MIXED = {"g1"}      # collectors of another kind under an already used name (C14 only)


def menu_tla(ids):
    items = []
    for i in ids:
        op, name, help_, const, var, typ, children = MENU[i]
        samples = []
        for vals, v in children:
            labels = "{" + ", ".join("<<%s, %s>>" % (tla_seq(n), tla_seq(x)) for n, x in (const + [[var[k], vals[k]] for k in range(len(var))])) + "}"
            samples.append("[labels |-> %s, v |-> %d, type |-> %s]" % (labels, v, tla_str(typ)))
        items.append("%s |-> [name |-> %s, help |-> %s, type |-> %s, samples |-> {%s}]" % (i, tla_seq(name), tla_seq(help_), tla_str(typ), ", ".join(samples)))
    return "[" + ", ".join(items) + "]"


def ctor_calls(i):
    op, name, help_, const, var, typ, children = MENU[i]
    opts = {"name": name, "help": help_, "const": const}
    calls = []
    if op == "pulling_gauge":
        return [{"op": op, "as": i, "name": name, "help": help_, "value": children[0][1]}]
    if op == "custom_untyped":
        return [{"op": "custom", "as": i, "descs": [{"fq_name": name, "help": help_, "const": const, "var": []}],
                 "families": [{"name": name, "help": help_, "type": "UNTYPED", "metrics": [{"labels": const, "untyped": children[0][1]}]}]}]
    if op in ("histogram", "histogram_vec"):
        opts["buckets"] = [1, 2]
    if op.endswith("_vec"):
        calls.append({"op": op, "as": i, "opts": opts, "labels": var})
        for k, (vals, v) in enumerate(children):
            ch = "%s_%d" % (i, k)
            calls.append({"op": "with", "vec": i, "vals": vals, "as": ch})
            calls += updates(op, ch, v)
    else:
        calls.append({"op": op, "as": i, "opts": opts})
        calls += updates(op, i, children[0][1])
    return calls


def updates(op, slot, v):
    if op.startswith("histogram"):
        return [{"op": "observe", "obj": slot, "v": 1 + 2 * k} for k in range(v)]     # v observations
    if "gauge" in op:
        return [{"op": "set", "obj": slot, "v": v}]
    return [{"op": "inc_by", "obj": slot, "v": v}]


def registry_call(prefix, common):
    if not prefix and not common:
        return {"op": "registry", "as": "r"}
    c = {"op": "registry", "as": "r", "custom": True}
    if prefix:
        c["prefix"] = prefix
    if common:
        c["labels"] = common
    return c


def scenario_calls(sel_order, prefix, common):
    calls = [registry_call(prefix, common)]
    for i in sel_order:
        calls += ctor_calls(i)
    for i in sel_order:
        calls.append({"op": "register", "reg": "r", "obj": i})
    calls.append({"op": "gather", "reg": "r"})
    return calls


def sample_value(typ, m):
    if typ == "UNTYPED":
        return m["untyped"].get("i")
    if typ == "HISTOGRAM":
        return m["hist"]["count"] if "hist" in m else None
    if typ == "GAUGE":
        return m["gauge"].get("i")
    return m["counter"].get("i")


def decode_case(c):
    g = []
    for f in c["g"]:
        g.append({"name": to_str(f["name"]), "help": to_str(f["help"]), "types": f["types"],
                  "samples": [{"labels": [[to_str(p[0]), to_str(p[1])] for p in s["labels"]], "common": [[to_str(p[0]), to_str(p[1])] for p in s["common"]], "v": s["v"], "type": s["type"]} for s in f["samples"]]})
    return {"sel": c["sel"], "prefix": to_str(c["prefix"]), "common": [[to_str(p[0]), to_str(p[1])] for p in c["common"]], "g": g}


def generate(ctx, ids, maxsize, prefixes, commons, label):
    d = {"MCMenu": menu_tla(ids), "MCPrefixes": tla_set_of(prefixes),
         "MCCommons": "{" + ", ".join("{" + ", ".join("<<%s, %s>>" % (tla_seq(n), tla_seq(v)) for n, v in cm) + "}" for cm in commons) + "}"}
    mc = mc_module("MCGatherGen" + label, "GatherGen", d)
    cfg = "CONSTANTS\n  Menu <- MCMenu\n  MaxSize = %d\n  PrefixSet <- MCPrefixes\n  CommonSet <- MCCommons\nSPECIFICATION GSpec\nINVARIANTS Emit Ordered AllThere Valid\nCHECK_DEADLOCK FALSE\n" % maxsize
    r = tlc(ctx, "GatherGen", cfg, mc_text=mc, mc_name="MCGatherGen" + label, workers=8, label="gen" + label, timeout=3000)
    if not r["ok"]:
        raise ToolError("GatherGen failed: %s\n%s" % (r["violated"], r["output"][-3000:]))
    cases = [decode_case(c) for c in printed_values(r["output"], "CASE")]
    if ctx.quick:
        # quick tier: every configuration of <= 2 collectors, and a seed-dependent third of the larger ones
        cases = [c for i, c in enumerate(cases) if len(c["sel"]) <= 2 or (i + ctx.seed) % 3 == 0]
    else:
        # thorough tier: every configuration of <= 3 collectors, a seed-dependent eighth of those with 4
        cases = [c for i, c in enumerate(cases) if len(c["sel"]) <= 3 or (i + ctx.seed) % 8 == 0]
    return cases


def chunks(lst, n):
    for i in range(0, len(lst), n):
        yield i, lst[i:i + n]
