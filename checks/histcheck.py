"""C02 / C03: histogram snapshots.  HistImpl (step level) + HistHB (happens-before ghost) checked by TLC,
replayed edge by edge into the real Histogram, every recorded history judged by HistCut."""
import zlib
from grpa import *

PC_OP = {
    "idle": "CallStart", "claim": "FetchAdd:sc", "bucket": "FetchAdd:bkt", "sumload": "Load:sum", "sumcas": "CasWeak:sum",
    "publish": "FetchAdd:cnt", "c_lock": "Lock:lock", "flip": "FetchAdd:sc", "spin": "CasWeak:cnt", "drainsum": "Swap:sum",
    "drainb": "Swap:bkt", "mergeb": "FetchAdd:bkt", "hotcnt": "FetchAdd:cnt", "hsumload": "Load:sum", "hsumcas": "CasWeak:sum",
    "c_unlock": "Unlock:lock", "s_lock": "Lock:lock", "s_sc": "Load:sc", "s_sum": "Load:sum", "s_unlock": "Unlock:lock", "n_load": "Load:sc",
}

INVS = "SnapshotIsCut SpinOnlyWaitsForInflight Quiescent ColdEmptyWhenUnlocked WantGrows"

# site (as reported by the shim: call/op/cell) -> Ord field of HistHB
SITE2ORD = {
    ("obs", "FetchAdd", "sc"): "claim", ("flush", "FetchAdd", "sc"): "claim",
    ("obs", "FetchAdd", "bkt"): "bucket", ("flush", "FetchAdd", "bkt"): "bucket",
    ("obs", "Load", "sum"): "f64load", ("flush", "Load", "sum"): "f64load", ("collect", "Load", "sum"): "f64load",
    ("obs", "CasWeak", "sum"): "f64cas", ("flush", "CasWeak", "sum"): "f64cas", ("collect", "CasWeak", "sum"): "f64cas",
    ("obs", "FetchAdd", "cnt"): "publish", ("flush", "FetchAdd", "cnt"): "publish",
    ("collect", "FetchAddFlip", "sc"): "flip", ("collect", "CasWeak", "cnt"): "spin",
    ("collect", "Swap", "sum"): "drain", ("collect", "Swap", "bkt"): "drain",
    ("collect", "FetchAdd", "bkt"): "merge", ("collect", "FetchAdd", "cnt"): "hotcnt",
}
ORD_CODE_DEFAULT = {"claim": "Acquire", "bucket": "Relaxed", "f64load": "Acquire", "f64cas": "Release", "f64casfail": "Relaxed",
                    "publish": "Release", "flip": "AcqRel", "spinok": "Acquire", "spinfail": "Acquire", "drain": "AcqRel",
                    "merge": "Relaxed", "hotcnt": "Relaxed"}
STRENGTH = {"Relaxed": 0, "Acquire": 1, "Release": 1, "AcqRel": 2, "SeqCst": 3}


def script_tla(scripts):
    def op(o):
        if o["k"] == "obs":
            return '[k |-> "obs", v |-> %d]' % o["v"]
        if o["k"] == "flush":
            return '[k |-> "flush", vs |-> %s]' % to_tla(o["vs"])
        return '[k |-> "%s"]' % o["k"]
    return " @@ ".join("(%s :> <<%s>>)" % (tla_str(t), ", ".join(op(o) for o in ops)) for t, ops in scripts.items())


def consts(sc, extra=""):
    return "  Threads = {%s}\n  Script <- MCScript\n  Bounds <- MCBounds\n  F64Atomic = FALSE\n%s" % (", ".join(tla_str(t) for t in sc["threads"]), extra)


def defs(sc):
    return {"MCScript": script_tla(sc["scripts"]), "MCBounds": to_tla(sc["bounds"])}


def harness_scen(sc, via="direct", share=None):
    obj = {"kind": "histogram", "bounds": sc["bounds"], "via": via}
    if share:
        obj["share"] = share
        obj["creator"] = sc["threads"][0]
    if "shift" in sc:
        obj["shift"] = sc["shift"]       # all values and bounds shifted down: stored sums are negative, reported sums shifted back
    return {"obj": obj, "threads": sc["threads"], "scripts": sc["scripts"], "budget": sc.get("budget", 4000)}


def merge_ords(results):
    """orderings reported by the shim, per site"""
    obs = {}
    for r in results:
        for site, o in r.get("ords", {}).items():
            obs.setdefault(site, set()).add(o)
    return obs


def ord_constant(obs):
    """Map observed orderings to HistHB's Ord constant; unknown sites keep the default."""
    ordc = dict(ORD_CODE_DEFAULT)
    seen = {}
    for site, os_ in obs.items():
        call, op, cell = site.split("/")
        f = SITE2ORD.get((call, op, cell))
        if f is None:
            continue
        for o in os_:
            if f in ("f64cas",):
                s, fl = o.split("/")
                seen.setdefault("f64cas", set()).add(s)
                seen.setdefault("f64casfail", set()).add(fl)
            elif f == "spin":
                s, fl = o.split("/")
                seen.setdefault("spinok", set()).add(s)
                seen.setdefault("spinfail", set()).add(fl)
            else:
                seen.setdefault(f, set()).add(o)
    for f, s in seen.items():
        # if one site class shows several orderings (e.g. the sum CAS in observe and in collect) take the weakest
        ordc[f] = min(s, key=lambda o: STRENGTH.get(o, 0))
    return ordc, {k: sorted(v) for k, v in seen.items()}


def check_model(ctx, sc, label, liveness=True, workers=8, timeout=1500):
    mc = mc_module("MC" + label, "HistImpl", defs(sc))
    cfg = "CONSTANTS\n%s\nSPECIFICATION Spec\nINVARIANTS %s\n%sCHECK_DEADLOCK FALSE\n" % (consts(sc), INVS, "PROPERTY Termination\n" if liveness else "")
    r = tlc(ctx, "HistImpl", cfg, mc_text=mc, mc_name="MC" + label, workers=workers, label="inv" + label, timeout=timeout)
    return r


def check_hb(ctx, sc, label, ordc, workers=8, timeout=1500):
    d = defs(sc)
    d["MCOrd"] = to_tla(ordc)
    mc = mc_module("MCHB" + label, "HistHB", d)
    cfg = "CONSTANTS\n%s\nSPECIFICATION HBSpec\nINVARIANTS HandOffOrdered SnapshotIsCut\nCHECK_DEADLOCK FALSE\n" % consts(sc, "  Ord <- MCOrd\n")
    return tlc(ctx, "HistHB", cfg, mc_text=mc, mc_name="MCHB" + label, workers=workers, label="hb" + label, timeout=timeout, expect_ok=False)


def judge(ctx, pid, sc, results, label, stats):
    """Apply the API-level oracle to every distinct recorded history; report drift, non-termination, panics."""
    for r in results:
        if r.get("nonterm"):
            stats["nonterm"] += 1
            ctx.violation("nonterminating", "a call did not return within the step budget (%s) under schedule %s" % ("deadlock" if r.get("deadlock") else "livelock", r["id"]),
                          {"scenario": harness_scen(sc, r.get("via", "direct"), r.get("share")), "job": {"id": r["id"], "mode": "choices", "choices": r["choices"]}})
        if r.get("panics"):
            ctx.violation("panic", "library code panicked: %s" % r["panics"], {"scenario": harness_scen(sc, r.get("via", "direct"), r.get("share")), "job": {"id": r["id"], "mode": "choices", "choices": r["choices"]}})
        if r.get("drift"):
            stats["drift"] += 1
            if len(ctx.drift) < 5:
                ctx.drift.append({"scenario": label, "job": r["id"], "drift": r["drift"]})
    hs = dedup_histories(results, {"bounds": sc["bounds"]})
    by_id = {r["id"]: r for r in results}
    good, bad_idx = [], []
    for i, (h, jid) in enumerate(hs):
        if not ints_only(h):
            ctx.violation("snapshot-not-integral", "a snapshot/read contains a value that no set of the (integer) observations explains: job %s" % jid,
                          {"scenario": harness_scen(sc, by_id[jid].get("via", "direct"), by_id[jid].get("share")), "job": {"id": jid, "mode": "choices", "choices": by_id[jid]["choices"]}, "history": h})
        else:
            good.append((h, jid))
    rej = oracle(ctx, "HistCut", "AllCuts", [h for h, _ in good], label)
    for i in sorted(rej):
        h, jid = good[i]
        r = by_id[jid]
        ctx.violation("history-rejected", "HistCut rejects the recorded history of job %s (scenario %s): some snapshot is not one consistent, prefix-closed, real-time-respecting cut" % (jid, label),
                      {"scenario": harness_scen(sc, r.get("via", "direct"), r.get("share")), "job": {"id": jid, "mode": "choices", "choices": r["choices"]}, "history": h})
    stats["histories"] += len(good)
    stats["rejected"] += len(rej)
    return good


def run_scenario(ctx, pid, exe, sc, label, stats, samples, model=True, nrandom=0, vias=("direct",), hb=False, liveness=True, nproc=8, check=True, pb=None):
    # 1. exhaustive model checking of the step-level model for this configuration
    r = check_model(ctx, sc, label, liveness=liveness) if check else {"ok": True, "actions_never": []}
    if not r["ok"]:
        # the model itself violates an invariant: this is a statement about the specification, not the code
        raise ToolError("step-level model %s violates %s (specification error)\n%s" % (label, r["violated"], r["output"][-2500:]))
    never = [a for a in r["actions_never"] if a not in sc.get("allow_never", [])]
    stats["never"][label] = never
    all_results = []
    # 2. edge-cover replay (model -> code)
    if model:
        jobs, g = model_jobs(ctx, "HistProj", defs(sc), consts(sc), lambda pc, node, t: PC_OP.get(pc), sc["threads"], label)
        res = run_jobs(ctx, exe, harness_scen(sc), jobs, "m" + label, nproc=nproc)
        for x in res:
            x["via"] = "direct"
        ndrift = sum(1 for x in res if x.get("drift"))
        stats["edges_total"] += g["edges"]
        stats["edges_matched"] += g["edges"] if ndrift == 0 else 0
        stats["paths"] += g["paths"]
        stats["steps"] += g["steps"]
        stats["conforming"] += len(res) - ndrift
        if ndrift:
            log("MODEL-DRIFT property=%s scenario=%s: %d of %d replayed paths left the model (first: %s)" % (pid, label, ndrift, len(res), json.dumps(next(x["drift"] for x in res if x.get("drift")))[:600]))
        all_results += res
        if res and len(samples) < 3:
            samples.append({"scenario": label, "job": res[0]["id"], "schedule": res[0]["choices"][:60], "calls": res[0]["calls"]})
    # 3. model-independent schedules (random / PCT), possibly through the vector and the registry
    for via in vias:
        if nrandom:
            jobs = random_jobs(label + via, nrandom, ctx.seed * 7919 + zlib.crc32((label + via).encode()) % 1000)
            res = run_jobs(ctx, exe, harness_scen(sc, via), jobs, "r" + label + via, nproc=nproc)
            for x in res:
                x["via"] = via
            all_results += res
            stats["random"] += len(res)
    # 3b. preemption-bounded systematic search on the real code (independent of the step-level model)
    pb = pb if pb is not None else ((2, 300) if ctx.quick else (3, 10000))
    if pb and pb[1]:
        for via in vias:
            # the systematic search shares ONE handle by reference between the threads (the other schedules give each thread a clone)
            res, info = pb_explore(ctx, exe, harness_scen(sc, via, "ref"), label + via, pb[0], pb[1], nproc=nproc)
            for x in res:
                x["via"] = via
                x["share"] = "ref"
            all_results += res
            stats["pb_executions"] = stats.get("pb_executions", 0) + info["executions"]
            stats["pb_complete"] = stats.get("pb_complete", 0) + (1 if info["complete"] else 0)
            stats["pb_searches"] = stats.get("pb_searches", 0) + 1
    good = judge(ctx, pid, sc, all_results, label, stats)
    # 4. memory-ordering clause (V2): orderings observed from the code parameterise HistHB
    obs = merge_ords(all_results)
    if hb:
        ordc, seen = ord_constant(obs)
        stats["orderings"] = seen
        rr = check_hb(ctx, sc, label, ordc)
        if rr["violated"] == "HandOffOrdered":
            ctx.violation("handoff-ordering", "with the memory orderings the code uses (%s) an update consumed by a collector's drain is not ordered before it by the count hand-off (HistHB.HandOffOrdered, TLC counterexample)" % json.dumps(ordc),
                          {"kind": "tlc-counterexample", "scenario": sc, "ord": ordc, "tlc_tail": rr["output"][-6000:]})
        elif not rr["ok"]:
            raise ToolError("HistHB run failed: " + rr["output"][-2000:])
    return all_results


def new_stats():
    return {"edges_total": 0, "edges_matched": 0, "paths": 0, "steps": 0, "conforming": 0, "random": 0, "histories": 0, "rejected": 0,
            "drift": 0, "nonterm": 0, "never": {}, "orderings": {}}


def finish_cov(ctx, stats, samples, rule):
    ctx.cov.update({
        "traces_validated_against_impl": stats["conforming"] + stats["histories"],
        "samples": samples or [{"note": "no sample"}],
        "conformance": {"edges_total": stats["edges_total"], "edges_matched": stats["edges_matched"], "paths_replayed": stats["paths"],
                        "steps_replayed": stats["steps"], "paths_conforming": stats["conforming"], "drift_paths": stats["drift"]},
        "preemption_bounded_search": {"searches": stats.get("pb_searches", 0), "executions": stats.get("pb_executions", 0), "searches_complete_within_bound": stats.get("pb_complete", 0),
                                      "bound": 2 if ctx.quick else 3, "what": "stateless search over the real code's schedules, all schedules with at most `bound` preemptions up to a cap; histories judged by HistCut"},
        "random_schedules": stats["random"], "distinct_histories_judged": stats["histories"], "histories_rejected": stats["rejected"],
        "orderings_observed": stats["orderings"], "actions_never_fired": stats["never"], "rule": rule,
    })
