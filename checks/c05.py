"""C05 — a metric vector keeps exactly one child per distinct label-value tuple."""
import itertools
import random
from grpb import *
from grpa import mc_module
from chars import *
LEVEL = "model_checking"
NAMES = ["l1", "l2", "l3"]
CONST = [["la", "k"]]
KINDS = ["counter_vec", "int_counter_vec", "gauge_vec", "histogram_vec", "local_counter_vec", "local_int_counter_vec", "local_histogram_vec"]


def upd(kind, slot, v):
    if kind.startswith("histogram"):
        return {"op": "observe", "obj": slot, "v": v}
    if kind.startswith("gauge"):
        return {"op": "add", "obj": slot, "v": v}
    return {"op": "inc_by", "obj": slot, "v": v}


def value_of(kind, m):
    if "histogram" in kind:
        return m["hist"]["sum"].get("i"), m["hist"]["count"]
    if kind.startswith("gauge"):
        return m["gauge"].get("i"), None
    return m["counter"].get("i"), None


def stretch(vals):
    """second concretisation of an abstract tuple: every value embedded in a long common head and tail (> 128 bytes), so that
    tuples differ only in the middle of long strings"""
    return [("h" * 90) + v + ("t" * 90) for v in vals]


def scenario(kind, arity, A, B, C, form="slice", order=None):
    base = kind.replace("local_", "")
    names = NAMES[:arity]
    opts = {"name": "m", "help": "h", "const": CONST}
    if "histogram" in kind:
        opts["buckets"] = [100]
    calls = [{"op": base, "as": "v", "opts": opts, "labels": names}]
    if kind.startswith("local_"):
        calls += [{"op": "local", "of": "v", "as": "L"},
                  {"op": "lv_inc_by", "obj": "L", "vals": A, "v": 1}, {"op": "lv_inc_by", "obj": "L", "vals": B, "v": 2}, {"op": "lflush", "obj": "L"},
                  {"op": "with", "vec": "v", "vals": C, "as": "c"}]
    else:
        calls += [{"op": "with", "vec": "v", "vals": A, "as": "a"}, upd(kind, "a", 1)]
        if form == "slice":
            calls.append({"op": "with", "vec": "v", "vals": B, "as": "b"})
        else:
            calls.append({"op": "with_map", "vec": "v", "pairs": [[names[i], B[i]] for i in order], "as": "b"})
        calls += [upd(kind, "b", 2), {"op": "with", "vec": "v", "vals": C, "as": "c"}]
    calls.append({"op": "collect", "obj": "v"})
    return calls


def expected_children(arity, final):
    exp = {}
    for t, v in final:
        vals = [to_str(x) for x in t]
        labels = tuple(sorted([(NAMES[i], vals[i]) for i in range(arity)] + [tuple(p) for p in CONST]))
        exp[labels] = v
    return exp


def run(ctx):
    exe = build_harness()
    quick = ctx.quick
    defs = {"MCVals": "StrUpTo({LA, LZ}, 2)" if quick else "StrUpTo({LA, LZ}, 2) \\cup {<<EACUTE>>, <<LA, EACUTE>>, <<CJK>>}",
            "MCArities": "{1, 2}", "MCThird": "<<UZ>>"}
    mc = mc_module("MCVecGen", "VecGen", defs)
    cfg = "CONSTANTS\n  ValSet <- MCVals\n  Arities <- MCArities\n  ThirdVal <- MCThird\n  Arity = 2\n  Tuples = {}\n  Amounts = {1}\nSPECIFICATION GSpec\nINVARIANTS Emit Injective\nCHECK_DEADLOCK FALSE\n"
    r = tlc(ctx, "VecGen", cfg, mc_text=mc, mc_name="MCVecGen", workers=8, label="gen", timeout=3000)
    if not r["ok"]:
        raise ToolError("VecGen failed: %s\n%s" % (r["violated"], r["output"][-3000:]))
    cases = printed_values(r["output"], "CASE")
    if not quick:
        # arity 3 over shorter strings
        defs3 = {"MCVals": "StrUpTo({LA, LZ}, 1)", "MCArities": "{3}", "MCThird": "<<UZ>>"}
        r3 = tlc(ctx, "VecGen", cfg, mc_text=mc_module("MCVecGen3", "VecGen", defs3), mc_name="MCVecGen3", workers=8, label="gen3", timeout=3000)
        cases += printed_values(r3["output"], "CASE")
    jobs, meta = [], []
    kinds = KINDS
    for ci, c in enumerate(cases):
        A, B, C = [to_str(x) for x in c["a"]], [to_str(x) for x in c["b"]], [to_str(x) for x in c["c"]]
        arity = len(A)
        for kind in kinds:
            if quick and arity == 2 and (ci + kinds.index(kind)) % 3 != ctx.seed % 3 and c["same"] == c["keyeq"] and "".join(A) != "".join(B):
                continue   # quick tier: sample the pairs that are not boundary-shifted
            jobs.append({"id": len(jobs), "calls": scenario(kind, arity, A, B, C)})
            meta.append((ci, kind, "slice"))
            if (ci + kinds.index(kind)) % 5 == ctx.seed % 5 or not quick:
                jobs.append({"id": len(jobs), "calls": scenario(kind, arity, stretch(A), stretch(B), stretch(C))})
                meta.append((ci, kind, "slice-long"))
            if not kind.startswith("local_") and arity >= 1:
                for order in itertools.permutations(range(arity)):
                    if quick and order == tuple(range(arity)) and ci % 2:
                        continue
                    jobs.append({"id": len(jobs), "calls": scenario(kind, arity, A, B, C, "map", list(order))})
                    meta.append((ci, kind, "map%s" % (list(order),)))
    res = run_api(ctx, exe, jobs, "vec")
    nok = 0
    for j, (ci, kind, form) in zip(jobs, meta):
        c = cases[ci]
        rs = res[j["id"]]
        bad = [x for x in rs if "ok" not in x]
        A, B = [to_str(x) for x in c["a"]], [to_str(x) for x in c["b"]]
        if bad:
            ctx.violation("request-failed", "%s: a well-formed request failed or panicked: %s" % (kind, bad[0]), {"calls": j["calls"]})
            continue
        exp = expected_children(len(A), c["final"])
        if form == "slice-long":
            exp = {tuple((n, ("h" * 90) + v + ("t" * 90)) if (n, v) not in [tuple(p) for p in CONST] else (n, v) for n, v in k): v2 for k, v2 in exp.items()}
        got = {}
        dup = False
        for fam in rs[-1]["ok"]:
            for m in fam["metrics"]:
                lab = tuple(tuple(p) for p in m["labels"])
                if lab in got:
                    dup = True
                got[lab] = value_of(kind, m)[0]
        if dup or got != exp:
            if c["same"]:
                key = "equal-tuples-two-children"
            elif len(got) < len(exp):
                key = "distinct-tuples-share-child"
            else:
                key = "child-labels-or-values-wrong"
            if key == "distinct-tuples-share-child" and "".join(A) == "".join(B):
                key += ":boundary-shift"
            ctx.violation(key, "%s (%s form): request %r add 1, request %r add 2: expected children %s, collected %s" % (kind, form, A, B, {k: v for k, v in exp.items()}, got), {"calls": j["calls"], "expected": [[list(k), v] for k, v in exp.items()]})
        else:
            nok += 1
    # malformed requests create nothing
    mal = []
    for kind in ["counter_vec", "gauge_vec", "histogram_vec", "int_counter_vec"]:
        opts = {"name": "m", "help": "h", "const": CONST}
        for arity in (1, 2):
            names = NAMES[:arity]
            base = [{"op": kind, "as": "v", "opts": opts, "labels": names}, {"op": "with", "vec": "v", "vals": ["a"] * arity, "as": "a"}]
            bads = [{"op": "with", "vec": "v", "vals": ["a"] * (arity + 1)}, {"op": "with", "vec": "v", "vals": ["a"] * (arity - 1)}, {"op": "with", "vec": "v", "vals": []},
                    {"op": "remove", "vec": "v", "vals": ["a"] * (arity + 1)},
                    {"op": "with_map", "vec": "v", "pairs": [[n, "q"] for n in names] + [["zz", "q"]]},
                    {"op": "with_map", "vec": "v", "pairs": [[n, "q"] for n in names[:-1]] + [["zz", "q"]]},
                    {"op": "with_map", "vec": "v", "pairs": [[n, "q"] for n in names[:-1]]},
                    {"op": "remove_map", "vec": "v", "pairs": [[n, "q"] for n in names[:-1]] + [["zz", "q"]]},
                    {"op": "with_map", "vec": "v", "pairs": []}]
            bads += [{"op": "with_map", "vec": "v", "pairs": [[n, "a"] for n in names] + [["zz", "q"]]},
                     {"op": "remove_map", "vec": "v", "pairs": [[n, "a"] for n in names] + [["zz", "q"]]},
                     {"op": "with_map", "vec": "v", "pairs": [[n, "a"] for n in names] + [["zz", "q"], ["yy", "r"]]}]
            if arity == 0:
                continue
            for b in bads:
                if b.get("vals") == ["a"] * arity:
                    continue
                mal.append({"id": len(mal), "calls": base + [{"op": "collect", "obj": "v"}, b, {"op": "collect", "obj": "v"}]})
    mres = run_api(ctx, exe, mal, "mal")
    for j in mal:
        rs = mres[j["id"]]
        if "err" not in rs[-2] or rs[-1] != rs[-3]:
            ctx.violation("malformed-request", "malformed request %s: result %s, children before %s after %s" % (j["calls"][-2], rs[-2], rs[-3], rs[-1]), {"calls": j["calls"]})
        else:
            nok += 1
    # the same rule at scale (thousands of label tuples per vector)
    import bulk
    nb = 0
    for n in ((3000,) if ctx.quick else (3000, 70000)):
        bj = bulk.vec_jobs(n)
        br = run_api(ctx, exe, [{"id": j["id"], "calls": j["calls"]} for j in bj], "bulk", nproc=3)
        nb += sum(1 for j in bj if bulk.judge_vec(ctx, j, br[j["id"]], "scale"))
    ctx.cov["scale_scenarios_conforming"] = nb
    # tuples that are close to each other in every way a key function could confuse, all in one vector
    aj = bulk.adversarial_vec_jobs(random.Random(ctx.seed * 13 + 5), ctx.quick)
    ar = run_api(ctx, exe, [{"id": j["id"], "calls": j["calls"]} for j in aj], "adv", nproc=4)
    ctx.cov["adversarial_pool_tuples"] = sum(len(j["tuples"]) for j in aj)
    ctx.cov["adversarial_pools_conforming"] = sum(1 for j in aj if bulk.judge_adversarial(ctx, j, ar[j["id"]], "pool"))
    ctx.cov.update({
        "traces_validated_against_impl": nok,
        "pairs": len(cases), "executions": len(jobs) + len(mal), "executions_conforming": nok,
        "boundary_shifted_pairs": sum(1 for c in cases if not c["same"] and sum(c["a"], []) == sum(c["b"], [])),
        "samples": [{"a": [to_str(x) for x in c["a"]], "b": [to_str(x) for x in c["b"]], "same": c["same"]} for c in (cases[1], cases[len(cases) // 2], cases[-2])],
        "exhaustive": not quick,
        "rule": "TLC enumerates all ordered pairs of label-value tuples (arity 1-2, thorough 3) over strings built from {a, z, e-acute, CJK} incl. empty and boundary-shifted ones, "
                "checks KeyStream injective and computes the expected children from Vec.tla; each pair executed on 7 vector kinds (slice form, map form in every key order, local variants) and the collected children compared",
    })
    ctx.assumptions += ["equality up to collisions of the 64-bit hash itself"]


def replay(path):
    d = json.load(open(path))
    rp = d["replay"]
    if rp.get("bulk"):
        import bulk
        return bulk.replay(rp)
    ctx = Ctx("C05_replay", "quick", 0, LEVEL)
    exe = build_harness()
    rs = run_api(ctx, exe, [{"id": 0, "calls": rp["calls"]}], "replay")[0]
    for c, r in zip(rp["calls"], rs):
        print("  ", json.dumps(c), "->", json.dumps(r)[:300])
    shutil.rmtree(ctx.work, ignore_errors=True)
    if "expected" in rp:
        kind = rp["calls"][0]["op"]
        if any(c["op"] == "local" for c in rp["calls"]):
            kind = "local_" + kind
        got = {}
        for fam in rs[-1].get("ok", []):
            for m in fam["metrics"]:
                got[tuple(tuple(p) for p in m["labels"])] = value_of(kind, m)[0]
        exp = {tuple(tuple(p) for p in k): v for k, v in rp["expected"]}
        print("expected", exp, "got", got)
        print("verdict:", "conforms" if got == exp else "violates Vec spec")
        return 0 if got == exp else 1
    bad = "err" not in rs[-2] or rs[-1] != rs[-3]
    print("verdict:", "violates" if bad else "conforms")
    return 1 if bad else 0
