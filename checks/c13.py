"""C13 — protobuf exposition decodes to the gathered state."""
import struct, copy, concurrent.futures as cf
from grpb import *
import c04
LEVEL = "translation_validation"
TYPENUM = {"COUNTER": 0, "GAUGE": 1, "SUMMARY": 2, "UNTYPED": 3, "HISTOGRAM": 4}


def groups(v):
    """canonical base-128 groups of a (u)int64 without trailing zero groups"""
    v &= (1 << 64) - 1
    g = []
    while v:
        g.append(v & 0x7f)
        v >>= 7
    return g


def dbl(f):
    return list(struct.pack("<Q", int(f["bits"])))


ZERO8 = [0] * 8


def canon_families(fams):
    out = []
    for f in fams:
        ms = []
        for m in f["metrics"]:
            labels = [[list(n.encode()), list(v.encode())] for n, v in m["labels"]]
            gauge, counter, untyped = [dbl(m["gauge"])], [dbl(m["counter"])], [dbl(m["untyped"]) if "untyped" in m else ZERO8]
            summary, hist = [[], ZERO8, []], [[], ZERO8, []]
            if "summary" in m:
                s = m["summary"]
                summary = [groups(s["count"]), dbl(s["sum"]), [[dbl(q), dbl(v)] for q, v in s["q"]]]
            if "hist" in m:
                h = m["hist"]
                hist = [groups(h["count"]), dbl(h["sum"]), [[groups(cc), dbl(ub)] for ub, cc in h["b"]]]
            ms.append([labels, gauge, counter, summary, untyped, groups(m["ts"]), hist])
        out.append([list(f["name"].encode()), list(f["help"].encode()), groups(TYPENUM[f["type"]]), ms])
    return out


def decode_with_tlc(ctx, recs, label):
    results = {}
    parts = []
    for off in range(0, len(recs), 60):
        tp = ctx.path("pb_%s_%d.ndjson" % (label, off))
        with open(tp, "w") as f:
            for r in recs[off:off + 60]:
                f.write(json.dumps({"id": str(r["id"]), "bytes": r["bytes"], "exp": r["exp"]}, separators=(",", ":")) + "\n")
        parts.append((off, tp, len(recs[off:off + 60])))

    def one(a):
        off, tp, n = a
        rt = tlc(ctx, "ProtoWire", "SPECIFICATION Spec\nINVARIANT Judge\nCHECK_DEADLOCK FALSE\n", workers=1, env={"HISTS": tp}, coverage=False, label="dec%s%d" % (label, off), count=False, timeout=3000, heap="3g")
        if not rt["ok"] or rt["distinct"] != n + 1:
            raise ToolError("ProtoWire run failed:\n" + rt["output"][-3000:])
        return rt
    with cf.ThreadPoolExecutor(max_workers=8) as ex:
        for rt in ex.map(one, parts):
            for x in printed_values(rt["output"], "RESULT"):
                results[int(x["id"])] = x["v"]
    return results


def run(ctx):
    exe = build_harness()
    base = c04.gen_jobs(ctx)
    jobs = []
    import random
    rnd = random.Random(ctx.seed + 13)
    # the TLA+ decoder costs about 0.1-1 ms per byte in TLC: the volume of very large inputs is bounded (every size class once, at
    # most ~700 kB of streams over 20 kB in a run; everything up to 20 kB always)
    budget = 700000
    seen_sizes = set()
    for j in base:
        big_n = j.get("pair", 0)
        if big_n > 70000:
            continue
        if big_n > 20000:
            if (big_n, j.get("where")) in seen_sizes or j.get("tag") == "huge-small" or budget < big_n:
                continue
            seen_sizes.add((big_n, j.get("where")))
            budget -= big_n
        if j.get("tag") == "large" and sum(len(f.get("metrics", [])) for c in j["calls"][-1:] for f in c.get("lit", []) if isinstance(f, dict)) > 3000:
            continue      # 5000-sample families are left to C04
        calls = [c for c in j["calls"] if c["op"] != "text_encode"]
        fj = calls.pop()                      # families_json (kept last but one)
        src = {k: v for k, v in fj.items() if k in ("lit", "reg", "fam")}
        if j["tag"] == "edited-after-encode":
            # [families F, (text encode removed), edits...] -> encode once BEFORE the edits as well
            calls.insert(1, {"op": "pb_encode", "fam": "F"})
        for k in sorted({rnd.randint(0, 30), rnd.randint(5, 400)}):
            calls.append(dict({"op": "pb_encode", "mode": "failing_writer", "after": k}, **src))
        calls.append(dict({"op": "pb_encode", "mode": "chunked", "after": rnd.choice([1, 2, 7, 100])}, **src))
        calls.append(fj)
        calls.append(dict({"op": "pb_encode"}, **src))
        jobs.append({"id": j["id"], "calls": calls, "tag": j["tag"]})
    # families of type UNTYPED and empty help are legal protobuf too
    extra = [{"name": "u", "help": "", "type": "UNTYPED", "metrics": [{"labels": [["a", "b"]], "ts": -1}, {"labels": [["a", "c"]], "untyped": F(2.5)}, {"labels": [], "untyped": F(float("-inf")), "ts": 7}]},
             {"name": "s", "help": "h", "type": "SUMMARY", "metrics": [{"labels": [], "summary": {"count": 2 ** 40, "sum": F(1.5), "q": [[F(0.5), F(float("nan"))]]}}]}]
    jobs.append({"id": 10 ** 6, "calls": [{"op": "families_json", "lit": extra}, {"op": "pb_encode", "lit": extra}], "tag": "untyped"})
    # refusal: a family without a name / without samples is refused, and nothing of it is written
    good = {"name": "g", "help": "h", "type": "GAUGE", "metrics": [{"labels": [], "gauge": F(1.0)}]}
    refusals = []
    for bad in ({"name": "", "help": "h", "type": "GAUGE", "metrics": [{"labels": [], "gauge": F(1.0)}]}, {"name": "e", "help": "h", "type": "COUNTER", "metrics": []}):
        for lst, npre in (([bad], 0), ([good, bad, good], 1), ([good, good, bad], 2)):
            refusals.append({"id": 10 ** 5 + len(refusals), "calls": [{"op": "families_json", "lit": lst[:npre]}, {"op": "pb_encode", "lit": lst}], "tag": "refusal", "npre": npre})
    # ... also when a family of the SAME name was encoded successfully just before (on the same thread, with the same encoder value and
    # with a new one): what an earlier call accepted does not vouch for a later family
    for k, bad in enumerate(({"name": "g", "help": "h", "type": "GAUGE", "metrics": []}, {"name": "g", "help": "other", "type": "COUNTER", "metrics": []})):
        for npre, lst in ((0, [bad]), (1, [good, bad])):
            refusals.append({"id": 10 ** 5 + len(refusals), "calls": [{"op": "pb_encode", "lit": [good]}, {"op": "pb_encode", "lit": [good, good]}, {"op": "families_json", "lit": lst[:npre]}, {"op": "pb_encode", "lit": lst}], "tag": "refusal", "npre": npre})
    res = run_api(ctx, exe, [{"id": j["id"], "calls": j["calls"]} for j in jobs + refusals], "pb", nproc=12)
    recs = []
    for j in jobs + refusals:
        rs = res[j["id"]]
        fj, enc = rs[-2], rs[-1]
        rp = {"calls": j["calls"]}
        if any("panic" in x for x in rs):
            ctx.violation("panic", "encoding panicked: %s" % [x for x in rs if "panic" in x][0], rp)
            continue
        if j["tag"] == "refusal":
            if "err" not in enc:
                ctx.violation("bad-family-accepted", "a family without name / without samples was encoded: %s" % json.dumps(enc)[:200], rp)
                continue
            recs.append({"id": j["id"], "bytes": list(bytes.fromhex(enc["written"])), "exp": canon_families(fj["ok"]), "job": j})
            continue
        if "ok" not in enc or "ok" not in fj:
            ctx.violation("encode-failed", "a valid family list was refused: %s" % (enc if "ok" not in enc else fj), rp)
            continue
        ch = rs[-3] if len(rs) >= 3 else {}
        if len(rs) >= 3 and j["calls"][-3].get("mode") == "chunked" and ("ok" not in ch or ch["ok"]["hex"] != enc["ok"]["hex"]):
            ctx.violation("chunked-writer-differs", "a writer that accepts only a few bytes per call received a different stream (%s vs %d bytes)" % (len(ch.get("ok", {}).get("hex", "")) // 2 if "ok" in ch else ch, len(enc["ok"]["hex"]) // 2), rp)
            continue
        recs.append({"id": j["id"], "bytes": list(bytes.fromhex(enc["ok"]["hex"])), "exp": canon_families(fj["ok"]), "job": j})
    results = decode_with_tlc(ctx, recs, "d")
    nok = 0
    for r in recs:
        v = results.get(r["id"])
        if v is None:
            raise ToolError("no decoder verdict for stream %d" % r["id"])
        if v:
            ctx.violation(("refusal:" if r["job"]["tag"] == "refusal" else "decode:") + v.replace(" ", "-")[:40],
                          "ProtoWire (%s, %d bytes): %s" % (r["job"]["tag"], len(r["bytes"]), v), {"calls": r["job"]["calls"]})
        else:
            nok += 1
    # vacuity guard: flip one byte / append one byte / change one expected value -> must be rejected
    c1 = copy.deepcopy(recs[len(recs) // 2]); c1["id"] = 10 ** 6; c1["bytes"][len(c1["bytes"]) // 2] ^= 0x01
    c2 = copy.deepcopy(recs[0]); c2["id"] = 10 ** 6 + 1; c2["bytes"].append(0)
    c3 = copy.deepcopy(recs[1]); c3["id"] = 10 ** 6 + 2; c3["exp"][0][1] = c3["exp"][0][1] + [33]
    rr = decode_with_tlc(ctx, [c1, c2, c3], "corrupt")
    if any(v == "" for v in rr.values()):
        raise ToolError("vacuity guard: a corrupted stream was accepted by ProtoWire: %s" % rr)
    ctx.cov["nonblocking_sink_and_concurrent_encode_cases"] = c04.writer_and_thread_cases(ctx, exe, "pb")
    ctx.cov.update({
        "programs": len(recs), "disagreements_checked": len(recs), "disagreements_found": len(recs) - nok, "bytes_decoded_by_TLC": sum(len(r["bytes"]) for r in recs),
        "families": sum(len(r["exp"]) for r in recs), "refusal_cases": len(refusals), "corrupted_controls_rejected": 3,
        "samples": [{"tag": r["job"]["tag"], "first_bytes": r["bytes"][:40]} for r in (recs[0], recs[len(recs) // 2])],
        "explanation": "every recorded byte stream is decoded by the ProtoWire specification (schema-driven wire decoder evaluated by TLC) and must equal the gathered families; refused families must leave exactly the preceding families in the stream",
        "rule": "same family generators as C04 (exhaustive short strings, random adversarial Unicode, all f64 classes, library-produced families) plus UNTYPED/SUMMARY literals and refusal cases",
    })
    ctx.assumptions += ["field order and non-minimal varints are not constrained", "default build only (the encoder does not exist without the protobuf feature)"]


def replay(path):
    d = json.load(open(path))
    rp = d["replay"]
    ctx = Ctx("C13_replay", "quick", 0, LEVEL)
    exe = build_harness()
    rs = run_api(ctx, exe, [{"id": 0, "calls": rp["calls"]}], "replay")[0]
    fj, enc = rs[-2], rs[-1]
    print("  families:", json.dumps(fj)[:500])
    print("  encoder:", json.dumps(enc)[:500])
    hexs = enc.get("ok", {}).get("hex") if "ok" in enc else enc.get("written", "")
    if "ok" not in fj or hexs is None:
        print("verdict: violates"); return 1
    v = decode_with_tlc(ctx, [{"id": 0, "bytes": list(bytes.fromhex(hexs)), "exp": canon_families(fj["ok"])}], "replay")[0]
    print("verdict:", v or "accepted by ProtoWire")
    shutil.rmtree(ctx.work, ignore_errors=True)
    return 1 if v else 0
