"""C14 — a gathered family never mixes metric types."""
import random
from gathercommon import *
LEVEL = "model_checking"
PAYLOAD = {"COUNTER": "counter", "GAUGE": "gauge", "HISTOGRAM": "histogram", "SUMMARY": "summary", "UNTYPED": "untyped"}


def text_values(hexs):
    """sample lines of the text exposition -> {(name, labels-string): value-token}"""
    out = {}
    for line in bytes.fromhex(hexs).decode("utf-8").split("\n"):
        if not line or line.startswith("#"):
            continue
        head, _, val = line.rpartition(" ")
        out[head] = val
    return out


def run(ctx):
    exe = build_harness()
    ids = list(MENU)
    cases = generate(ctx, ids, 3 if ctx.quick else 4, ["", "Z"], [[], [["z0", "a"]]], "C14")
    rnd = random.Random(ctx.seed)
    R = 6 if ctx.quick else 12
    nok = 0
    types_seen = {}
    nmixed = 0
    njobs = 0
    for off, part in chunks(list(enumerate(cases)), 400):
        jobs, meta = [], []
        for ci, c in part:
            mixed = any(len(f["types"]) > 1 for f in c["g"])
            orders = list(itertools.permutations(sorted(c["sel"])))
            cap = 3 if ctx.quick else 6
            if len(orders) > cap:
                orders = rnd.sample(orders, cap)
            for o in orders:
                for rep in range(R if mixed else 1):
                    calls = scenario_calls(list(o), c["prefix"], c["common"]) + [{"op": "text_encode", "reg": "r"}]
                    jobs.append({"id": len(jobs), "calls": calls})
                    meta.append((ci, o, mixed))
        res = run_api(ctx, exe, jobs, "gather%d" % off, nproc=12)
        njobs += len(jobs)
        for j, (ci, o, mixed) in zip(jobs, meta):
            c = cases[ci]
            rs = res[j["id"]]
            rp = {"calls": j["calls"], "case": c}
            pre = "mixed-kinds-under-one-name" if mixed else "single-kind"
            nmixed += 1 if mixed else 0
            bad = [x for x in rs[:-1] if "ok" not in x]
            if bad:
                ctx.violation(pre + ":call-failed", "a call failed: %s" % bad[0], rp)
                continue
            fams = rs[-2]["ok"]
            ok = True
            for f in fams:
                want = PAYLOAD[f["type"]]
                for m in f["metrics"]:
                    if "present" in m and m["present"] != [want]:
                        ok = False
                        ctx.violation(pre + ":payload", "registry %s order %s: family %s declared %s holds a sample %s carrying %s" % (sorted(c["sel"]), list(o), f["name"], f["type"], m["labels"], m["present"]), rp)
                        break
                prev = types_seen.setdefault((ci, f["name"]), (f["type"], o))
                if prev[0] != f["type"]:
                    ok = False
                    ctx.violation(pre + ":type-varies", "family %s is %s for registration order %s and %s for %s (same content, fresh hash seeds)" % (f["name"], prev[0], list(prev[1]), f["type"], list(o)), rp)
            # the encoder prints each sample's real value
            if "ok" in rs[-1]:
                tv = text_values(rs[-1]["ok"]["hex"])
                for e in c["g"]:
                    for s_ in e["samples"]:
                        if s_["type"] == "HISTOGRAM":
                            continue
                        lab = sorted(s_["labels"] + s_["common"], key=lambda p: p[0])
                        cands = [v for h, v in tv.items() if h.split("{")[0] == e["name"] and all(('%s="%s"' % (n, x)) in h for n, x in lab)]
                        if str(s_["v"]) not in cands and ("%s" % float(s_["v"])) not in cands:
                            ok = False
                            ctx.violation(pre + ":printed-value", "text exposition of registry %s (order %s): sample %s%s has value %s but is printed as %s" % (sorted(c["sel"]), list(o), e["name"], lab, s_["v"], cands), rp)
                            break
            elif "err" in rs[-1] and any("UNTYPED" in f["types"] for f in c["g"]):
                pass      # the text format has no rendering for an untyped family: refusing it is the documented outcome (C17)
            elif "panic" in rs[-1] or "err" in rs[-1]:
                ok = False
                ctx.violation(pre + ":encode-failed", "text encoder failed on gathered families: %s" % rs[-1], rp)
            nok += 1 if ok else 0
        del res, jobs
        for ci, _ in part:
            for k in [k for k in types_seen if k[0] == ci]:
                types_seen.pop(k, None)
    # gather() is a function of what is registered NOW: a name used by one kind, scraped, unregistered and then used by another
    # kind (a legal history; nothing is mixed at any time) is declared and printed with the new kind
    import c07
    single = [c for c in cases if not any(len(f["types"]) > 1 for f in c["g"])]
    byreg = {}
    for c in single:
        byreg.setdefault((c["prefix"], json.dumps(c["common"])), []).append(c)
    pairs = []
    for lst in byreg.values():
        for a in lst:
            ta = {f["name"]: f["types"] for f in a["g"]}
            for b in lst:
                if a is not b and any(f["name"] in ta and ta[f["name"]] != f["types"] for f in b["g"]):
                    pairs.append((a, b))
    rnd.shuffle(pairs)
    pairs = pairs[:60 if ctx.quick else 3000]
    hjobs = []
    for k, (a, b) in enumerate(pairs):
        oa, ob = sorted(a["sel"]), sorted(b["sel"])
        rnd.shuffle(oa); rnd.shuffle(ob)
        calls = [registry_call(a["prefix"], a["common"])]
        for i in dict.fromkeys(oa + ob):
            calls += ctor_calls(i)
        calls += [{"op": "register", "reg": "r", "obj": i} for i in oa] + [{"op": "gather", "reg": "r"}, {"op": "text_encode", "reg": "r"}]
        calls += [{"op": "unregister", "reg": "r", "obj": i} for i in oa]
        calls += [{"op": "register", "reg": "r", "obj": i} for i in ob] + [{"op": "gather", "reg": "r"}, {"op": "text_encode", "reg": "r"}]
        hjobs.append({"id": k, "calls": calls})
    hres = run_api(ctx, exe, hjobs, "hist", nproc=8)
    nhist = 0
    for j, (a, b) in zip(hjobs, pairs):
        rs = hres[j["id"]]
        rp = {"calls": j["calls"], "case": b}
        if any("ok" not in x for x in rs[:-1]) and not any("UNTYPED" in f["types"] for f in a["g"] + b["g"]):
            ctx.violation("history:call-failed", "a call of a legal register / gather / unregister / register history failed: %s" % [x for x in rs if "ok" not in x][0], rp)
            continue
        g2 = rs[-2]
        if "ok" not in g2:
            continue
        why = c07.compare(b, g2["ok"])
        bad_payload = [(f["name"], f["type"], m["present"]) for f in g2["ok"] for m in f["metrics"] if "present" in m and m["present"] != [PAYLOAD[f["type"]]]]
        if why or bad_payload:
            ctx.violation("history:stale-kind", "registry first holding %s (scraped, then unregistered) and now holding %s: gather() does not describe the current content — %s" % (
                sorted(a["sel"]), sorted(b["sel"]), why or "family/type/payload %s" % bad_payload[:2]), rp)
            continue
        if "ok" in rs[-1]:
            tv = text_values(rs[-1]["ok"]["hex"])
            wrong = None
            for e in b["g"]:
                for s_ in e["samples"]:
                    if s_["type"] == "HISTOGRAM":
                        continue
                    lab = sorted(s_["labels"] + s_["common"], key=lambda p: p[0])
                    cands = [v for h, v in tv.items() if h.split("{")[0] == e["name"] and all(('%s="%s"' % (n, x)) in h for n, x in lab)]
                    if str(s_["v"]) not in cands and ("%s" % float(s_["v"])) not in cands:
                        wrong = (e["name"], lab, s_["v"], cands)
            if wrong:
                ctx.violation("history:printed-value", "registry first holding %s, now %s: sample %s%s has value %s but is printed as %s" % (sorted(a["sel"]), sorted(b["sel"]), wrong[0], wrong[1], wrong[2], wrong[3]), rp)
                continue
        nhist += 1
    ctx.cov["kind_swap_histories_conforming"] = nhist
    # several registries scraped and encoded by ONE call: families of the same name (of the same or of different kinds) end up next to
    # each other in the list; each is still printed under its own declared type with its samples' real values
    mjobs = []
    kinds = {"counter": ("COUNTER", "inc_by"), "gauge": ("GAUGE", "set"), "int_gauge": ("GAUGE", "set"), "int_counter": ("COUNTER", "inc_by")}
    pairs_k = [(a, b) for a in kinds for b in kinds]
    for k, (ka, kb) in enumerate(pairs_k):
        calls = [{"op": "registry", "as": "r1"}, {"op": "registry", "as": "r2"}, {"op": "registry", "as": "r3"},
                 {"op": ka, "as": "m1", "opts": {"name": "q", "help": "h", "const": [["part", "app"]]}}, {"op": kinds[ka][1], "obj": "m1", "v": 5},
                 {"op": kb, "as": "m2", "opts": {"name": "q", "help": "h", "const": [["part", "db"]]}}, {"op": kinds[kb][1], "obj": "m2", "v": 7},
                 {"op": "gauge", "as": "m3", "opts": {"name": "zz", "help": "h"}}, {"op": "set", "obj": "m3", "v": 9},
                 {"op": "register", "reg": "r1", "obj": "m1"}, {"op": "register", "reg": "r2", "obj": "m2"}, {"op": "register", "reg": "r3", "obj": "m3"},
                 {"op": "families_concat", "as": "F", "regs": ["r1", "r2", "r3"] if k % 2 == 0 else ["r3", "r1", "r2"]},
                 {"op": "families_json", "fam": "F"}, {"op": "text_encode", "fam": "F"}]
        mjobs.append({"id": k, "calls": calls, "kinds": (ka, kb)})
    mres = run_api(ctx, exe, [{"id": j["id"], "calls": j["calls"]} for j in mjobs], "multi", nproc=2)
    nmulti = 0
    for j in mjobs:
        rs = mres[j["id"]]
        rp = {"calls": j["calls"], "case": {}}
        if any("ok" not in x for x in rs):
            ctx.violation("several-registries:call-failed", "a call failed: %s" % [x for x in rs if "ok" not in x][0], rp)
            continue
        text = bytes.fromhex(rs[-1]["ok"]["hex"]).decode("utf-8")
        tv = text_values(rs[-1]["ok"]["hex"])
        want = {'q{part="app"}': "5", 'q{part="db"}': "7", "zz": "9"}
        types = [l.split(" ")[2:] for l in text.split("\n") if l.startswith("# TYPE")]
        want_types = [[f["name"], f["type"].lower()] for f in rs[-2]["ok"]]
        # (a repeated header for an adjacent family of the same name AND type carries no information: either rendering is accepted)
        def squeeze(xs):
            return [x for i, x in enumerate(xs) if i == 0 or x != xs[i - 1]]
        if {k: tv.get(k) for k in want} != want or squeeze(types) != squeeze(want_types):
            ctx.violation("several-registries:printed-value", "a %s q{part=app}=5 and a %s q{part=db}=7 from two registries encoded by one call: printed %s with TYPE lines %s (families given: %s)" % (
                j["kinds"][0], j["kinds"][1], {k: tv.get(k) for k in want}, types, want_types), rp)
            continue
        nmulti += 1
    ctx.cov["several_registries_one_encode_conforming"] = nmulti
    ctx.cov.update({
        "traces_validated_against_impl": nok, "configurations": len(cases), "gathers": njobs, "gathers_mixed_kind_configurations": nmixed, "gathers_conforming": nok,
        "samples": [cases[len(cases) // 3]],
        "rule": "GatherGen configurations incl. a gauge sharing name/help with counters (different constant-label values); every sample's populated payload must match the family's declared type, "
                "the type must not vary over registration orders / hash seeds, the text encoder must print every sample's real value",
    })
    ctx.assumptions += ["payload presence is visible only in the protobuf-backed data model (default features)"]


def replay(path):
    d = json.load(open(path))
    rp = d["replay"]
    ctx = Ctx("C14_replay", "quick", 0, LEVEL)
    exe = build_harness()
    bad = False
    types = {}
    for k in range(12):
        rs = run_api(ctx, exe, [{"id": 0, "calls": rp["calls"]}], "replay")[0]
        for f in rs[-2].get("ok", []):
            types.setdefault(f["name"], set()).add(f["type"])
            for m in f["metrics"]:
                if "present" in m and m["present"] != [PAYLOAD[f["type"]]]:
                    bad = True
                    if k == 0:
                        print("  family", f["name"], f["type"], "sample", m["labels"], "carries", m["present"])
    print("  family types over 12 fresh registries:", {k: sorted(v) for k, v in types.items()})
    bad = bad or any(len(v) > 1 for v in types.values())
    print("verdict:", "violates" if bad else "conforms")
    shutil.rmtree(ctx.work, ignore_errors=True)
    return 1 if bad else 0
