"""C01 — counter increments are never lost and never go backwards."""
from atomcheck import *
LEVEL = "model_checking"

F2 = {"flavor": "f64", "kind": "counter", "counter": True, "threads": ["t1", "t2"],
      "scripts": {"t1": [{"k": "incby", "v": 1}, {"k": "get"}, {"k": "incby", "v": 4}], "t2": [{"k": "incby", "v": 2}, {"k": "get"}]}}
I2 = dict(F2, flavor="int", kind="intcounter")
FL = {"flavor": "f64", "kind": "counter", "counter": True, "threads": ["t1", "t2"],
      "scripts": {"t1": [{"k": "lflush", "vs": [1, 4]}, {"k": "lflush", "vs": []}, {"k": "get"}], "t2": [{"k": "inc"} if False else {"k": "incby", "v": 2}, {"k": "lflush", "vs": [8]}, {"k": "get"}]}}
IL = dict(FL, flavor="int", kind="intcounter")
FR = {"flavor": "f64", "kind": "counter", "counter": True, "threads": ["t1", "t2"],
      "scripts": {"t1": [{"k": "incby", "v": 1}, {"k": "reset"}, {"k": "get"}], "t2": [{"k": "get"}, {"k": "incby", "v": 2}, {"k": "get"}]}}
F3 = {"flavor": "f64", "kind": "counter", "counter": True, "threads": ["t1", "t2", "t3"],
      "scripts": {"t1": [{"k": "incby", "v": 1}, {"k": "incby", "v": 8}], "t2": [{"k": "incby", "v": 2}, {"k": "get"}], "t3": [{"k": "get"}, {"k": "lflush", "vs": [4, 16]}, {"k": "get"}]}}
I3 = dict(F3, flavor="int", kind="intcounter")


# the same scripts at another magnitude: every increment is far below f64::EPSILON, sums stay exact
F2s = dict(F2, scale=2.0 ** -60)
FLs = dict(FL, scale=2.0 ** -1070)


# three overlapping plain inc() calls per flavour (equal amounts: judged by the bounds clause of CounterReads)
FI3 = {"flavor": "f64", "kind": "counter", "counter": False, "threads": ["t1", "t2", "t3"],
       "scripts": {"t1": [{"k": "inc"}, {"k": "inc"}], "t2": [{"k": "inc"}, {"k": "get"}], "t3": [{"k": "inc"}, {"k": "get"}]}}
II3 = dict(FI3, flavor="int", kind="intcounter")


# lock-freedom: one inc_by() whose compare-exchange loses 14 times in a row against a stream of increments
FS = {"flavor": "f64", "kind": "counter", "counter": False, "threads": ["t1", "t2"], "starve": [("t1", 14)], "budget": 6000,
      "scripts": {"t1": [{"k": "incby", "v": 1}, {"k": "get"}], "t2": [{"k": "incby", "v": 2}] * 16}}


# reads through the scrape path (Metric::metric, what collect() and gather() call)
FM = {"flavor": "f64", "kind": "counter", "counter": True, "threads": ["t1", "t2", "t3"],
      "scripts": {"t1": [{"k": "incby", "v": 1}, {"k": "get", "via": "metric"}, {"k": "incby", "v": 4}], "t2": [{"k": "incby", "v": 2}, {"k": "get", "via": "metric"}], "t3": [{"k": "get", "via": "metric"}, {"k": "get"}]}}
# a float counter incremented by +Inf: the value is +Inf from then on (sums saturate), everything else still applies
FX = {"flavor": "f64", "kind": "counter", "counter": False, "threads": ["t1", "t2", "t3"],
      "scripts": {"t1": [{"k": "incby", "v": "+Inf"}, {"k": "get"}], "t2": [{"k": "incby", "v": 1}, {"k": "get"}, {"k": "incby", "v": 2}], "t3": [{"k": "get"}, {"k": "lflush", "vs": [4]}, {"k": "get"}]}}


# ... also when the +Inf arrives through a local counter that is flushed more than once
FXL = {"flavor": "f64", "kind": "counter", "counter": False, "threads": ["t1", "t2"],
       "scripts": {"t1": [{"k": "lflush", "vs": [2, "+Inf"]}, {"k": "lflush", "vs": []}, {"k": "get"}, {"k": "lflush", "vs": [4]}], "t2": [{"k": "incby", "v": 1}, {"k": "get"}]}}


def run(ctx):
    exe = build_harness()
    stats, samples = new_stats(), []
    O = ("CounterReads", "AllReads")
    if ctx.quick:
        run_scenario(ctx, "C01", exe, F2, "F2", stats, samples, *O, model=True, nrandom=100, kinds=["counter", "countervec_child"])
        run_scenario(ctx, "C01", exe, I2, "I2", stats, samples, *O, model=True, nrandom=100, kinds=["intcounter", "intcountervec_child"])
        run_scenario(ctx, "C01", exe, FL, "FL", stats, samples, *O, model=True, nrandom=0, kinds=["counter"])
        run_scenario(ctx, "C01", exe, IL, "IL", stats, samples, *O, model=True, nrandom=0, kinds=["intcounter"])
        run_scenario(ctx, "C01", exe, FR, "FR", stats, samples, *O, model=True, nrandom=0, kinds=["counter"])
        run_scenario(ctx, "C01", exe, F2s, "F2s", stats, samples, *O, model=True, nrandom=50, kinds=["counter", "countervec_child"])
        run_scenario(ctx, "C01", exe, FLs, "FLs", stats, samples, *O, model=True, nrandom=0, kinds=["counter"])
        run_scenario(ctx, "C01", exe, FI3, "FI3", stats, samples, *O, model=True, nrandom=300, kinds=["counter", "countervec_child"])
        run_scenario(ctx, "C01", exe, II3, "II3", stats, samples, *O, model=False, nrandom=100, kinds=["intcounter"])
        run_scenario(ctx, "C01", exe, FS, "FS", stats, samples, *O, model=False, nrandom=10, kinds=["counter"], check=False)
        run_scenario(ctx, "C01", exe, FM, "FM", stats, samples, *O, model=False, nrandom=100, kinds=["counter", "intcounter"], check=False)
        run_scenario(ctx, "C01", exe, FX, "FX", stats, samples, *O, model=False, nrandom=100, kinds=["counter", "countervec_child"], check=False)
        run_scenario(ctx, "C01", exe, FXL, "FXL", stats, samples, *O, model=False, nrandom=40, kinds=["counter"], check=False)
    else:
        run_scenario(ctx, "C01", exe, FS, "FS", stats, samples, *O, model=False, nrandom=300, kinds=["counter", "countervec_child"], check=False)
        run_scenario(ctx, "C01", exe, FM, "FM", stats, samples, *O, model=False, nrandom=3000, kinds=["counter", "intcounter", "countervec_child"], check=False)
        run_scenario(ctx, "C01", exe, FX, "FX", stats, samples, *O, model=False, nrandom=3000, kinds=["counter", "countervec_child"], check=False)
        run_scenario(ctx, "C01", exe, FXL, "FXL", stats, samples, *O, model=False, nrandom=1000, kinds=["counter", "countervec_child"], check=False)
        run_scenario(ctx, "C01", exe, FI3, "FI3", stats, samples, *O, model=True, nrandom=5000, kinds=["counter", "countervec_child"])
        run_scenario(ctx, "C01", exe, II3, "II3", stats, samples, *O, model=True, nrandom=2000, kinds=["intcounter", "intcountervec_child"])
        for sc, lb in ((F2s, "F2s"), (FLs, "FLs"), (dict(F3, scale=2.0 ** -60), "F3s"), (dict(F2, scale=2.0 ** 900), "F2h")):
            run_scenario(ctx, "C01", exe, sc, lb, stats, samples, *O, model=True, nrandom=2000, kinds=["counter", "countervec_child"])
        for sc, lb, kinds in ((F2, "F2", ["counter", "countervec_child"]), (I2, "I2", ["intcounter", "intcountervec_child"]), (FL, "FL", ["counter", "countervec_child"]),
                              (IL, "IL", ["intcounter", "intcountervec_child"]), (FR, "FR", ["counter"]), (dict(FR, flavor="int", kind="intcounter"), "IR", ["intcounter"])):
            run_scenario(ctx, "C01", exe, sc, lb, stats, samples, *O, model=True, nrandom=2000, kinds=kinds)
        run_scenario(ctx, "C01", exe, F3, "F3", stats, samples, *O, model=True, nrandom=10000, kinds=["counter", "countervec_child"])
        run_scenario(ctx, "C01", exe, I3, "I3", stats, samples, *O, model=True, nrandom=10000, kinds=["intcounter", "intcountervec_child"])
    prove_core(ctx)
    finish_cov(ctx, stats, samples, "AtomImpl exhaustively checked by TLC (Atomicity, NoLostIncrement, ReadsExplained, Monotone, Termination; also with spurious CAS failure); "
               "every edge replayed in the real Counter/IntCounter (standalone and as a vector child; local flush); every distinct history judged by CounterReads")
    ctx.assumptions += ["sequentially consistent executions; per-location coherence of relaxed loads is assumed from the Rust memory model",
                        "2-3 threads, <= 3 calls each, increments are distinct powers of two, concretised at scales 1, 2^-60, 2^-1070 (thorough also 2^900)"]


def replay(path):
    return replay_generic("C01", path)


from atomcheck import replay as replay_generic
