"""C06 — registry admission is exact and a failed registration leaves no trace."""
import random
from grpb import *
from grpa import mc_module
LEVEL = "model_checking"


def D(n, h, cl, vl):
    return {"name": n, "help": h, "cl": cl, "vl": vl}


UNIV_Q = {
    "a1": [D("n1", "h1", "-", "0")], "a2": [D("n1", "h2", "-", "0")], "a3": [D("n1", "h1", "1", "0")], "a4": [D("n1", "h1", "2", "0")],
    "b1": [D("n2", "h1", "-", "0")], "b2": [D("n2", "h1", "-", "x")],
    "m1": [D("n2", "h2", "-", "0"), D("n1", "h1", "-", "0")], "m2": [D("n2", "h1", "-", "0"), D("n1", "h1", "1", "0")],
}
UNIV_T = dict(UNIV_Q, **{
    "a5": [D("n1", "h2", "1", "0")], "b3": [D("n2", "h1", "1", "x")], "m3": [D("n1", "h1", "2", "0"), D("n2", "h2", "2", "0")],
    "m4": [D("n3", "h1", "-", "0"), D("n1", "h1", "1", "0"), D("n2", "h1", "-", "0")],
})
# collectors whose own descriptors repeat / contradict each other (outcome unspecified): only in recorded traces
UNIV_X = {"u1": [D("n1", "h1", "-", "0"), D("n1", "h1", "-", "0")], "u2": [D("n3", "h1", "-", "0"), D("n3", "h2", "-", "0")],
          "u3": [D("n2", "h1", "1", "0"), D("n2", "h1", "-", "0")]}


def univ_tla(u):
    return "[" + ", ".join("%s |-> <<%s>>" % (c, ", ".join(to_tla(d) for d in ds)) for c, ds in u.items()) + "]"


def ctor_calls(cid, ds):
    """calls creating the real collector for abstract collector cid"""
    def opts(d):
        o = {"name": d["name"], "help": d["help"]}
        if d["cl"] != "-":
            o["const"] = [["k", d["cl"]]]
        return o
    if len(ds) == 1:
        d = ds[0]
        if d["vl"] == "0":
            return [{"op": "counter", "as": cid, "opts": opts(d)}]
        return [{"op": "counter_vec", "as": cid, "opts": opts(d), "labels": ["x"]}, {"op": "with", "vec": cid, "vals": ["v"]}]
    descs, fams = [], []
    for d in ds:
        cl = [["k", d["cl"]]] if d["cl"] != "-" else []
        var = ["x"] if d["vl"] != "0" else []
        descs.append({"fq_name": d["name"], "help": d["help"], "const": cl, "var": var})
        fams.append({"name": d["name"], "help": d["help"], "type": "COUNTER", "metrics": [{"labels": cl + ([["x", "v"]] if var else []), "counter": 1}]})
    return [{"op": "custom", "as": cid, "descs": descs, "families": fams}]


def shown_ids(gres, prefix=""):
    """(family name without the registry's prefix, constant-label value) of every gathered sample"""
    ids = set()
    for fam in gres["ok"]:
        if prefix:
            fam = dict(fam, name=fam["name"][len(prefix) + 1:] if fam["name"].startswith(prefix + "_") else "<unprefixed>" + fam["name"])
        for m in fam["metrics"]:
            k = "-"
            for n, v in m["labels"]:
                if n == "k" and v != "common":       # "common" = the registry-level label of the common-label variant
                    k = v
            ids.add((fam["name"], k))
    return ids


def expected_ids(univ, reg):
    return {(d["name"], d["cl"]) for c in reg for d in univ[c]}


def res_class(r):
    k = kind(r)
    return k if k in ("Ok", "AlreadyReg", "Panic") else "Err"


def run(ctx):
    exe = build_harness()
    univ = UNIV_Q if ctx.quick else UNIV_T
    L = 4 if ctx.quick else 4
    # ---- 1. TLC: design properties + all behaviours of length L as replay material
    mc = mc_module("MCRegistryGen", "RegistryGen", {"MCUniv": univ_tla(univ)})
    cfg = "CONSTANTS\n  Collectors <- MCUniv\n  CommonConst = FALSE\n  MaxLen = %d\nSPECIFICATION HSpec\nINVARIANTS Emit DistinctIds DimsAgree\nPROPERTY DimsStable\nCHECK_DEADLOCK FALSE\n" % L
    r = tlc(ctx, "RegistryGen", cfg, mc_text=mc, mc_name="MCRegistryGen", workers=8, label="gen", timeout=3000, heap="8g")
    if not r["ok"]:
        raise ToolError("RegistryGen failed: %s\n%s" % (r["violated"], r["output"][-3000:]))
    behaviours = printed_values(r["output"], "REPLAY")
    if not behaviours:
        raise ToolError("no behaviours printed")
    # the same universe on a registry created with the common label k: collectors carrying the constant label k are never
    # admitted and must leave no trace either (shorter histories)
    cfgc = cfg.replace("CommonConst = FALSE", "CommonConst = TRUE").replace("MaxLen = %d" % L, "MaxLen = 3")
    rc = tlc(ctx, "RegistryGen", cfgc, mc_text=mc, mc_name="MCRegistryGen", workers=8, label="gencommon", timeout=3000, heap="8g")
    if not rc["ok"]:
        raise ToolError("RegistryGen (common label) failed: %s\n%s" % (rc["violated"], rc["output"][-3000:]))
    common_behaviours = printed_values(rc["output"], "REPLAY")
    # thorough: additionally sample longer behaviours by simulation
    if not ctx.quick:
        cfg5 = cfg.replace("MaxLen = %d" % L, "MaxLen = 7")
        r2 = tlc(ctx, "RegistryGen", cfg5, mc_text=mc, mc_name="MCRegistryGen", workers=4, label="sim", simulate="num=40000", extra=["-depth", "8", "-seed", str(ctx.seed)], timeout=3000, coverage=False)
        behaviours += printed_values(r2["output"], "REPLAY")
    # ---- 2. replay every behaviour on a fresh real Registry (in chunks: the results are large)
    nconf = 0
    CH = 20000
    tagged = [(b, False) for b in behaviours] + [(b, True) for b in common_behaviours]
    for off in range(0, len(tagged), CH):
        chunk = [b for b, _ in tagged[off:off + CH]]
        commons = [cm for _, cm in tagged[off:off + CH]]
        jobs = []
        for i, b in enumerate(chunk):
            used = []
            for e in b:
                if e["c"] not in used:
                    used.append(e["c"])
            # every third plain history runs in a registry with a NAME PREFIX (admission is by the collectors' own names and dimensions,
            # whatever the registry adds to the names it exposes)
            prefix = "px" if not commons[i] and (i + ctx.seed) % 3 == 0 else ""
            calls = [{"op": "registry", "as": "r", "custom": True, "labels": [["k", "common"]]} if commons[i] else ({"op": "registry", "as": "r", "custom": True, "prefix": prefix} if prefix else {"op": "registry", "as": "r"})]
            for c in used:
                calls += ctor_calls(c, univ[c])
            pre = len(calls)
            for k, e in enumerate(b):
                calls.append({"op": "register" if e["op"] == "reg" else "unregister", "reg": "r", "obj": e["c"], "reversed": (k + i) % 2 == 1})
                calls.append({"op": "gather", "reg": "r"})
            jobs.append({"id": i, "calls": calls, "pre": pre, "prefix": prefix})
        res = run_api(ctx, exe, [{"id": j["id"], "calls": j["calls"]} for j in jobs], "replay%d" % off)
        for j, b in zip(jobs, chunk):
            rs = res[j["id"]]
            ok = True
            for x in rs[:j["pre"]]:
                if "ok" not in x:
                    raise ToolError("constructor failed in replay: %s" % x)
            for n, e in enumerate(b):
                rr, gg = rs[j["pre"] + 2 * n], rs[j["pre"] + 2 * n + 1]
                got = res_class(rr)
                want = e["res"]
                good = (got == want) or (want == "Err" and got in ("Err", "AlreadyReg"))
                if "ok" not in gg:
                    good = False
                    gids = None
                else:
                    gids = shown_ids(gg, j["prefix"])
                    if gids != expected_ids(univ, e["reg"]):
                        good = False
                if not good:
                    ok = False
                    hist = [[x["op"], x["c"]] for x in b[:n + 1]]
                    cls = classify(univ, b, n, got, want)
                    ctx.violation(cls, "history %s: call %d (%s %s) expected %s and registered set %s, real registry returned %s and gather shows %s" % (
                        hist, n + 1, e["op"], e["c"], want, sorted(e["reg"]), got, sorted(gids) if gids is not None else gg),
                        {"kind": "history", "universe": univ, "history": b[:n + 1], "calls": j["calls"][:j["pre"] + 2 * n + 2]})
                    break
            if ok:
                nconf += 1
        del res, jobs
    # ---- 3. impl -> spec: long random histories incl. unspecified collectors, validated against RegistryTrace
    full = dict(univ, **UNIV_X)
    rnd = random.Random(ctx.seed)
    ntr = 30 if ctx.quick else 400
    tlen = 60 if ctx.quick else 200
    tjobs, plans = [], []
    for i in range(ntr):
        cids = sorted(full)
        calls = [{"op": "registry", "as": "r"}]
        for c in cids:
            calls += ctor_calls(c, full[c])
        pre = len(calls)
        plan = []
        for _ in range(tlen):
            c = rnd.choice(cids)
            op = "reg" if rnd.random() < 0.6 else "unreg"
            plan.append((op, c))
            calls.append({"op": "register" if op == "reg" else "unregister", "reg": "r", "obj": c, "reversed": (len(calls) // 2) % 2 == 1})
            calls.append({"op": "gather", "reg": "r"})
        tjobs.append({"id": i, "calls": calls})
        plans.append((pre, plan))
    tres = run_api(ctx, exe, tjobs, "trace")
    ntrace_ok = 0
    events_total = 0
    for i, (pre, plan) in enumerate(plans):
        rs = tres[i]
        evs = [{"op": "new", "c": "-", "res": "Ok", "ids": []}]
        for n, (op, c) in enumerate(plan):
            rr, gg = rs[pre + 2 * n], rs[pre + 2 * n + 1]
            if "ok" not in gg:
                ctx.violation("gather-failed", "gather() failed/panicked: %s" % gg, {"kind": "trace", "universe": full, "plan": plan[:n + 1]})
                break
            evs.append({"op": op, "c": c, "res": res_class(rr), "ids": sorted([list(x) for x in shown_ids(gg)])})
        tp = ctx.path("trace_%d.ndjson" % i)
        with open(tp, "w") as f:
            for e in evs:
                f.write(json.dumps(e) + "\n")
        events_total += len(evs)
        mct = mc_module("MCRegistryTrace", "RegistryTrace", {"MCUniv": univ_tla(full)})
        cfgt = "CONSTANTS\n  Collectors <- MCUniv\n  CommonConst = FALSE\nSPECIFICATION TSpec\nPOSTCONDITION TraceAccepted\nCHECK_DEADLOCK FALSE\n"
        if i % 10 == 0 or not ctx.quick and i % 4 == 0:
            pass
        plans[i] = (pre, plan, tp, evs)
    # validate traces in batches: concatenate runs separated by "new" events (one JVM start per batch)
    batch = 10 if ctx.quick else 25
    idx = [i for i in range(len(plans)) if len(plans[i]) == 4]
    for off in range(0, len(idx), batch):
        part = idx[off:off + batch]
        tp = ctx.path("trace_batch_%d.ndjson" % off)
        with open(tp, "w") as f:
            for i in part:
                f.write(open(plans[i][2]).read())
        mct = mc_module("MCRegistryTrace", "RegistryTrace", {"MCUniv": univ_tla(full)})
        cfgt = "CONSTANTS\n  Collectors <- MCUniv\n  CommonConst = FALSE\nSPECIFICATION TSpec\nPOSTCONDITION TraceAccepted\nCHECK_DEADLOCK FALSE\n"
        rt = tlc(ctx, "RegistryTrace", cfgt, mc_text=mct, mc_name="MCRegistryTrace", workers=1, env={"TRACE": tp}, coverage=False, deque=True,
                 label="trace%d" % off, expect_ok=False, count=False, timeout=1800)
        m = re.search(r'TRACE-REJECTED-AT",\s*(\d+)', rt["output"])
        if m:
            at = int(m.group(1))
            # locate the run and the event inside the batch
            acc = 0
            for i in part:
                evs = plans[i][3]
                if at <= acc + len(evs):
                    n = at - acc - 1
                    plan = plans[i][1]
                    ctx.violation(classify_trace(full, evs, n), "recorded history is not a behaviour of Registry: run %d event %d %s (after %s)" % (i, n, evs[n], [(e["op"], e["c"], e["res"]) for e in evs[max(1, n - 6):n]]),
                                  {"kind": "trace", "universe": full, "plan": plan[:n], "events": evs[:n + 1]})
                    break
                acc += len(evs)
        elif not rt["ok"]:
            raise ToolError("RegistryTrace failed:\n" + rt["output"][-3000:])
        else:
            ntrace_ok += len(part)
    # ---- 3b. many multi-descriptor collectors with pairwise DISJOINT descriptors in one registry (Registry.tla: nothing conflicts, so
    # every registration succeeds, every unregister of a registered one succeeds, one of a never-registered one fails); names vary with
    # the seed so that the collectors' ids fall all over the 64-bit range
    rndd = random.Random(ctx.seed * 977 + 5)
    djobs = []
    for rep in range(4 if ctx.quick else 60):
        K = 10
        cols = {}
        for i in range(K):
            nd = rndd.choice([2, 2, 3])
            cols["m%d" % i] = [D("dj%d_%d_%d" % (rndd.randrange(10 ** 6), i, j), "h", rndd.choice(["-", "1"]), "0") for j in range(nd)]
        ghost = {"ghost": [D("gh%d_a" % rndd.randrange(10 ** 6), "h", "-", "0"), D("gh%d_b" % rndd.randrange(10 ** 6), "h", "-", "0")]}
        calls = [{"op": "registry", "as": "r"}]
        for c, ds in list(cols.items()) + list(ghost.items()):
            calls += ctor_calls(c, ds)
        order = sorted(cols)
        rndd.shuffle(order)
        plan = [("register", c, "Ok") for c in order] + [("unregister", "ghost", "Err")] + [("unregister", c, "Ok") for c in order[:K // 2]] + \
               [("unregister", order[0], "Err")] + [("register", c, "Ok") for c in order[:K // 2]] + [("register", order[-1], "Err")]
        marks = []
        for op, c, want in plan:
            marks.append((len(calls), op, c, want))
            calls += [{"op": op, "reg": "r", "obj": c, "reversed": rndd.random() < 0.3}, {"op": "gather", "reg": "r"}]
        djobs.append({"id": rep, "calls": calls, "marks": marks, "cols": cols})
    dres = run_api(ctx, exe, [{"id": j["id"], "calls": j["calls"]} for j in djobs], "disjoint", nproc=2)
    ndis = 0
    for j in djobs:
        rs = dres[j["id"]]
        reg = set()
        okj = True
        for pos, op, c, want in j["marks"]:
            got = "Ok" if "ok" in rs[pos] else "Panic" if "panic" in rs[pos] else "Err"
            if want == "Ok":
                reg = reg | {c} if op == "register" else reg - {c}
            names = sorted(f["name"] for f in rs[pos + 1].get("ok", []))
            wantn = sorted({d["name"] for c2 in reg for d in j["cols"][c2]})
            if got != want or names != wantn:
                ctx.violation("disjoint-collectors:%s" % op, "registry with %d multi-descriptor collectors of pairwise disjoint descriptors: %s %s returned %s (specification: %s); gather shows %d family names, %d expected" % (
                    len(j["cols"]), op, c, got, want, len(names), len(wantn)), {"kind": "calls", "calls": j["calls"][:pos + 2]})
                okj = False
                break
        ndis += 1 if okj else 0
    ctx.cov["disjoint_multi_descriptor_registries_conforming"] = ndis
    # ---- 4. beyond the sequential property: the same specification under concurrent register / unregister / gather / updates
    import regconc
    cs = regconc.run(ctx, exe)
    ctx.cov["concurrent_registry"] = cs
    ctx.cov.update({
        "traces_validated_against_impl": nconf + ntrace_ok + cs["conforming"] + cs["histories"],
        "behaviours_replayed": len(behaviours) + len(common_behaviours), "behaviours_on_common_label_registry": len(common_behaviours), "behaviours_conforming": nconf,
        "recorded_traces": len(plans), "recorded_trace_events": events_total, "recorded_traces_accepted": ntrace_ok,
        "samples": [{"behaviour": behaviours[len(behaviours) // 2]}, {"trace_prefix": plans[0][3][:8] if len(plans[0]) == 4 else []}],
        "exhaustive": True,
        "rule": "all histories of length %d over {register, unregister} x %d collectors (1-3 descriptors, overlapping names/help/constant labels/variable labels) "
                "replayed on fresh registries with result and gathered identities compared after every call; random %d-call histories incl. internally inconsistent collectors trace-validated" % (L, len(univ), tlen),
    })
    ctx.assumptions += ["descriptor universe: 2-3 names, 2 helps, one constant label with 2 values, one variable label", "64-bit hash collisions ignored"]


def classify(univ, b, n, got, want):
    """Key describing *why* the code and the spec part ways, so that one defect = one key."""
    # a failed registration earlier in the history of a collector that introduced a new name?
    e = b[n]
    if e["op"] == "reg" and want == "Ok" and got != "Ok":
        # was some earlier *refused* registration carrying a descriptor with this collector's name?
        names = {d["name"] for d in univ[e["c"]]}
        for p in b[:n]:
            if p["op"] == "reg" and p["res"] != "Ok" and names & {d["name"] for d in univ[p["c"]]}:
                return "failed-registration-leaves-dimension"
        return "register-refused-but-admissible"
    if e["op"] == "reg" and want != "Ok" and got == "Ok":
        return "register-admitted-but-inadmissible"
    if e["op"] == "unreg":
        return "unregister-outcome"
    if got == want or (want == "Err" and got in ("Err", "AlreadyReg")):
        return "gather-differs-from-registered-set"
    return "error-kind"


def classify_trace(univ, evs, n):
    e = evs[n]
    if e["op"] == "reg" and e["res"] != "Ok":
        names = {d["name"] for d in univ[e["c"]]}
        for p in evs[:n]:
            if p["op"] == "reg" and p["res"] != "Ok" and names & {d["name"] for d in univ[p["c"]]}:
                return "failed-registration-leaves-dimension"
    return "trace-rejected"


def replay(path):
    d = json.load(open(path))
    rp = d["replay"]
    ctx = Ctx("C06_replay", "quick", 0, LEVEL)
    exe = build_harness()
    if rp["kind"] == "calls":
        res = run_api(ctx, exe, [{"id": 0, "calls": rp["calls"]}], "replay")[0]
        for c, r in zip(rp["calls"], res):
            if c["op"] in ("register", "unregister", "gather"):
                print("  ", c["op"], c.get("obj", ""), "->", ("Ok" if "ok" in r else json.dumps(r)[:100]) if c["op"] != "gather" else sorted(f["name"] for f in r.get("ok", [])))
        print("verdict: the last register / unregister above is the call whose outcome (or the gather after it) departs from Registry.tla; re-run `bin/check C06`")
        shutil.rmtree(ctx.work, ignore_errors=True)
        return 1
    univ = rp.get("universe")
    if rp["kind"] == "concurrent":
        import regconc
        return regconc.replay(rp)
    if rp["kind"] == "history":
        res = run_api(ctx, exe, [{"id": 0, "calls": rp["calls"]}], "replay")[0]
        prefix = rp["calls"][0].get("prefix") or ""
        for c, r in zip(rp["calls"], res):
            if c["op"] in ("register", "unregister", "gather"):
                print("  ", c["op"], c.get("obj", ""), "->", res_class(r) if c["op"] != "gather" else sorted(shown_ids(r, prefix)))
        e = rp["history"][-1]
        got = res_class(res[-2])
        gids = shown_ids(res[-1], prefix)
        good = ((got == e["res"]) or (e["res"] == "Err" and got in ("Err", "AlreadyReg"))) and gids == expected_ids(univ, e["reg"])
        print("spec expects", e["res"], sorted(e["reg"]))
        print("verdict:", "conforms" if good else "violates Registry spec")
        shutil.rmtree(ctx.work, ignore_errors=True)
        return 0 if good else 1
    else:
        cids = sorted(univ)
        calls = [{"op": "registry", "as": "r"}]
        for c in cids:
            calls += ctor_calls(c, univ[c])
        pre = len(calls)
        plan = rp["plan"] + [[rp["events"][-1]["op"], rp["events"][-1]["c"]]]
        for op, c in plan:
            calls.append({"op": "register" if op == "reg" else "unregister", "reg": "r", "obj": c, "reversed": (len(calls) // 2) % 2 == 1})
            calls.append({"op": "gather", "reg": "r"})
        rs = run_api(ctx, exe, [{"id": 0, "calls": calls}], "replay")[0]
        evs = [{"op": "new", "c": "-", "res": "Ok", "ids": []}]
        for n, (op, c) in enumerate(plan):
            evs.append({"op": op, "c": c, "res": res_class(rs[pre + 2 * n]), "ids": sorted([list(x) for x in shown_ids(rs[pre + 2 * n + 1])])})
            print("  ", evs[-1])
        tp = ctx.path("trace.ndjson")
        with open(tp, "w") as f:
            for e in evs:
                f.write(json.dumps(e) + "\n")
        mct = mc_module("MCRegistryTrace", "RegistryTrace", {"MCUniv": univ_tla(univ)})
        cfgt = "CONSTANTS\n  Collectors <- MCUniv\n  CommonConst = FALSE\nSPECIFICATION TSpec\nPOSTCONDITION TraceAccepted\nCHECK_DEADLOCK FALSE\n"
        rt = tlc(ctx, "RegistryTrace", cfgt, mc_text=mct, mc_name="MCRegistryTrace", workers=1, env={"TRACE": tp}, coverage=False, deque=True, expect_ok=False, count=False)
        bad = "TRACE-REJECTED-AT" in rt["output"]
        print("verdict:", "rejected by RegistryTrace" if bad else "accepted by RegistryTrace")
        shutil.rmtree(ctx.work, ignore_errors=True)
        return 1 if bad else 0
