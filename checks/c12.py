"""C12 — local (unsync) metrics hand over exactly what they accumulated."""
import random
from grpb import *
from grpa import mc_module
LEVEL = "model_checking"
HANDLES = ["h1", "h2", "h3"]
VHANDLES = ["w1", "w2"]
KEYS = ["a", "b"]


def consts(kind, maxid=6):
    return ("  Kind = %s\n  Handles = {%s}\n  VHandles = {%s}\n  Keys = {%s}\n  MaxId = %d\n  FirstH = \"h1\"\n  FirstVH = \"w1\"\n" %
            (tla_str(kind), ", ".join(map(tla_str, HANDLES)), ", ".join(map(tla_str, VHANDLES)), ", ".join(map(tla_str, KEYS)), maxid))


class Tr:
    """translation of abstract events to API calls for one flavour"""

    def __init__(self, kind, flavour):
        # flavour: counter | int_counter | histogram | histogram_tiny | histogram_wide, optionally followed by "+trait": every flush of
        # a local handle goes through the public LocalMetric trait (as a `&dyn LocalMetric` in a list of locals would) instead of the
        # inherent method
        self.trait = flavour.endswith("+trait")
        self.kind, self.flavour = kind, flavour.replace("+trait", "")
        self.fl = {"op": "lflush", "via": "trait"} if self.trait else {"op": "lflush"}

    def setup(self, mode):
        o = {"name": "m", "help": "h"}
        ctor = self.flavour
        if self.kind == "hist":
            # "histogram_tiny": every observed amount lies above the only finite bound (only the implicit +Inf bucket counts it)
            # "histogram_tiny": every observed amount lies above the only finite bound; otherwise three bounds between the amounts
            # "histogram_wide": the same three bounds after 70 bounds below every amount (the amounts land in buckets 70..73)
            o["buckets"] = [0.5] if self.flavour == "histogram_tiny" else ([0.25 + i / 512.0 for i in range(70)] if self.flavour == "histogram_wide" else []) + [2.5, 20.5, 1e12]
            ctor = "histogram"
        if mode == "single":
            return [{"op": ctor, "as": "m", "opts": o}, {"op": "local", "of": "m", "as": "h1"}]
        return [{"op": ctor + "_vec", "as": "V", "opts": o, "labels": ["l"]}, {"op": "local", "of": "V", "as": "w1"}]

    def event(self, e):
        op, h, g, k, v = e["op"], e["h"], e["g"], e["k"], e["v"]
        hist = self.kind == "hist"
        if op == "lnew":
            return [{"op": "local", "of": "m", "as": h}]
        if op == "linc":
            return [{"op": "lobserve" if hist else "linc_by", "obj": h, "v": v}]
        if op == "lflush":
            return [dict(self.fl, obj=h)]
        if op == "lreset":
            return [{"op": "lclear" if hist else "lreset", "obj": h}]
        if op == "lclone":
            return [{"op": "lclone", "obj": h, "as": g}]
        if op == "lclonefrom":
            return [{"op": "lclone_from", "obj": g, "from": h}]
        if op in ("ldrop", "lvdrop"):
            return [{"op": "drop", "obj": h}]
        if op in ("ldrop_unwinding", "lvdrop_unwinding"):
            return [{"op": "drop", "obj": h, "unwinding": True}]
        if op == "direct":
            return [{"op": "observe" if hist else "inc_by", "obj": "m", "v": v}]
        if op == "lvinc":
            return [{"op": "lv_observe" if hist else "lv_inc_by", "obj": h, "vals": [k], "v": v}]
        if op == "lvflush":
            return [dict(self.fl, obj=h)]
        if op == "lvremove":
            return [{"op": "lv_remove", "obj": h, "vals": [k]}]
        if op == "lvclone":
            return [{"op": "lclone", "obj": h, "as": g}]
        if op == "directv":
            return [{"op": "with", "vec": "V", "vals": [k], "as": "tmp"}, {"op": "observe" if hist else "inc_by", "obj": "tmp", "v": v}]
        if op == "directremove":
            return [{"op": "remove", "vec": "V", "vals": [k]}]
        raise ValueError(op)

    def observe(self, mode, alive):
        if mode == "single":
            calls = [{"op": "metric", "obj": "m"}]
            for h in alive:
                calls += ([{"op": "lcount", "obj": h}, {"op": "lsum", "obj": h}] if self.kind == "hist" else [{"op": "lget", "obj": h}])
            return calls
        return [{"op": "collect", "obj": "V"}]

    def read_obs(self, mode, alive, rs):
        """-> obs dict in the spec's shape from the results of observe()"""
        hist = self.kind == "hist"
        neg = {"n": -1, "s": -1}
        obs = {"shared": {"n": 0, "s": 0}, "locs": {h: dict(neg) for h in HANDLES}, "coll": {k: dict(neg) for k in KEYS}}
        if mode == "single":
            m = rs[0]["ok"]
            obs["shared"] = {"n": m["hist"]["count"], "s": m["hist"]["sum"].get("i"), "b": [[fval(b[0]), b[1]] for b in m["hist"]["b"]]} if hist else {"n": None, "s": m["counter"].get("i")}
            i = 1
            for h in alive:
                if hist:
                    obs["locs"][h] = {"n": rs[i]["ok"], "s": rs[i + 1]["ok"].get("i")}
                    i += 2
                else:
                    obs["locs"][h] = {"n": None, "s": rs[i]["ok"].get("i")}
                    i += 1
        else:
            obs["locs"]["h1"] = {"n": 0, "s": 0}      # not observed in vector mode: the untouched initial handle
            for fam in rs[0]["ok"]:
                for m in fam["metrics"]:
                    key = dict(map(tuple, m["labels"]))["l"]
                    obs["coll"][key] = {"n": m["hist"]["count"], "s": m["hist"]["sum"].get("i"), "b": [[fval(b[0]), b[1]] for b in m["hist"]["b"]]} if hist else {"n": None, "s": m["counter"].get("i")}
        return obs


def amounts_equal(exp, got, hist):
    if exp["n"] == -1 or got["n"] == -1:
        return exp["n"] == -1 and got["n"] == -1
    return exp["s"] == got["s"] and (not hist or exp["n"] == got["n"])


def buckets_ok(got, pow2):
    """cumulative bucket counts of a collected histogram against its own count and sum: every amount of a replayed history is a
    distinct power of two, so the sum's binary digits ARE the set of observations and fix every bucket; in recorded traces
    (amounts 1-3) only 'non-decreasing, at most the count, everything below 1e12' is derivable"""
    b = got.get("b")
    if b is None or got.get("s") is None:
        return True
    cum = [c for _, c in b]
    if any(x > y for x, y in zip(cum, cum[1:])) or any(c > got["n"] for c in cum):
        return False
    for bound, c in b:
        if pow2:
            want = sum(1 for k in range(0, 62) if (got["s"] >> k) & 1 and float(1 << k) <= bound)
            if c != want:
                return False
        elif bound >= 1e12 and c != got["n"]:
            return False
    return True


def obs_equal(exp, got, hist, pow2=True):
    if hist and not (buckets_ok(got["shared"], pow2) and all(buckets_ok(got["coll"][k], pow2) for k in KEYS)):
        return False
    return (amounts_equal(exp["shared"], got["shared"], hist) and all(amounts_equal(exp["locs"][h], got["locs"][h], hist) for h in HANDLES)
            and all(amounts_equal(exp["coll"][k], got["coll"][k], hist) for k in KEYS))


def alive_after(events):
    alive = ["h1"]
    for e in events:
        if e["op"] == "lnew":
            alive.append(e["h"])
        if e["op"] == "lclone":
            alive.append(e["g"])
        if e["op"] in ("ldrop", "ldrop_unwinding"):
            alive.remove(e["h"])
    return alive


def build_job(tr, mode, events, jid):
    calls = tr.setup(mode)
    marks = []
    for n, e in enumerate(events):
        ec = tr.event(e)
        alive = alive_after(events[:n + 1]) if mode == "single" else []
        oc = tr.observe(mode, alive)
        marks.append((len(calls), len(ec), len(oc), alive))
        calls += ec + oc
    return {"id": jid, "calls": calls}, marks


def run(ctx):
    exe = build_harness()
    quick = ctx.quick
    nconf, total = 0, 0
    samples = []
    for kind, flavours in (("counter", ["counter", "int_counter"]), ("hist", ["histogram", "histogram_tiny"])):
        for mode, L in (("single", 4 if quick else 5), ("vec", 4 if quick else 5)):
            cfg = "CONSTANTS\n%s  MaxLen = %d\n  Mode = %s\nSPECIFICATION HSpec\nINVARIANTS Emit Ledger\nPROPERTY SecondFlushIsNoop\nCHECK_DEADLOCK FALSE\n" % (consts(kind), L, tla_str(mode))
            r = tlc(ctx, "LocalGen", cfg, workers=8, label="gen%s%s" % (kind, mode), timeout=3000, heap="8g")
            if not r["ok"]:
                raise ToolError("LocalGen failed: %s\n%s" % (r["violated"], r["output"][-3000:]))
            behaviours = printed_values(r["output"], "REPLAY")
            for fl0 in flavours:
                # per history: flushes through the inherent method or through the LocalMetric trait; the three-bound layout alone or
                # behind 70 lower bounds (variants alternate over the histories; which history gets which depends on the seed)
                def variant(i):
                    x = i + ctx.seed
                    return ("histogram_wide" if fl0 == "histogram" and x % 2 else fl0) + ("+trait" if (x // 2) % 2 else "")
                trs = {v: Tr(kind, v) for v in {variant(i) for i in range(4)}}
                jobs, marks, fls = [], [], []
                for i, b in enumerate(behaviours):
                    j, m = build_job(trs[variant(i)], mode, b, i)
                    jobs.append(j); marks.append(m); fls.append(variant(i))
                res = run_api(ctx, exe, jobs, "loc%s%s" % (fl0, mode), nproc=12)
                for j, m, b, fl in zip(jobs, marks, behaviours, fls):
                    tr = trs[fl]
                    rs = res[j["id"]]
                    total += 1
                    ok = True
                    for n, (e, (pos, ne, no, alive)) in enumerate(zip(b, m)):
                        er = rs[pos:pos + ne]
                        pan = [x for x in er + rs[pos + ne:pos + ne + no] if "panic" in x]
                        if pan:
                            ctx.violation("panic", "%s %s history %s panicked: %s" % (fl, mode, [x["op"] for x in b[:n + 1]], pan[0]), {"flavour": fl, "kind": kind, "mode": mode, "events": b[:n + 1]})
                            ok = False
                            break
                        got_res = "Ok" if all("ok" in x for x in er) else "Err"
                        unread = [x for x in rs[pos + ne:pos + ne + no] if "ok" not in x]
                        if unread:
                            ctx.violation("%s:%s:unreadable" % (mode, e["op"]), "%s, history %s: after %s the state could not be read: %s" % (fl, [(x["op"], x["h"], x["k"], x["v"]) for x in b[:n + 1]], e["op"], json.dumps(unread[0])[:200]),
                                          {"flavour": fl, "kind": kind, "mode": mode, "events": b[:n + 1]})
                            ok = False
                            break
                        got = tr.read_obs(mode, alive, rs[pos + ne:pos + ne + no])
                        if got_res != e["res"] or not obs_equal(e["obs"], got, kind == "hist"):
                            key = "%s:%s" % (mode, e["op"])
                            ctx.violation(key, "%s, history %s: after %s expected result %s and state %s, real objects show result %s and state %s" % (
                                fl, [(x["op"], x["h"], x["k"], x["v"]) for x in b[:n + 1]], e["op"], e["res"], compact(e["obs"]), got_res, compact(got)),
                                {"flavour": fl, "kind": kind, "mode": mode, "events": b[:n + 1]})
                            ok = False
                            break
                    nconf += 1 if ok else 0
                if len(samples) < 4 and behaviours:
                    samples.append({"flavour": fl0, "mode": mode, "history": [(x["op"], x["h"], x["g"], x["k"], x["v"]) for x in behaviours[len(behaviours) // 2]]})
    ntr_ok, ntr = trace_direction(ctx, exe)
    import afcheck
    af = afcheck.run(ctx, exe)
    ctx.cov.update(af)
    # the Ledger clause at scale: one local vector handle touching thousands of label tuples between two flushes
    import bulk
    nb = 0
    for n in ((5000,) if ctx.quick else (5000, 70000)):
        bj = bulk.local_vec_jobs(n)
        br = run_api(ctx, exe, [{"id": j["id"], "calls": j["calls"]} for j in bj], "bulk", nproc=3)
        nb += sum(1 for j in bj if bulk.judge_local_vec(ctx, j, br[j["id"]], "scale"))
    for n in ((70000,) if ctx.quick else (70000, 1100000)):
        bj = bulk.long_batch_jobs(n)
        br = run_api(ctx, exe, [{"id": j["id"], "calls": j["calls"]} for j in bj], "longbatch", nproc=3)
        nb += sum(1 for j in bj if bulk.judge_long_batch(ctx, j, br[j["id"]], "scale"))
    ctx.cov["scale_scenarios_conforming"] = nb
    # batch-size patterns: every sequence of three batches of 0-3 observations on one local histogram handle, each followed by a flush
    # (the amounts are distinct powers of two, so the bucket clause applies after every flush)
    pjobs = []
    import itertools as _it
    for pat in _it.product(range(4), repeat=3):
        calls = [{"op": "histogram", "as": "m", "opts": {"name": "m", "help": "h", "buckets": [2.5, 20.5, 1e12]}}, {"op": "local", "of": "m", "as": "L"}]
        k, tot, exp = 0, 0, []
        for b in pat:
            for _ in range(b):
                calls.append({"op": "lobserve", "obj": "L", "v": 2 ** k})
                tot += 2 ** k
                k += 1
            calls += [{"op": "lflush", "obj": "L"}, {"op": "metric", "obj": "m"}]
            exp.append((len(calls) - 1, k, tot))
        pjobs.append({"id": len(pjobs), "calls": calls, "exp": exp, "pat": pat})
    pres = run_api(ctx, exe, [{"id": j["id"], "calls": j["calls"]} for j in pjobs], "patterns", nproc=2)
    npat = 0
    for j in pjobs:
        rs = pres[j["id"]]
        ok = all("ok" in x for x in rs)
        for pos, cnt, tot in j["exp"]:
            if not ok:
                break
            h = rs[pos]["ok"]["hist"]
            got = {"n": h["count"], "s": h["sum"].get("i"), "b": [[fval(b[0]), b[1]] for b in h["b"]]}
            if got["n"] != cnt or got["s"] != tot or not buckets_ok(got, True):
                ok = False
                ctx.violation("batch-pattern", "one local histogram handle flushed after batches of %s observations: after the flush that should leave %d observations summing to %d the shared histogram shows count %s, sum %s, cumulative buckets %s" % (
                    list(j["pat"]), cnt, tot, got["n"], got["s"], got["b"]), {"bulk": True, "calls": j["calls"]})
        if not all("ok" in x for x in rs):
            ctx.violation("batch-pattern:call-failed", "batch pattern %s: %s" % (list(j["pat"]), [x for x in rs if "ok" not in x][0]), {"bulk": True, "calls": j["calls"]})
        npat += 1 if ok else 0
    ctx.cov["batch_patterns_conforming"] = npat
    ctx.cov.update({
        "traces_validated_against_impl": nconf + ntr_ok + af["af_conforming"], "behaviours_replayed": total, "behaviours_conforming": nconf, "recorded_traces": ntr, "recorded_traces_accepted": ntr_ok,
        "samples": samples, "exhaustive": True,
        "rule": "all histories of length 4-5 over inc/observe, flush, reset/clear, clone, new, drop, direct update (single metric, 3 local handles) and over local-vector inc, flush, remove_label_values, clone, drop, "
                "direct update/remove (2 keys, 2 local vector handles) for Counter, IntCounter and Histogram; after every call the shared metric, every local handle and the collected vector are compared with Local.tla; "
                "random 150-call traces incl. unspecified drops validated against LocalTrace; "
                "AutoFlush.tla (thread-local roots of make_auto_flush_static_metric!, may_flush on the coarse clock, thread exit): invariants model-checked, all histories of length 4-5 and "
                "simulated histories of length 12-16 over tick/start/update/get/reset/flush/exit on 2 threads x 2 leaves replayed on real threads under a virtual clock (hook H4)",
    })


def compact(o):
    return {"shared": o["shared"], "locs": {h: v for h, v in o["locs"].items() if v["n"] != -1}, "coll": {k: v for k, v in o["coll"].items() if v["n"] != -1}}


def trace_direction(ctx, exe):
    """impl -> spec: random long histories on the real objects, incl. drops of local counters with pending data."""
    rnd = random.Random(ctx.seed + 12)
    ntr = 12 if ctx.quick else 120
    tlen = 80 if ctx.quick else 150
    okc, n = 0, 0
    for kind, fl in (("counter", "counter"), ("counter", "int_counter+trait"), ("hist", "histogram_wide+trait"), ("hist", "histogram_tiny")):
        tr = Tr(kind, fl)
        for mode in ("single", "vec"):
            plans, jobs, marks = [], [], []
            for i in range(ntr // 6 + 1):
                ev = gen_plan(rnd, mode, tlen)
                j, m = build_job(tr, mode, ev, i)
                plans.append(ev); jobs.append(j); marks.append(m)
            res = run_api(ctx, exe, jobs, "tr%s%s" % (fl, mode))
            tp = ctx.path("trace_%s_%s.ndjson" % (fl, mode))
            index = []
            with open(tp, "w") as f:
                for ev, j, m in zip(plans, jobs, marks):
                    rs = res[j["id"]]
                    f.write(json.dumps({"op": "new"}) + "\n")
                    index.append(None)
                    for e, (pos, ne, no, alive) in zip(ev, m):
                        er = rs[pos:pos + ne]
                        if any("panic" in x for x in rs[pos:pos + ne + no]):
                            ctx.violation("panic", "%s %s random history panicked" % (fl, mode), {"flavour": fl, "kind": kind, "mode": mode, "events": ev})
                            break
                        got = tr.read_obs(mode, alive, rs[pos + ne:pos + ne + no])
                        if kind != "hist":
                            for a in [got["shared"]] + list(got["locs"].values()) + list(got["coll"].values()):
                                if a["n"] is None:
                                    a["n"] = 0
                        rec = dict(e)
                        rec["res"] = "Ok" if all("ok" in x for x in er) else "Err"
                        if kind == "hist":
                            # bucket clause, derived from the snapshot itself (LocalTrace tracks counts and sums)
                            for a in [got["shared"]] + list(got["coll"].values()):
                                if not buckets_ok(a, False):
                                    ctx.violation("trace:%s:buckets" % mode, "%s %s: after %s the collected histogram has count %s but cumulative buckets %s" % (fl, mode, e["op"], a["n"], a.get("b")),
                                                  {"flavour": fl, "kind": kind, "mode": mode, "events": ev[:ev.index(e) + 1], "trace": True})
                                a.pop("b", None)
                        rec["obs"] = got
                        f.write(json.dumps(rec) + "\n")
                        index.append((ev, e))
            n += len(plans)
            cfg = "CONSTANTS\n%sSPECIFICATION TSpec\nINVARIANT LedgerHolds\nPOSTCONDITION TraceAccepted\nCHECK_DEADLOCK FALSE\n" % consts("hist" if kind == "hist" else "countertrace", 400)
            rt = tlc(ctx, "LocalTrace", cfg, workers=1, env={"TRACE": tp}, coverage=False, deque=True, label="trace%s%s" % (fl, mode), expect_ok=False, count=False, timeout=1800)
            m = re.search(r'TRACE-REJECTED-AT",\s*(\d+)', rt["output"])
            if m:
                at = int(m.group(1)) - 1
                ev, e = index[at] if index[at] else ([], {})
                upto = ev[:ev.index(e) + 1] if e in ev else ev
                ctx.violation("trace:%s:%s" % (mode, e.get("op", "?")), "%s %s: recorded history is not a behaviour of Local.tla at event %s (history so far: %s)" % (fl, mode, e, [(x["op"], x["h"], x["k"], x["v"]) for x in upto][-8:]),
                              {"flavour": fl, "kind": kind, "mode": mode, "events": upto, "trace": True})
            elif not rt["ok"]:
                raise ToolError("LocalTrace failed:\n" + rt["output"][-3000:])
            else:
                okc += len(plans)
    return okc, n


def gen_plan(rnd, mode, n):
    ev = []
    if mode == "single":
        st = {"h1": "alive", "h2": "none", "h3": "none"}
        for _ in range(n):
            alive = [h for h in HANDLES if st[h] == "alive"]
            none = [h for h in HANDLES if st[h] == "none"]
            ops = ["direct"]
            if alive:
                ops += ["linc", "linc", "lflush", "lreset", "ldrop"] + (["lclone"] if none else []) + (["lclonefrom"] if len(alive) >= 2 else [])
            if none:
                ops += ["lnew"]
            op = rnd.choice(ops)
            e = {"op": op, "h": "-", "g": "-", "k": "-", "v": rnd.randint(1, 3), "res": "Ok"}
            if op in ("linc", "lflush", "lreset", "ldrop", "lclone", "lclonefrom"):
                e["h"] = rnd.choice(alive)
            if op == "lclonefrom":
                e["g"] = rnd.choice([x for x in alive if x != e["h"]])
            if op == "lclone":
                e["g"] = rnd.choice(none); st[e["g"]] = "alive"
            if op == "lnew":
                e["h"] = rnd.choice(none); st[e["h"]] = "alive"
            if op == "ldrop":
                st[e["h"]] = "none" if False else "dropped"
            ev.append(e)
            if all(s == "dropped" for s in st.values()) and rnd.random() < 0.5:
                break
    else:
        st = {"w1": "alive", "w2": "none"}
        for _ in range(n):
            alive = [h for h in VHANDLES if st[h] == "alive"]
            none = [h for h in VHANDLES if st[h] == "none"]
            ops = ["directv", "directremove"]
            if alive:
                ops += ["lvinc", "lvinc", "lvinc", "lvflush", "lvremove"] + (["lvclone"] if none else []) + (["lvdrop"] if rnd.random() < 0.2 else [])
            op = rnd.choice(ops)
            e = {"op": op, "h": "-", "g": "-", "k": "-", "v": rnd.randint(1, 3), "res": "Ok"}
            if op in ("lvinc", "lvflush", "lvremove", "lvclone", "lvdrop"):
                e["h"] = rnd.choice(alive)
            if op in ("lvinc", "lvremove", "directv", "directremove"):
                e["k"] = rnd.choice(KEYS)
            if op == "lvclone":
                e["g"] = rnd.choice(none); st[e["g"]] = "alive"
            if op == "lvdrop":
                st[e["h"]] = "dropped"
            ev.append(e)
    return ev


def replay(path):
    d = json.load(open(path))
    rp = d["replay"]
    if rp.get("bulk"):
        import bulk
        return bulk.replay(rp)
    if rp.get("autoflush"):
        import afcheck
        return afcheck.replay(rp)
    if "tlc" in rp:
        print(rp["tlc"]); return 1
    ctx = Ctx("C12_replay", "quick", 0, LEVEL)
    exe = build_harness()
    tr = Tr(rp["kind"], rp["flavour"])
    j, m = build_job(tr, rp["mode"], rp["events"], 0)
    rs = run_api(ctx, exe, [j], "replay")[0]
    bad = False
    for e, (pos, ne, no, alive) in zip(rp["events"], m):
        got = tr.read_obs(rp["mode"], alive, rs[pos + ne:pos + ne + no])
        got_res = "Ok" if all("ok" in x for x in rs[pos:pos + ne]) else "Err"
        line = "  %s %s %s %s v=%s -> %s %s" % (e["op"], e["h"], e["g"], e["k"], e["v"], got_res, compact(got))
        if "obs" in e and not rp.get("trace"):
            okk = got_res == e["res"] and obs_equal(e["obs"], got, rp["kind"] == "hist")
            line += "   [spec: %s %s] %s" % (e["res"], compact(e["obs"]), "" if okk else "<-- differs")
            bad = bad or not okk
        print(line)
    if rp.get("trace"):
        print("  (recorded trace: re-run `bin/check C12` to have LocalTrace judge it)")
        bad = True
    print("verdict:", "violates Local spec" if bad else "conforms")
    shutil.rmtree(ctx.work, ignore_errors=True)
    return 1 if bad else 0
