"""C18 — a timer records its duration exactly once, or never when discarded."""
from grpb import *
LEVEL = "model_checking"
BUCKETS = [1e-6, 1e-4, 1e-2, 1.0, 100.0]


# second layout: every measured duration lies above the largest finite bound (only the implicit +Inf bucket counts it)
TINY = [1e-300, 1e-200]


def build(b, buckets=BUCKETS):
    calls = [{"op": "histogram", "as": "H", "opts": {"name": "h", "help": "h", "buckets": buckets}}, {"op": "local", "of": "H", "as": "L"}]
    marks = []
    for e in b:
        op = e["op"]
        if op == "start":
            c = {"op": "start_timer", "of": "H" if e["kind"] == "shared" else "L", "as": e["t"]}
        elif op == "closure":
            c = {"op": "observe_closure", "of": "H" if e["kind"] == "shared" else "L", "ret": 41}
        elif op == "closure_reenter":
            c = {"op": "observe_closure", "of": "H" if e["kind"] == "shared" else "L", "ret": 41, "reenter": True}
        elif op == "lflush":
            c = {"op": "lflush", "obj": "L"}
        elif op == "drop_timer_unwinding":
            c = {"op": "drop_timer", "obj": e["t"], "thread": e["thread"], "unwinding": True}
        else:
            c = {"op": op, "obj": e["t"], "thread": e["thread"]}
        marks.append(len(calls))
        calls += [c, {"op": "metric", "obj": "H"}, {"op": "lcount", "obj": "L"}]
    return calls, marks


def durations(ctx, exe):
    """the number of seconds a timer records IS its lifetime: timers that live for more than a second (whole seconds and a fraction),
    stopped in every way, shared and local, on this or another thread; closures that run for more than a second"""
    ms = 1030
    opts = {"name": "h", "help": "h", "buckets": [F(0.5), F(5.0), F(60.0)]}
    calls = [{"op": "histogram", "as": "h", "opts": opts}, {"op": "local", "of": "h", "as": "L"}]
    stops = [("t1", "h", "stop_and_record", False), ("t2", "h", "observe_duration", False), ("t3", "h", "drop_timer", True), ("t4", "L", "stop_and_record", False), ("t5", "L", "drop_timer", False), ("t6", "h", "observe_duration", True)]
    for t, of, _, _ in stops:
        calls.append({"op": "start_timer", "of": of, "as": t})
    calls.append({"op": "sleep", "ms": ms})
    pos = {}
    for t, of, op, th in stops:
        pos[t] = len(calls)
        calls += [{"op": op, "obj": t, "thread": th}, {"op": "lflush", "obj": "L"}, {"op": "metric", "obj": "h"}]
    pos["c1"] = len(calls)
    calls += [{"op": "observe_closure", "of": "h", "sleep_ms": ms}, {"op": "lflush", "obj": "L"}, {"op": "metric", "obj": "h"}]
    pos["c2"] = len(calls)
    calls += [{"op": "observe_closure", "of": "L", "sleep_ms": ms}, {"op": "lflush", "obj": "L"}, {"op": "metric", "obj": "h"}]
    rs = run_api(ctx, exe, [{"id": 0, "calls": calls}], "dur")[0]
    rp = {"events": [], "calls": calls}
    if any("ok" not in x for x in rs):
        ctx.violation("duration:call-failed", "a timer call failed: %s" % [x for x in rs if "ok" not in x][0], rp)
        return 0
    n = 0
    prev = 0.0
    lo = ms / 1000.0
    for k, (name, what) in enumerate([(t, "%s timer, %s%s" % ("local" if of == "L" else "shared", op, " on another thread" if th else "")) for t, of, op, th in stops] + [("c1", "observe_closure_duration (shared)"), ("c2", "observe_closure_duration (local)")]):
        h = rs[pos[name] + 2]["ok"]["hist"]
        sm = fval(h["sum"])
        rec = sm - prev
        prev = sm
        ret = rs[pos[name]]["ok"]
        returned = fval(ret) if isinstance(ret, dict) and "bits" in ret else None
        # lower bound only from the sleep itself; the upper bound is generous (a loaded machine may stretch any of it)
        if h["count"] != k + 1 or not (lo <= rec < lo * (len(stops) + 3) + 60) or (returned is not None and returned >= 0 and abs(returned - rec) > 1e-6):
            ctx.violation("duration:" + what.split(",")[0].replace(" ", "-"), "%s that lived for at least %.3f s contributed %r s (returned %r), sample count %s after %d stops" % (what, lo, rec, returned, h["count"], k + 1), rp)
        else:
            n += 1
    return n


def run(ctx):
    exe = build_harness()
    L = 4 if ctx.quick else 5
    timers = ["t1", "t2"] if ctx.quick else ["t1", "t2", "t3"]
    cfg = "CONSTANTS\n  Timers = {%s}\n  MaxLen = %d\nSPECIFICATION HSpec\nINVARIANT Emit\nPROPERTY AtMostOnce\nCHECK_DEADLOCK FALSE\n" % (", ".join(map(tla_str, timers)), L)
    r = tlc(ctx, "TimerGen", cfg, workers=8, label="gen", timeout=3000, heap="8g")
    if not r["ok"]:
        raise ToolError("TimerGen failed: %s\n%s" % (r["violated"], r["output"][-3000:]))
    bs = printed_values(r["output"], "REPLAY")
    if not ctx.quick and len(bs) > 150000:
        import random
        bs = random.Random(ctx.seed).sample(bs, 150000)
    jobs, marks = [], []
    for i, b in enumerate(bs):
        calls, m = build(b, BUCKETS if i % 2 == 0 else TINY)
        jobs.append({"id": i, "calls": calls}); marks.append(m)
    res = run_api(ctx, exe, jobs, "timer", nproc=12)
    nok = 0
    for j, m, b in zip(jobs, marks, bs):
        rs = res[j["id"]]
        ok = True
        prev_sum, prev_cnt = 0.0, 0
        for n, (e, pos) in enumerate(zip(b, m)):
            rr, mm, lc = rs[pos], rs[pos + 1], rs[pos + 2]
            rp = {"events": b[:n + 1]}
            hist_ops = [(x["op"], x["t"], x["kind"], "other-thread" if x["thread"] else "same-thread") for x in b[:n + 1]]
            if any("panic" in x for x in (rr, mm, lc)) or any("ok" not in x for x in (rr, mm, lc)):
                ctx.violation("panic-or-error", "history %s: %s" % (hist_ops, rr), rp); ok = False; break
            cnt, sm = mm["ok"]["hist"]["count"], fval(mm["ok"]["hist"]["sum"])
            lp = lc["ok"]
            if cnt != e["cnt"] or lp != e["lpend"]:
                key = "%s:%s" % (e["op"], e["kind"]) + (":moved" if e["thread"] else "")
                ctx.violation(key, "history %s: after %s the shared histogram holds %d observations and the local one %d pending; specification: %d and %d" % (hist_ops, e["op"], cnt, lp, e["cnt"], e["lpend"]), rp)
                ok = False; break
            if e["op"] in ("stop_and_record", "stop_and_discard"):
                v = fval(rr["ok"])
                if not (v >= 0.0 and v != float("inf")):
                    ctx.violation("duration-not-nonnegative", "history %s: %s returned %r seconds" % (hist_ops, e["op"], v), rp); ok = False; break
                if e["op"] == "stop_and_record" and cnt == prev_cnt + 1 and abs((prev_sum + v) - sm) > 1e-12:
                    ctx.violation("recorded-value-differs", "history %s: stop_and_record returned %r but the sum moved from %r to %r" % (hist_ops, v, prev_sum, sm), rp); ok = False; break
                if e["op"] == "stop_and_record":
                    # the observation lands in the bucket of the returned value
                    bks = mm["ok"]["hist"]["b"]
                    pb = rs[pos - 2]["ok"]["hist"]["b"] if n > 0 else [[x[0], 0] for x in bks]
                    for (ub, cc), (_, pc) in zip(bks, pb):
                        if (cc - pc) != (1 if v <= fval(ub) else 0):
                            ctx.violation("wrong-bucket", "history %s: returned %r s, bucket le=%r moved by %d" % (hist_ops, v, fval(ub), cc - pc), rp); ok = False
                            break
                    if not ok:
                        break
            if e["op"] in ("closure", "closure_reenter") and rr["ok"] != 41:
                ctx.violation("closure-result", "observe_closure_duration returned %s instead of the closure's result 41" % rr["ok"], rp); ok = False; break
            if sm < prev_sum or not (sm >= 0):
                ctx.violation("sum-decreased", "history %s: sample sum went from %r to %r" % (hist_ops, prev_sum, sm), rp); ok = False; break
            prev_sum, prev_cnt = sm, cnt
        nok += 1 if ok else 0
    nd = durations(ctx, exe)
    nok += nd
    ctx.cov["long_lived_timers_with_exact_duration"] = nd
    ctx.cov.update({"traces_validated_against_impl": nok, "behaviours_replayed": len(bs), "behaviours_conforming": nok,
                    "samples": [[(x["op"], x["t"], x["kind"], x["thread"]) for x in bs[len(bs) // 2]]], "exhaustive": ctx.quick,
                    "rule": "all histories of length %d over start (shared/local), observe_duration, stop_and_record, stop_and_discard, drop (same or another thread), closure observation, local flush "
                            "for %d timers, replayed with real timers (moves are real thread spawn+join); after every call the shared sample count and the local pending count are compared with Timer.tla, "
                            "returned seconds are non-negative and land in the right bucket, the closure's result is returned" % (L, len(timers))})
    ctx.assumptions += ["durations themselves are not modelled: any non-negative finite number of seconds is accepted"]


def replay(path):
    d = json.load(open(path))
    b = d["replay"]["events"]
    ctx = Ctx("C18_replay", "quick", 0, LEVEL)
    exe = build_harness()
    if d["replay"].get("calls"):
        n = durations(ctx, exe)
        print("verdict:", "all long-lived timers recorded their lifetime" if not ctx.violations else ctx.violations[0]["what"])
        shutil.rmtree(ctx.work, ignore_errors=True)
        return 1 if ctx.violations else 0
    calls, m = build(b)
    rs = run_api(ctx, exe, [{"id": 0, "calls": calls}], "replay")[0]
    bad = False
    for e, pos in zip(b, m):
        rr, mm, lc = rs[pos], rs[pos + 1], rs[pos + 2]
        cnt = mm.get("ok", {}).get("hist", {}).get("count")
        okk = cnt == e["cnt"] and lc.get("ok") == e["lpend"] and "ok" in rr
        print("  %s %s %s thread=%s -> %s count=%s pending=%s  [spec: %s, %s]%s" % (e["op"], e["t"], e["kind"], e["thread"], json.dumps(rr)[:80], cnt, lc.get("ok"), e["cnt"], e["lpend"], "" if okk else "  <-- differs"))
        bad = bad or not okk
    print("verdict:", "violates Timer spec" if bad else "conforms (counts); re-run the check for the value clauses")
    shutil.rmtree(ctx.work, ignore_errors=True)
    return 1 if bad else 0
