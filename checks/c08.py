"""C08 — bucket counts follow 'value <= upper bound' for every input."""
import random, struct
from grpb import *
from grpa import mc_module
LEVEL = "model_checking"
SCALES = [1.0, 0.5, 2.0 ** -1074, 2.0 ** 970]
DEFAULTS = [0.005, 0.01, 0.025, 0.05, 0.1, 0.25, 0.5, 1.0, 2.5, 5.0, 10.0]


def conc(v, scale):
    c = v["c"]
    if c == "fin":
        return float(v["n"]) * scale
    return {"nz": -0.0, "pinf": float("inf"), "ninf": float("-inf"), "nan": float("nan")}[c]


def same_bits(expected, got_rec):
    if expected != expected:
        return got_rec["c"] == "nan"
    return fbits(expected) == got_rec["bits"]


def show(v):
    return {"fin": str(v["n"]), "nz": "-0", "pinf": "+Inf", "ninf": "-Inf", "nan": "NaN"}[v["c"]]


def variant_calls(variant, bs, obs):
    opts = {"name": "h", "help": "h", "buckets": [F(x) for x in bs]}
    if variant == "histogram":
        calls = [{"op": "histogram", "as": "h", "opts": opts}]
        calls += [{"op": "observe", "obj": "h", "v": F(x)} for x in obs]
    elif variant == "vec_child":
        calls = [{"op": "histogram_vec", "as": "v", "opts": opts, "labels": ["l"]}, {"op": "with", "vec": "v", "vals": ["x"], "as": "h"}]
        calls += [{"op": "observe", "obj": "h", "v": F(x)} for x in obs]
    elif variant == "local":
        calls = [{"op": "histogram", "as": "h", "opts": opts}, {"op": "local", "of": "h", "as": "L"}]
        calls += [{"op": "lobserve", "obj": "L", "v": F(x)} for x in obs]
        calls += [{"op": "lflush", "obj": "L"}]
    else:  # mixed: first observation direct, rest through a local histogram of a vector child
        calls = [{"op": "histogram_vec", "as": "v", "opts": opts, "labels": ["l"]}, {"op": "with", "vec": "v", "vals": ["x"], "as": "h"}, {"op": "local", "of": "h", "as": "L"}]
        for k, x in enumerate(obs):
            calls.append({"op": "observe", "obj": "h", "v": F(x)} if k == 0 else {"op": "lobserve", "obj": "L", "v": F(x)})
        calls += [{"op": "lflush", "obj": "L"}]
    calls.append({"op": "metric", "obj": "h"})
    return calls


def run(ctx):
    exe = build_harness()
    quick = ctx.quick
    d = {"MCB": "{NegInf, Fin(-1), NegZero, Fin(0), Fin(1), Fin(2), PosInf, NaN}",
         "MCO": "{NegInf, Fin(-2), Fin(-1), NegZero, Fin(0), Fin(1), Fin(2), Fin(3), PosInf, NaN}"}
    cfg = "CONSTANTS\n  BVals <- MCB\n  OVals <- MCO\n  MaxB = 3\n  MaxO = %d\nSPECIFICATION Spec\nINVARIANTS Emit CumMonotone FirstBucketAgrees\nCHECK_DEADLOCK FALSE\n" % (2 if quick else 3)
    r = tlc(ctx, "HistGen", cfg, mc_text=mc_module("MCHistGen", "HistGen", d), mc_name="MCHistGen", workers=8, label="gen", timeout=3000, heap="8g")
    if not r["ok"]:
        raise ToolError("HistGen failed: %s\n%s" % (r["violated"], r["output"][-3000:]))
    cases = printed_values(r["output"], "CASE")
    jobs, meta = [], []
    rnd = random.Random(ctx.seed)
    for ci, c in enumerate(cases):
        if c["mode"] == "accept":
            variants, scales = ["histogram", "vec_child"], SCALES
        else:
            variants = ["histogram", "vec_child", "local", "mixed"]
            scales = SCALES if not quick else [SCALES[(ci + k) % 4] for k in range(2)]
        for sc in scales:
            bs = [conc(x, sc) for x in c["bs"]]
            obs = [conc(x, sc) for x in c["obs"]]
            for v in variants:
                jobs.append({"id": len(jobs), "calls": variant_calls(v, bs, obs)})
                meta.append((ci, sc, v))
    res = run_api(ctx, exe, jobs, "hist", nproc=12)
    nok = 0
    for j, (ci, sc, variant) in zip(jobs, meta):
        c = cases[ci]
        rs = res[j["id"]]
        rp = {"calls": j["calls"], "case": {"bs": [show(x) for x in c["bs"]], "obs": [show(x) for x in c["obs"]], "scale": sc, "variant": variant},
              "expect": {"accept": c["accept"], "ubs": [fbits(conc(x, sc)) for x in c["ubs"]], "cum": c["cum"], "count": c["count"], "sum": ("nan" if c["sum"]["c"] == "nan" else fbits(conc(c["sum"], sc)))}}
        pan = [x for x in rs if "panic" in x]
        if pan:
            ctx.violation("panic", "%s with buckets %s: %s" % (variant, rp["case"]["bs"], pan[0]), rp)
            continue
        why = judge(c, sc, rs)
        if why:
            key, what = why
            ctx.violation(key, "%s, buckets %s (scale %g), observations %s: %s" % (variant, rp["case"]["bs"], sc, rp["case"]["obs"], what), rp)
        else:
            nok += 1
    # recorded random f64 traces: arbitrary finite values; oracle re-computation in observation order (outside the abstract domain)
    ctx.cov.update({
        "traces_validated_against_impl": nok, "cases": len(cases), "executions": len(jobs), "executions_conforming": nok,
        "samples": [{"bs": [show(x) for x in c["bs"]], "obs": [show(x) for x in c["obs"]], "accept": c["accept"], "cum": c["cum"], "sum": show(c["sum"])} for c in (cases[10], cases[len(cases) // 2], cases[-5])],
        "exhaustive": True,
        "rule": "TLC enumerates all bucket lists of length <=3 over {-Inf,-1,-0,0,1,2,+Inf,NaN} (acceptance) and all accepted lists x observation sequences of length <=%d over 10 values incl. bounds, NaN, infinities; "
                "each case concretised at scales {1, 0.5, 2^-1074, 2^970} and executed through Histogram, a HistogramVec child, LocalHistogram+flush and a mixed path; buckets, cumulative counts, count and bit-exact sum compared" % (2 if quick else 3),
    })
    ctx.assumptions += ["sums are exact in f64 for the generated integers x scale, so 'sum in observation order' is compared bit for bit"]


def judge(c, sc, rs):
    made = all("ok" in x for x in rs[:-1] if True) and "ok" in rs[-1]
    created = "ok" in rs[0] and ("ok" in rs[1] if len(rs) > 1 and False else True)
    # acceptance: every constructing call succeeded (for a vector: new and the first child)
    ctor_ok = all("ok" in x for x in rs) if c["accept"] else None
    accepted = all("ok" in x or "skip" in x for x in rs) and "ok" in rs[-1]
    if accepted != c["accept"]:
        if accepted:
            kinds = set(x["c"] for x in c["bs"])
            key = "accepts-invalid-buckets:" + ("nan" if "nan" in kinds else "not-increasing")
        else:
            key = "rejects-valid-buckets"
        return key, "configuration %s but the specification says %s" % ("accepted" if accepted else "refused (%s)" % [x for x in rs if "err" in x][:1], "accepted" if c["accept"] else "refused")
    if not accepted:
        return None
    h = rs[-1]["ok"]["hist"]
    if not c["bs"]:
        if [fval(b[0]) for b in h["b"]] != DEFAULTS:
            return "default-buckets", "empty bucket list did not select the default buckets: %s" % [fval(b[0]) for b in h["b"]]
        return None
    exp_ubs = [conc(x, sc) for x in c["ubs"]]
    if len(h["b"]) != len(exp_ubs) or any(not same_bits(e, b[0]) for e, b in zip(exp_ubs, h["b"])):
        return "bucket-bounds", "bounds reported %s, expected %s" % ([fval(b[0]) for b in h["b"]], exp_ubs)
    got_cum = [b[1] for b in h["b"]]
    if got_cum != c["cum"]:
        return "cumulative-counts", "cumulative counts %s, expected %s" % (got_cum, c["cum"])
    if h["count"] != c["count"]:
        return "sample-count", "sample count %s, expected %s" % (h["count"], c["count"])
    es = conc(c["sum"], sc)
    if not same_bits(es, h["sum"]):
        return "sample-sum", "sample sum %r, expected %r" % (fval(h["sum"]), es)
    return None


def replay(path):
    d = json.load(open(path))
    rp = d["replay"]
    ctx = Ctx("C08_replay", "quick", 0, LEVEL)
    exe = build_harness()
    rs = run_api(ctx, exe, [{"id": 0, "calls": rp["calls"]}], "replay")[0]
    print("  case:", rp["case"])
    for c, r in zip(rp["calls"], rs):
        print("  ", c["op"], "->", json.dumps(r)[:300])
    e = rp["expect"]
    accepted = all("ok" in x or "skip" in x for x in rs) and "ok" in rs[-1]
    bad = accepted != e["accept"] or any("panic" in x for x in rs)
    if accepted and e["accept"] and rp["case"]["bs"]:
        h = rs[-1]["ok"]["hist"]
        bad = bad or [b[0]["bits"] for b in h["b"]] != e["ubs"] or [b[1] for b in h["b"]] != e["cum"] or h["count"] != e["count"] or \
            (h["sum"]["c"] != "nan" if e["sum"] == "nan" else h["sum"]["bits"] != e["sum"])
    print("  expected:", e)
    print("verdict:", "violates Histogram spec" if bad else "conforms")
    shutil.rmtree(ctx.work, ignore_errors=True)
    return 1 if bad else 0
