"""C08 — bucket counts follow 'value <= upper bound' for every input."""
import random, struct, math
from grpb import *
from grpa import mc_module
LEVEL = "model_checking"
SCALES = [1.0, 0.5, 2.0 ** -1074, 2.0 ** 970]
DEFAULTS = [0.005, 0.01, 0.025, 0.05, 0.1, 0.25, 0.5, 1.0, 2.5, 5.0, 10.0]


def conc(v, scale):
    c = v["c"]
    if c == "fin":
        return float(v["n"]) * scale
    return {"nz": -0.0, "pinf": float("inf"), "ninf": float("-inf"), "nan": float("nan")}[c]


def same_bits(expected, got_rec):
    if expected != expected:
        return got_rec["c"] == "nan"
    return fbits(expected) == got_rec["bits"]


def show(v):
    return {"fin": str(v["n"]), "nz": "-0", "pinf": "+Inf", "ninf": "-Inf", "nan": "NaN"}[v["c"]]


def variant_calls(variant, bs, obs):
    opts = {"name": "h", "help": "h", "buckets": [F(x) for x in bs]}
    if variant in ("vec_child", "local", "scraped"):
        # options built in another order of the builder methods (buckets first, then namespace, subsystem, a constant label)
        opts.update({"buckets_first": True, "ns": "n", "sub": "s", "const": [["c", "v"]]})
        if variant != "local":
            opts["buckets_decoy"] = [F(7.0), F(9.5)]      # .buckets(decoy).buckets(real): the later list stands, also when it is empty
    if variant == "histogram":
        calls = [{"op": "histogram", "as": "h", "opts": opts}]
        calls += [{"op": "observe", "obj": "h", "v": F(x)} for x in obs]
    elif variant == "scraped":
        # the histogram is collected after every observation (a scrape between any two observations changes nothing)
        calls = [{"op": "histogram", "as": "h", "opts": opts}]
        for x in obs:
            calls += [{"op": "observe", "obj": "h", "v": F(x)}, {"op": "metric", "obj": "h"}]
    elif variant == "local_batches":
        # one local histogram flushed after every observation (every flush hands over exactly its own batch)
        calls = [{"op": "histogram", "as": "h", "opts": opts}, {"op": "local", "of": "h", "as": "L"}]
        for x in obs:
            calls += [{"op": "lobserve", "obj": "L", "v": F(x)}, {"op": "lflush", "obj": "L"}]
    elif variant == "vec_child":
        calls = [{"op": "histogram_vec", "as": "v", "opts": opts, "labels": ["l"]}, {"op": "with", "vec": "v", "vals": ["x"], "as": "h"}]
        calls += [{"op": "observe", "obj": "h", "v": F(x)} for x in obs]
    elif variant == "local":
        calls = [{"op": "histogram", "as": "h", "opts": opts}, {"op": "local", "of": "h", "as": "L"}]
        calls += [{"op": "lobserve", "obj": "L", "v": F(x)} for x in obs]
        calls += [{"op": "lflush", "obj": "L"}]
    else:  # mixed: first observation direct, rest through a local histogram of a vector child
        calls = [{"op": "histogram_vec", "as": "v", "opts": opts, "labels": ["l"]}, {"op": "with", "vec": "v", "vals": ["x"], "as": "h"}, {"op": "local", "of": "h", "as": "L"}]
        for k, x in enumerate(obs):
            calls.append({"op": "observe", "obj": "h", "v": F(x)} if k == 0 else {"op": "lobserve", "obj": "L", "v": F(x)})
        calls += [{"op": "lflush", "obj": "L"}]
    calls.append({"op": "metric", "obj": "h"})
    return calls


def run(ctx):
    exe = build_harness()
    quick = ctx.quick
    d = {"MCB": "{NegInf, Fin(-1), NegZero, Fin(0), Fin(1), Fin(2), PosInf, NaN}",
         "MCO": "{NegInf, Fin(-2), Fin(-1), NegZero, Fin(0), Fin(1), Fin(2), Fin(3), PosInf, NaN}"}
    cfg = "CONSTANTS\n  BVals <- MCB\n  OVals <- MCO\n  MaxB = 3\n  MaxO = %d\nSPECIFICATION Spec\nINVARIANTS Emit CumMonotone FirstBucketAgrees\nCHECK_DEADLOCK FALSE\n" % (2 if quick else 3)
    r = tlc(ctx, "HistGen", cfg, mc_text=mc_module("MCHistGen", "HistGen", d), mc_name="MCHistGen", workers=8, label="gen", timeout=3000, heap="8g")
    if not r["ok"]:
        raise ToolError("HistGen failed: %s\n%s" % (r["violated"], r["output"][-3000:]))
    cases = printed_values(r["output"], "CASE")
    jobs, meta = [], []
    rnd = random.Random(ctx.seed)
    for ci, c in enumerate(cases):
        if c["mode"] == "accept":
            variants, scales = ["histogram", "vec_child"], SCALES
        else:
            variants = ["histogram", "vec_child", "local", "mixed", "scraped", "local_batches"]
            scales = SCALES if not quick else [SCALES[(ci + k) % 4] for k in range(2)]
        for sc in scales:
            bs = [conc(x, sc) for x in c["bs"]]
            obs = [conc(x, sc) for x in c["obs"]]
            for v in variants:
                jobs.append({"id": len(jobs), "calls": variant_calls(v, bs, obs)})
                meta.append((ci, sc, v))
    res = run_api(ctx, exe, jobs, "hist", nproc=12)
    nok = 0
    for j, (ci, sc, variant) in zip(jobs, meta):
        c = cases[ci]
        rs = res[j["id"]]
        rp = {"calls": j["calls"], "case": {"bs": [show(x) for x in c["bs"]], "obs": [show(x) for x in c["obs"]], "scale": sc, "variant": variant},
              "expect": {"accept": c["accept"], "ubs": [fbits(conc(x, sc)) for x in c["ubs"]], "cum": c["cum"], "count": c["count"], "sum": ("nan" if c["sum"]["c"] == "nan" else fbits(conc(c["sum"], sc)))}}
        pan = [x for x in rs if "panic" in x]
        if pan:
            ctx.violation("panic", "%s with buckets %s: %s" % (variant, rp["case"]["bs"], pan[0]), rp)
            continue
        why = judge(c, sc, rs)
        if why:
            key, what = why
            ctx.violation(key, "%s, buckets %s (scale %g), observations %s: %s" % (variant, rp["case"]["bs"], sc, rp["case"]["obs"], what), rp)
        else:
            nok += 1
    # code -> spec: arbitrary f64 bounds / observations, rank-transformed and judged by HistOracle (TLC)
    nrec, nrej = random_f64_traces(ctx, exe)
    nok += nrec - nrej
    ctx.cov.update({
        "traces_validated_against_impl": nok, "random_f64_cases_judged_by_HistOracle": nrec, "cases": len(cases), "executions": len(jobs), "executions_conforming": nok,
        "samples": [{"bs": [show(x) for x in c["bs"]], "obs": [show(x) for x in c["obs"]], "accept": c["accept"], "cum": c["cum"], "sum": show(c["sum"])} for c in (cases[10], cases[len(cases) // 2], cases[-5])],
        "exhaustive": True,
        "rule": "TLC enumerates all bucket lists of length <=3 over {-Inf,-1,-0,0,1,2,+Inf,NaN} (acceptance) and all accepted lists x observation sequences of length <=%d over 10 values incl. bounds, NaN, infinities; "
                "each case concretised at scales {1, 0.5, 2^-1074, 2^970} and executed through Histogram, a HistogramVec child, LocalHistogram+flush and a mixed path; buckets, cumulative counts, count and bit-exact sum compared" % (2 if quick else 3),
    })
    ctx.assumptions += ["sums are exact in f64 for the generated integers x scale, so 'sum in observation order' is compared bit for bit"]


def random_f64_traces(ctx, exe):
    from grpa import oracle
    rnd = random.Random(ctx.seed * 7 + 8)
    n = 400 if ctx.quick else 20000

    def rf():
        r = rnd.random()
        if r < 0.06:
            return float("nan")
        if r < 0.12:
            return rnd.choice([float("inf"), float("-inf")])
        if r < 0.2:
            return rnd.choice([0.0, -0.0])
        if r < 0.6:
            return struct.unpack("<d", struct.pack("<Q", rnd.getrandbits(64)))[0]
        return rnd.choice([1.0, -1.0]) * rnd.random() * 10 ** rnd.randint(-3, 3)
    jobs, raw = [], []
    for i in range(n):
        nb = rnd.randint(1, 5) if rnd.random() < 0.9 else rnd.randint(40, 300)        # sometimes a long bucket list
        if rnd.random() < 0.7 or nb > 5:
            bs = sorted(set(x for x in (rf() for _ in range(nb)) if x == x))
            if rnd.random() < 0.2 and bs:
                bs.append(float("inf"))
            if not bs:
                bs = [1.0]
        else:
            bs = [rf() for _ in range(nb)]
        pool = bs + [rf() for _ in range(3)]
        obs = [rnd.choice(pool) if rnd.random() < 0.5 else rf() for _ in range(rnd.randint(0, 8))]
        # nextafter neighbours of bounds are the interesting observations
        obs += [math.nextafter(b, math.inf) for b in bs[:1] if b == b and abs(b) != math.inf] + [math.nextafter(b, -math.inf) for b in bs[-1:] if b == b and abs(b) != math.inf]
        if nb > 5:
            mid = [b for b in rnd.sample(bs, min(6, len(bs))) if b == b and abs(b) != math.inf]
            obs += mid + [math.nextafter(b, math.inf) for b in mid[:3]] + [float("nan")]
        variant = ["histogram", "vec_child", "local", "mixed", "scraped", "local_batches"][i % 6]
        jobs.append({"id": i, "calls": variant_calls(variant, bs, obs)})
        raw.append((bs, obs, variant))
    res = run_api(ctx, exe, jobs, "rf64", nproc=12)
    recs, idx = [], []
    for j, (bs, obs, variant) in zip(jobs, raw):
        rs = res[j["id"]]
        if any("panic" in x for x in rs):
            ctx.violation("panic", "random f64 case panicked: %s" % [x for x in rs if "panic" in x][0], {"calls": j["calls"], "case": {"bs": bs, "obs": obs, "variant": variant}, "expect": None})
            continue
        accepted = all("ok" in x or "skip" in x for x in rs) and "ok" in rs[-1]
        fin = sorted(set(x for x in bs + obs if x == x and abs(x) != math.inf and x != 0.0))
        neg = [x for x in fin if x < 0]
        pos = [x for x in fin if x > 0]
        # order-preserving ranks: negatives -> -k..-1, zero -> 0, positives -> 1..k
        rank = {x: -(len(neg) - k) for k, x in enumerate(neg)}
        rank.update({x: k + 1 for k, x in enumerate(pos)})
        rank[0.0] = 0

        def ab(x):
            if x != x:
                return {"c": "nan", "n": 0}
            if x == math.inf:
                return {"c": "pinf", "n": 0}
            if x == -math.inf:
                return {"c": "ninf", "n": 0}
            if x == 0.0 and math.copysign(1, x) < 0:
                return {"c": "nz", "n": 0}
            return {"c": "fin", "n": rank[x]}
        rec = {"bs": [ab(x) for x in bs], "obs": [ab(x) for x in obs], "accepted": accepted, "cum": [], "count": 0}
        if accepted:
            h = rs[-1]["ok"]["hist"]
            rec["cum"] = [b[1] for b in h["b"]]
            rec["count"] = h["count"]
            # arithmetic clause, recomputed outside the specification: sum in observation order (direct path only)
            if variant in ("histogram", "vec_child", "scraped"):
                acc = 0.0
                for x in obs:
                    acc += x
                got = fval(h["sum"])
                if not ((acc != acc and got != got) or fbits(acc) == h["sum"]["bits"]):
                    ctx.violation("sample-sum-random", "%s: sum of %s in observation order is %r, histogram reports %r" % (variant, obs, acc, got), {"calls": j["calls"], "case": {"bs": bs, "obs": obs, "variant": variant}, "expect": None})
        recs.append(rec); idx.append((j, bs, obs, variant))
    rej = oracle(ctx, "HistOracle", "AllOK", recs, "rf64", chunk=5000)
    for i in sorted(rej):
        j, bs, obs, variant = idx[i]
        ctx.violation("random-f64:" + ("acceptance" if recs[i]["accepted"] != (all(x == x for x in bs) and all(a < b for a, b in zip(bs, bs[1:]))) else "counts"),
                      "%s with bounds %s and observations %s: recorded acceptance/counts %s are rejected by HistOracle" % (variant, bs, obs, {k: recs[i][k] for k in ("accepted", "cum", "count")}),
                      {"calls": j["calls"], "case": {"bs": bs, "obs": obs, "variant": variant}, "expect": None})
    return len(recs), len(rej)


def judge(c, sc, rs):
    made = all("ok" in x for x in rs[:-1] if True) and "ok" in rs[-1]
    created = "ok" in rs[0] and ("ok" in rs[1] if len(rs) > 1 and False else True)
    # acceptance: every constructing call succeeded (for a vector: new and the first child)
    ctor_ok = all("ok" in x for x in rs) if c["accept"] else None
    accepted = all("ok" in x or "skip" in x for x in rs) and "ok" in rs[-1]
    if accepted != c["accept"]:
        if accepted:
            kinds = set(x["c"] for x in c["bs"])
            key = "accepts-invalid-buckets:" + ("nan" if "nan" in kinds else "not-increasing")
        else:
            key = "rejects-valid-buckets"
        return key, "configuration %s but the specification says %s" % ("accepted" if accepted else "refused (%s)" % [x for x in rs if "err" in x][:1], "accepted" if c["accept"] else "refused")
    if not accepted:
        return None
    h = rs[-1]["ok"]["hist"]
    if not c["bs"]:
        if [fval(b[0]) for b in h["b"]] != DEFAULTS:
            return "default-buckets", "empty bucket list did not select the default buckets: %s" % [fval(b[0]) for b in h["b"]]
        return None
    exp_ubs = [conc(x, sc) for x in c["ubs"]]
    if len(h["b"]) != len(exp_ubs) or any(not same_bits(e, b[0]) for e, b in zip(exp_ubs, h["b"])):
        return "bucket-bounds", "bounds reported %s, expected %s" % ([fval(b[0]) for b in h["b"]], exp_ubs)
    got_cum = [b[1] for b in h["b"]]
    if got_cum != c["cum"]:
        return "cumulative-counts", "cumulative counts %s, expected %s" % (got_cum, c["cum"])
    if h["count"] != c["count"]:
        return "sample-count", "sample count %s, expected %s" % (h["count"], c["count"])
    es = conc(c["sum"], sc)
    if not same_bits(es, h["sum"]):
        return "sample-sum", "sample sum %r, expected %r" % (fval(h["sum"]), es)
    return None


def replay(path):
    d = json.load(open(path))
    rp = d["replay"]
    ctx = Ctx("C08_replay", "quick", 0, LEVEL)
    exe = build_harness()
    rs = run_api(ctx, exe, [{"id": 0, "calls": rp["calls"]}], "replay")[0]
    print("  case:", rp["case"])
    for c, r in zip(rp["calls"], rs):
        print("  ", c["op"], "->", json.dumps(r)[:300])
    e = rp["expect"]
    accepted = all("ok" in x or "skip" in x for x in rs) and "ok" in rs[-1]
    bad = accepted != e["accept"] or any("panic" in x for x in rs)
    if accepted and e["accept"] and rp["case"]["bs"]:
        h = rs[-1]["ok"]["hist"]
        bad = bad or [b[0]["bits"] for b in h["b"]] != e["ubs"] or [b[1] for b in h["b"]] != e["cum"] or h["count"] != e["count"] or \
            (h["sum"]["c"] != "nan" if e["sum"] == "nan" else h["sum"]["bits"] != e["sum"])
    print("  expected:", e)
    print("verdict:", "violates Histogram spec" if bad else "conforms")
    shutil.rmtree(ctx.work, ignore_errors=True)
    return 1 if bad else 0
