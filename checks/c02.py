"""C02 — every histogram snapshot is one consistent cut of the observations."""
from histcheck import *
LEVEL = "model_checking"

Q = {"threads": ["o1", "c1", "c2"], "bounds": [1, 3],
     "scripts": {"o1": [{"k": "obs", "v": 1}, {"k": "obs", "v": 4}], "c1": [{"k": "collect"}, {"k": "collect"}], "c2": [{"k": "collect"}]},
     "allow_never": []}
A = {"threads": ["o1", "o2", "c1"], "bounds": [1, 3],
     "scripts": {"o1": [{"k": "obs", "v": 1}, {"k": "obs", "v": 4}], "o2": [{"k": "obs", "v": 2}], "c1": [{"k": "collect"}, {"k": "collect"}]}}
B = {"threads": ["o1", "o2", "c1", "c2"], "bounds": [1, 3],
     "scripts": {"o1": [{"k": "obs", "v": 1}, {"k": "obs", "v": 4}], "o2": [{"k": "flush", "vs": [2, 8]}],
                 "c1": [{"k": "collect"}, {"k": "collect"}], "c2": [{"k": "collect"}, {"k": "sum"}]}}


# a local-histogram batch racing with collections (the batch must be in a snapshot entirely or not at all)
QF = {"threads": ["f1", "c1"], "bounds": [1, 3],
      "scripts": {"f1": [{"k": "flush", "vs": [1, 4]}, {"k": "obs", "v": 2}], "c1": [{"k": "collect"}, {"k": "collect"}]}}


# the same scripts on a histogram with 40 buckets (bucket lookup, snapshot assembly and flush loops over a long list)
Awide = dict(A, bounds=list(range(1, 41)))
# ... and on histograms with no finite bucket at all (declared with the single bound +Inf) and with a single one
Ainf = dict(A, bounds=[])
Aone = dict(A, bounds=[3])


def run(ctx):
    exe = build_harness()
    stats, samples = new_stats(), []
    if ctx.quick:
        run_scenario(ctx, "C02", exe, Awide, "Awide", stats, samples, model=False, nrandom=60, vias=("direct",), liveness=False, check=False)
        run_scenario(ctx, "C02", exe, Ainf, "Ainf", stats, samples, model=True, nrandom=100, vias=("direct", "registry"), liveness=False)
        run_scenario(ctx, "C02", exe, Aone, "Aone", stats, samples, model=False, nrandom=60, vias=("direct",), liveness=False, check=False)
        run_scenario(ctx, "C02", exe, Q, "Q", stats, samples, model=True, nrandom=150, vias=("vec", "registry"), liveness=False)
        run_scenario(ctx, "C02", exe, A, "A", stats, samples, model=False, nrandom=300, vias=("direct",), hb=True, liveness=False)
        run_scenario(ctx, "C02", exe, QF, "QF", stats, samples, model=True, nrandom=100, vias=("direct",), liveness=False)
        run_scenario(ctx, "C02", exe, dict(A, shift=1000), "Aneg", stats, samples, model=False, nrandom=150, vias=("direct",), liveness=False, check=False)
    else:
        run_scenario(ctx, "C02", exe, Awide, "Awide", stats, samples, model=False, nrandom=2000, vias=("direct", "vec"), liveness=False, check=False)
        run_scenario(ctx, "C02", exe, Ainf, "Ainf", stats, samples, model=False, nrandom=2000, vias=("direct", "vec", "registry"), liveness=False, check=False)
        run_scenario(ctx, "C02", exe, Aone, "Aone", stats, samples, model=False, nrandom=1000, vias=("direct", "vec"), liveness=False, check=False)
        run_scenario(ctx, "C02", exe, dict(A, shift=1000), "Aneg", stats, samples, model=False, nrandom=3000, vias=("direct", "registry"), liveness=False, check=False)
        run_scenario(ctx, "C02", exe, QF, "QF", stats, samples, model=True, nrandom=2000, vias=("direct", "vec", "registry"), liveness=False)
        run_scenario(ctx, "C02", exe, Q, "Q", stats, samples, model=True, nrandom=2000, vias=("vec", "registry"), liveness=False)
        run_scenario(ctx, "C02", exe, A, "A", stats, samples, model=True, nrandom=5000, vias=("direct", "vec", "registry"), hb=True, liveness=False)
        run_scenario(ctx, "C02", exe, B, "B", stats, samples, model=False, nrandom=15000, vias=("direct", "vec", "registry"), hb=True, liveness=False)
    finish_cov(ctx, stats, samples,
               "step-level model HistImpl exhaustively checked by TLC; every edge of its state graph replayed in the real Histogram "
               "(post-state of all cells compared per step); every distinct recorded API history judged by HistCut")
    ctx.assumptions += ["sequentially consistent executions are explored on the real code; the release/acquire hand-off is decided on HistHB "
                        "with the orderings reported by the shim (DRF-style happens-before argument, not a full C++20 axiomatic model)",
                        "thread counts <= 4, <= 4 observations, 2 buckets"]


def replay(path):
    from replay_a import replay_hist
    return replay_hist("C02", path)
