"""C20 — registration macros are faithful shorthands for the explicit calls."""
from grpb import *
from grpa import mc_module
LEVEL = "model_checking"
CONSTS = [[], [["k", "v"]], [["k", "v"], ["k2", "é\"\\"]], [["k", ""]], [["k", ""], ["k2", " "]]]      # incl. empty and blank values
LABELS = [["x"], ["x", "y"], ["y", "x"]]      # incl. a list that is not in ascending order
BUCKETS = [[], [1, 2], [5], [0], [3, 0]]          # finite bounds scaled by 0.5 in the harness; 0 stands for an explicit +Inf bound


def upd_calls(m, slot):
    if m.endswith("_vec"):
        return None
    if "histogram" in m:
        return [{"op": "observe", "obj": slot, "v": 3}]
    if "gauge" in m:
        return [{"op": "set", "obj": slot, "v": 42}]
    return [{"op": "inc_by", "obj": slot, "v": 42}]


def build(case, i):
    m = case["m"]
    # help texts with blanks at either end and inner line breaks are help texts like any other
    name, help_ = "mac_%d_x" % i, ["help %d", " help %d", "help %d \n", "\thelp\n%d  "][i % 4] % i
    const = [list(p) for p in case["const"]]
    labels = list(case["labels"])
    buckets = [float("inf") if x == 0 else x * 0.5 for x in case["buckets"]]
    buckets = [F(x) for x in buckets]
    calls = [{"op": "registry", "as": "rc"}, {"op": "registry", "as": "rp", "custom": True, "prefix": "pre", "labels": [["zone", "z"]]}]
    target = {"default": None, "custom": "rc", "custom_prefixed": "rp"}[case["target"]]
    opts = {"name": name, "help": help_, "const_map": const}
    if buckets:
        opts["buckets"] = buckets
    twin = {"op": m, "opts": opts}
    if m.endswith("_vec"):
        twin["labels"] = labels
    if case["taken"] != "no":
        t0 = dict(twin, **{"as": "t0"})
        if case["taken"] == "otherkind":
            other = "counter" if "gauge" in m else "int_gauge"
            t0 = {"op": other, "as": "t0", "opts": {"name": name, "help": help_, "const_map": const}}
        calls.append(t0)
        calls.append({"op": "register", "reg": target, "obj": "t0"} if target else {"op": "default_register", "obj": "t0"})
    mc = {"op": "macro", "macro": m, "form": case["form"], "tc": case["tc"], "registry": target, "name": name, "help": help_, "as": "h", "labels": labels}
    if case["optsvia"] != "-":
        mc["optsvia"] = case["optsvia"]
    if const:
        # opts!(name, help, map1 [, map2]): split two labels over two maps to reach that arm
        if case["optsvia"] == "opts!" and len(const) == 2 and "histogram" not in m:
            mc["const"], mc["const2"] = [const[0]], [const[1]]
        else:
            mc["const"] = const
    if buckets:
        mc["buckets"] = buckets
    if target is None:
        mc.pop("registry")
    marks = {"macro": len(calls)}
    calls.append(mc)
    calls.append(dict(twin, **{"as": "t"}))
    marks["descs"] = len(calls)
    calls += [{"op": "descs", "obj": "h"}, {"op": "descs", "obj": "t"}]
    # bucket bounds and handle identity
    if m.endswith("_vec"):
        vals = ["q"] * len(labels)
        calls += [{"op": "with", "vec": "h", "vals": vals, "as": "hc"}, {"op": "with", "vec": "t", "vals": vals, "as": "tc"}]
        hs, ts = "hc", "tc"
        scalar = m[:-4]
    else:
        hs, ts = "h", "t"
        scalar = m
    calls += upd_calls(scalar, hs)
    marks["metric"] = len(calls)
    calls += [{"op": "metric", "obj": hs}, {"op": "metric", "obj": ts}]
    marks["gather"] = len(calls)
    calls += [{"op": "default_gather"}, {"op": "gather", "reg": "rc"}, {"op": "gather", "reg": "rp"}]
    if case["taken"] != "no":
        # after the refused call the earlier registration is still in place: registering it again is refused, as before the call
        marks["again"] = len(calls)
        calls.append({"op": "register", "reg": target, "obj": "t0"} if target else {"op": "default_register", "obj": "t0"})
    return calls, marks, name


def find(fams, name):
    for f in fams:
        if f["name"] == name:
            return f
    return None


def run(ctx):
    exe = build_harness()
    d = {"MCConst": "{" + ", ".join("{" + ", ".join("<<%s, %s>>" % (tla_str(k), tla_str(v)) for k, v in c) + "}" for c in CONSTS) + "}",
         "MCLabels": "{" + ", ".join(to_tla(l) for l in LABELS) + "}", "MCBuckets": "{" + ", ".join(to_tla(b) for b in BUCKETS) + "}"}
    cfg = "CONSTANTS\n  ConstPool <- MCConst\n  LabelPool <- MCLabels\n  BucketPool <- MCBuckets\nSPECIFICATION Spec\nINVARIANT Emit\nCHECK_DEADLOCK FALSE\n"
    r = tlc(ctx, "Macros", cfg, mc_text=mc_module("MCMacros", "Macros", d), mc_name="MCMacros", workers=8, label="gen", timeout=3000)
    if not r["ok"]:
        raise ToolError("Macros failed:\n" + r["output"][-3000:])
    cases = printed_values(r["output"], "CASE")
    jobs, meta = [], []
    for i, c in enumerate(cases):
        calls, marks, name = build(c, i)
        jobs.append({"id": i, "calls": calls}); meta.append((marks, name))
    # the option-building macros themselves: labels!, opts!, histogram_opts! against the explicit values
    ojobs = []
    for tc in (False, True):
        for ps in ([], [["a", "1"]], [["a", "1"], ["b", "é"]]):
            ojobs.append({"id": 10 ** 5 + len(ojobs), "calls": [{"op": "labels_macro", "pairs": ps, "tc": tc}], "expect": sorted(map(list, ps))})
        for const in CONSTS:
            for via_two in (False, True):
                c = {"op": "opts_macro", "name": "n", "help": "h", "tc": tc}
                if const:
                    if via_two and len(const) == 2:
                        c["const"], c["const2"] = [const[0]], [const[1]]
                    else:
                        c["const"] = const
                ojobs.append({"id": 10 ** 5 + len(ojobs), "calls": [c], "expect": {"name": "n", "help": "h", "ns": "", "sub": "", "const": sorted(map(list, const)), "var": []}})
            # several label maps that repeat a name: the explicit twin is Opts::const_labels of the maps merged left to right with
            # HashMap::extend (what the macro body spells out), so the LATER map's value stands
            if tc is False and const:
                k0, v0 = const[0]
                c = {"op": "opts_macro", "name": "n", "help": "h", "tc": tc, "const": const + [["zz", "first"]], "const2": [[k0, v0 + "-later"], ["zz", "second"]]}
                merged = dict(map(tuple, const)); merged.update({"zz": "second", k0: v0 + "-later"})
                ojobs.append({"id": 10 ** 5 + len(ojobs), "calls": [c], "expect": {"name": "n", "help": "h", "ns": "", "sub": "", "const": sorted(map(list, merged.items())), "var": []}})
            for b in ([], [0.5, 1.0]):
                if const and not b:
                    continue
                c = {"op": "histogram_opts_macro", "name": "n", "help": "h", "tc": tc}
                if b:
                    c["buckets"] = b
                if const:
                    c["const"] = const
                ojobs.append({"id": 10 ** 5 + len(ojobs), "calls": [c], "expect_h": {"name": "n", "help": "h", "const": sorted(map(list, const)), "buckets": b}})
    # three and four label maps, disjoint and overlapping (later maps win)
    for tc in (False, True):
        for maps in ([[["a", "1"]], [["b", "2"]], [["c", "3"]]], [[["a", "1"], ["z", "0"]], [["b", "2"]], [["a", "9"], ["c", "3"]]], [[["a", "1"]], [["b", "2"]], [["c", "3"]], [["d", "4"], ["b", "8"]]], [[], [], [["only", "third"]]]):
            c = {"op": "opts_macro", "name": "n", "help": "h", "tc": tc}
            merged = {}
            for k, mp in enumerate(maps):
                c["const" if k == 0 else "const%d" % (k + 1)] = mp
                merged.update(dict(map(tuple, mp)))
            ojobs.append({"id": 10 ** 5 + len(ojobs), "calls": [c], "expect": {"name": "n", "help": "h", "ns": "", "sub": "", "const": sorted(map(list, merged.items())), "var": []}})
    for hp in (" h", "h ", "h\n", " "):
        ojobs.append({"id": 10 ** 5 + len(ojobs), "calls": [{"op": "opts_macro", "name": "n", "help": hp, "tc": False}], "expect": {"name": "n", "help": hp, "ns": "", "sub": "", "const": [], "var": []}})
        ojobs.append({"id": 10 ** 5 + len(ojobs), "calls": [{"op": "histogram_opts_macro", "name": "n", "help": hp, "tc": False}], "expect_h": {"name": "n", "help": hp, "const": [], "buckets": []}})
    res = run_api(ctx, exe, vary_builder_order(jobs, ctx.seed) + [{"id": j["id"], "calls": j["calls"]} for j in ojobs], "macro", nproc=12)
    nok = 0
    for j, (marks, name), c in zip(jobs, meta, cases):
        rs = res[j["id"]]
        arm = "register_%s%s!(%s%s)" % (c["m"], "" if c["target"] == "default" else "_with_registry", c["form"], ", trailing comma" if c["tc"] else "")
        rp = {"calls": j["calls"], "case": c}
        pan = [x for x in rs if "panic" in x]
        if pan:
            ctx.violation("panic", "%s: %s" % (arm, pan[0]["panic"][:200]), rp); continue
        mr = rs[marks["macro"]]
        if c["outcome"] != "Ok":
            if kind(mr) != "AlreadyReg" and "err" not in mr:
                ctx.violation("refused-registration-not-err", "%s with an already registered descriptor evaluated to %s" % (arm, json.dumps(mr)[:200]), rp); continue
            # the refused call changed nothing: the metric registered before it is still exposed by the targeted registry and still registered
            gi = marks["gather"] + {"default": 0, "custom": 1, "custom_prefixed": 2}[c["target"]]
            fam = find(rs[gi].get("ok", []), ("pre_" if c["target"] == "custom_prefixed" else "") + name)
            ag = rs[marks["again"]]
            scalar_before = c["taken"] == "otherkind" or not c["m"].endswith("_vec")      # a vector without children exposes no family
            if (fam is None and scalar_before) or "err" not in ag:
                ctx.violation("refused-call-changed-the-registry", "%s was refused (name taken), after which the earlier metric %s and registering it again gives %s" % (
                    arm, "is no longer gathered" if fam is None else "is still gathered", json.dumps(ag)[:120]), rp); continue
            nok += 1
            continue
        if "ok" not in mr:
            ctx.violation("macro-failed", "%s failed: %s" % (arm, json.dumps(mr)[:200]), rp); continue
        dh, dt = rs[marks["descs"]], rs[marks["descs"] + 1]
        if "ok" not in dh or "ok" not in dt or dh["ok"] != dt["ok"]:
            ctx.violation("descriptor-differs", "%s creates %s, the explicit constructor creates %s" % (arm, json.dumps(dh)[:300], json.dumps(dt)[:300]), rp); continue
        mh, mt = rs[marks["metric"]], rs[marks["metric"] + 1]
        unread = [x for x in [mh, mt] + rs[marks["gather"]:marks["gather"] + 3] if "ok" not in x]
        if unread:
            ctx.violation("unreadable", "%s: the created metric or a registry could not be read: %s" % (arm, json.dumps(unread[0])[:200]), rp); continue
        if "histogram" in c["m"]:
            bh = [b[0]["bits"] for b in mh["ok"]["hist"]["b"]]
            bt = [b[0]["bits"] for b in mt["ok"]["hist"]["b"]]
            if bh != bt:
                ctx.violation("buckets-differ", "%s: bucket bounds %s, explicit constructor %s" % (arm, [fval(b[0]) for b in mh["ok"]["hist"]["b"]], [fval(b[0]) for b in mt["ok"]["hist"]["b"]]), rp); continue
        g = {"default": rs[marks["gather"]]["ok"], "custom": rs[marks["gather"] + 1]["ok"], "custom_prefixed": rs[marks["gather"] + 2]["ok"]}
        wrong = [t for t in g if (find(g[t], ("pre_" if t == "custom_prefixed" else "") + name) is not None) != (t == c["target"])]
        if wrong:
            ctx.violation("wrong-registry", "%s targeting the %s registry: presence of %s in registries is wrong for %s" % (arm, c["target"], name, wrong), rp); continue
        fam = find(g[c["target"]], ("pre_" if c["target"] == "custom_prefixed" else "") + name)
        smp = fam["metrics"][0]
        val = smp["hist"]["count"] if "hist" in smp else (smp["gauge"].get("i") if "gauge" in c["m"] else smp["counter"].get("i"))
        want = 1 if "histogram" in c["m"] else 42
        if val != want:
            ctx.violation("handle-not-the-registered-metric", "%s: updating the returned handle does not change the gathered sample (%s instead of %s)" % (arm, val, want), rp); continue
        nok += 1
    for j in ojobs:
        rr = res[j["id"]][0]
        got = rr.get("ok")
        if "expect" in j:
            good = got == j["expect"] or (isinstance(got, list) and sorted(map(list, got)) == j["expect"])
        else:
            e = j["expect_h"]
            good = got is not None and got["name"] == e["name"] and got["help"] == e["help"] and sorted(map(list, got["const"])) == e["const"] and \
                ([fval(b) for b in got["buckets"]] == (e["buckets"] or [0.005, 0.01, 0.025, 0.05, 0.1, 0.25, 0.5, 1.0, 2.5, 5.0, 10.0]))
        if not good:
            ctx.violation("options-macro", "%s evaluated to %s" % (json.dumps(j["calls"][0])[:200], json.dumps(rr)[:300]), {"calls": j["calls"], "case": {}})
        else:
            nok += 1
    # register_static_*_vec!(Struct, args...) of the static-metric crate: each is register_*_vec!(args...) followed by Struct::from.
    # Fixed program (harness binary vh_af, mode regstatic): every form next to its explicit twin, compared sample by sample
    p = sh([os.path.join(os.path.dirname(exe), "vh_af"), "regstatic"], timeout=300, check=False)
    try:
        out = json.loads(p.stdout.strip().splitlines()[-1])
    except Exception:
        raise ToolError("vh_af regstatic failed (%d): %s" % (p.returncode, p.stdout[-2000:]))
    nstatic = 0
    if "panic" in out:
        ctx.violation("static-register-macro:panic", "register_static_*_vec! panicked: %s" % out["panic"][:300], {"calls": [], "case": {"static": True}})
    else:
        for x in out["ok"]:
            if x["macro"] != x["twin"]:
                ctx.violation("static-register-macro", "register_static_%s: the registered metric differs from the explicit twin's: %s vs %s" % (x["form"], json.dumps(x["macro"])[:300], json.dumps(x["twin"])[:300]), {"calls": [], "case": {"static": True, "form": x["form"]}})
            else:
                nstatic += 1
    nok += nstatic
    ctx.cov["static_register_macro_forms_conforming"] = nstatic
    # "registers in the default registry when none is named" — also when the macro calls of several threads are the process's very
    # first use of the default registry: fresh processes, 8 threads released together
    nfirst = 0
    for run_i in range(40 if ctx.quick else 600):
        p = sh([os.path.join(os.path.dirname(exe), "vh_af"), "firstuse", "8"], timeout=120, check=False)
        try:
            seen = json.loads(p.stdout.strip().splitlines()[-1])["ok"]
        except Exception:
            ctx.violation("first-use:crashed", "a fresh process whose threads register through the macros at once ended with status %d: %s" % (p.returncode, p.stdout[-300:]), {"calls": [], "case": {"firstuse": True}})
            break
        bad = [x for x in seen if not x["ok"] or x["gathered"] != x["i"] + 1]
        if bad:
            ctx.violation("first-use:not-in-default-registry", "8 threads of a fresh process call register_*! at the same moment; afterwards prometheus::gather() shows (thread, macro returned Ok, gathered value) %s — expected value i+1 for every thread" % [(x["i"], x["ok"], x["gathered"]) for x in bad][:4], {"calls": [], "case": {"firstuse": True}})
            break
        nfirst += 1
    nok += nfirst
    ctx.cov["fresh_process_first_use_runs_conforming"] = nfirst
    ctx.cov.update({"traces_validated_against_impl": nok, "macro_cases": len(cases), "option_macro_cases": len(ojobs), "conforming": nok,
                    "arms_covered": len({(c["m"], c["form"], c["tc"], c["target"] == "default") for c in cases}),
                    "samples": [cases[0], cases[len(cases) // 2]], "exhaustive": True,
                    "rule": "TLC enumerates (macro, arm, trailing comma, options built by opts!/histogram_opts! or explicitly, constant-label maps, label lists, bucket lists, target registry, fresh/taken name); "
                            "each arm is expanded at compile time in the harness and compared with its explicit twin: descriptor (name, help, labels, id, dimension), bucket bounds, presence in exactly the targeted registry, "
                            "update through the returned handle visible in gather(), refused registration = Err"})
    ctx.assumptions += ["an arm added to src/macros.rs later is not covered until it is listed in harness/src/macro_arms.rs and Macros.tla"]


def replay(path):
    d = json.load(open(path))
    rp = d["replay"]
    if rp.get("case", {}).get("firstuse"):
        exe = build_harness()
        for _ in range(40):
            print(sh([os.path.join(os.path.dirname(exe), "vh_af"), "firstuse", "8"], timeout=120, check=False).stdout.strip()[-400:])
        print("verdict: every thread's metric must be gathered with value i+1 in every run above")
        return 1
    if rp.get("case", {}).get("static"):
        exe = build_harness()
        print(sh([os.path.join(os.path.dirname(exe), "vh_af"), "regstatic"], timeout=300, check=False).stdout[-4000:])
        print("verdict: compare 'macro' and 'twin' of each form above")
        return 1
    ctx = Ctx("C20_replay", "quick", 0, LEVEL)
    exe = build_harness()
    rs = run_api(ctx, exe, [{"id": 0, "calls": rp["calls"]}], "replay")[0]
    for c, r in zip(rp["calls"], rs):
        print("  ", json.dumps(c)[:200], "->", json.dumps(r)[:300])
    print("verdict: see the call results above; re-run `bin/check C20` for the judgement")
    shutil.rmtree(ctx.work, ignore_errors=True)
    return 1
