"""Group A plumbing: step-level model (TLC) -> edge-cover replay in the real code under the deterministic
scheduler -> API-level oracle spec (TLC) over the recorded histories."""
import json, os, random, subprocess, concurrent.futures as cf
from common import *


def mc_module(name, extends, defs):
    body = "\n".join("%s == %s" % (k, v) for k, v in defs.items())
    return "---------------------------- MODULE %s ----------------------------\nEXTENDS %s\n%s\n=============================================================================\n" % (name, extends, body)


def run_jobs(ctx, exe, scen, jobs, tag, nproc=8, want_ops=False, timeout=1800):
    """Split jobs over harness processes; returns list of result dicts (order = job order per chunk)."""
    if not jobs:
        return []
    nproc = max(1, min(nproc, (len(jobs) + 19) // 20))
    chunks = [jobs[i::nproc] for i in range(nproc)]
    files = []
    for i, ch in enumerate(chunks):
        inp = ctx.path("%s_in_%d.ndjson" % (tag, i))
        outp = ctx.path("%s_out_%d.ndjson" % (tag, i))
        with open(inp, "w") as f:
            f.write(json.dumps(scen) + "\n")
            for j in ch:
                f.write(json.dumps(j, separators=(",", ":")) + "\n")
        files.append((inp, outp))

    def one(io):
        """runs one chunk; a job on which the harness got stuck (exit 4: a thread blocked on something the scheduler does not control) is
        recorded as {"stuck": true} and the jobs after it are run by a fresh process"""
        inp, outp = io
        lines = open(inp).read().splitlines()
        head, rest = lines[0], lines[1:]
        out = []
        for rnd in range(8):
            args = ["conc", inp, outp] + (["ops"] if want_ops else [])
            p = vh(exe, args, timeout=timeout, check=True, ok_codes=(0, 3, 4))
            got = [json.loads(x) for x in open(outp)]
            out += got
            if p.returncode != 4:
                return out
            rest = rest[len(got):]
            if not rest:
                return out
            with open(inp, "w") as f:
                f.write(head + "\n" + "\n".join(rest) + "\n")
        raise ToolError("the harness got stuck on 8 schedules of one chunk (%s)" % inp)
    res = []
    with cf.ThreadPoolExecutor(max_workers=nproc) as ex:
        for out in ex.map(one, files):
            res += out
    stuck = [x for x in res if x.get("stuck")]
    if stuck:
        log("MODEL-DRIFT property=%s scenario=%s: %d schedule(s) could not be driven to the end (a thread blocked outside the scheduler's control), e.g. %s; no verdict for them" % (ctx.pid, tag, len(stuck), stuck[0]["id"]))
        ctx.cov["stuck_schedules"] = ctx.cov.get("stuck_schedules", 0) + len(stuck)
    res = [x for x in res if not x.get("stuck")]
    return inject_conc_fault(res)


def model_jobs(ctx, proj_module, scen_defs, cfg_consts, pc_op, thread_names, label, step_label="PStep", workers=4, max_states=400000):
    """TLC -dump of the projection module -> edge cover -> model-mode jobs."""
    mc = mc_module("MC" + label, proj_module, scen_defs)
    cfg = "CONSTANTS\n%s\nSPECIFICATION PSpec\nCHECK_DEADLOCK FALSE\n" % cfg_consts
    dump = ctx.path("graph_%s" % label)
    r = tlc(ctx, proj_module, cfg, mc_text=mc, mc_name="MC" + label, workers=workers, dump=dump, coverage=False, label="dump" + label, timeout=1200)
    if not r["ok"]:
        raise ToolError("TLC graph dump failed:\n" + r["output"][-3000:])
    nodes, edges, init = parse_dot(dump + ".dot", step_label)
    paths, nedges = edge_cover(nodes, edges, init)
    jobs = []
    for i, p in enumerate(paths):
        steps = []
        for (u, t, v) in p:
            pcu = nodes[u]["pc"][t]
            st = {"t": t, "post": {k: x for k, x in nodes[v].items() if k not in ("pc", "ip")}}
            op = pc_op(pcu, nodes[u], t)
            if op:
                st["op"] = op
            steps.append(st)
        jobs.append({"id": "%s-m%d" % (label, i), "mode": "model", "steps": steps})
    os.remove(dump + ".dot")
    return jobs, {"states": len(nodes), "edges": nedges, "paths": len(paths), "steps": sum(len(p) for p in paths), "distinct": r["distinct"], "generated": r["generated"]}


def random_jobs(label, n, seed, styles=("uniform", "pct")):
    rnd = random.Random(seed)
    return [{"id": "%s-r%d" % (label, i), "mode": "random", "seed": rnd.randrange(1 << 48), "style": styles[i % len(styles)]} for i in range(n)]


def pb_explore(ctx, exe, scen, label, bound, cap, nproc=8):
    """Preemption-bounded systematic exploration of the REAL code under the deterministic scheduler (stateless search in the
    style of CHESS): every schedule with at most `bound` preemptions (a switch away from a thread that could have continued),
    up to `cap` executions.  Independent of the step-level model: it also reaches interleavings of steps the model does not
    have (a changed implementation).  Each execution is a 'choices' job with a non-preemptive tail; the harness reports the
    enabled set before every step, from which the next wave of prefixes is derived."""
    results = []
    frontier = [([], 0, 0)]
    wave = 0
    truncated = False
    while frontier:
        room = cap - len(results)
        if room <= 0:
            truncated = True
            break
        if len(frontier) > room:
            # more candidates than budget: preemptions next to a lock operation or a write first (a switch between two plain
            # loads of the same thread rarely separates anything), random within each class
            truncated = True
            random.Random(ctx.seed + wave).shuffle(frontier)
            frontier.sort(key=lambda f: f[2])
            frontier = frontier[:room]
        jobs = [{"id": "%s-pb%d_%d" % (label, wave, i), "mode": "choices", "choices": f[0], "tail": "sticky", "trace_enabled": True} for i, f in enumerate(frontier)]
        meta = {j["id"]: f for j, f in zip(jobs, frontier)}
        res = run_jobs(ctx, exe, scen, jobs, "pb%s%d" % (label, wave), nproc=nproc)
        nxt = []
        for x in res:
            pref, used, _ = meta[x["id"]]
            ch, en = x["choices"], x.get("enabled", [])
            kinds = x.pop("kinds", None) or []
            en_ = x.pop("enabled", None)
            if x.get("nonterm") or x.get("diverged"):
                continue
            for i in range(len(pref), min(len(ch), len(en))):
                for a in en[i]:
                    if a == ch[i]:
                        continue
                    cost = 1 if (i > 0 and ch[i - 1] in en[i] and a != ch[i - 1]) else 0
                    if used + cost <= bound:
                        near = [k for k in (kinds[i - 1] if 0 < i <= len(kinds) else "", kinds[i] if i < len(kinds) else "") if k and not k.startswith(("Load", "CallStart"))]
                        nxt.append((ch[:i] + [a], used + cost, 0 if near else 1))
        # a schedule that exhausts the step budget under the non-preemptive tail is run again with a fair (round-robin) tail: only a
        # call that does not return under a FAIR schedule is reported as non-terminating
        sus = [x for x in res if x.get("nonterm") and not x.get("fin_hang")]
        if sus:
            by = {j["id"]: j for j in jobs}
            again = run_jobs(ctx, exe, scen, [{"id": x["id"], "mode": "choices", "choices": by[x["id"]]["choices"]} for x in sus], "pbfair%s%d" % (label, wave), nproc=nproc)
            fair = {x["id"]: x for x in again}
            res = [fair.get(x["id"], x) if (x.get("nonterm") and not x.get("fin_hang")) else x for x in res]
        results += res
        frontier = nxt
        wave += 1
    return results, {"executions": len(results), "waves": wave, "bound": bound, "complete": not truncated}


def dedup_histories(results, extra):
    """Distinct API histories (by calls+final) -> list of (history record, job id)."""
    seen = {}
    for r in results:
        if r.get("nonterm"):
            continue
        h = dict(extra)
        h["calls"] = r["calls"]
        h["final"] = r.get("fin", {})
        key = json.dumps(h, sort_keys=True)
        if key not in seen:
            seen[key] = (h, r["id"])
    return list(seen.values())


XSENT = {"+Inf": 1000000000, "-Inf": -1000000000, "NaN": 1000000007, "-0": 0}


def intify(v):
    """integral floats (e.g. the -0.0 of a scripted `set`) -> ints, so that histories stay inside the specification's integers;
    non-finite values -> the sentinels of LinGauge (PInf, NInf, NaN)"""
    if isinstance(v, str) and v in XSENT:
        return XSENT[v]
    if isinstance(v, float) and v == int(v):
        return int(v)
    if isinstance(v, list):
        return [intify(x) for x in v]
    if isinstance(v, dict):
        return {k: intify(x) for k, x in v.items()}
    return v


def ints_only(v):
    if isinstance(v, bool):
        return True
    if isinstance(v, int):
        return True
    if isinstance(v, float):
        return False
    if isinstance(v, str):
        return True
    if isinstance(v, list):
        return all(ints_only(x) for x in v)
    if isinstance(v, dict):
        return all(ints_only(x) for x in v.values())
    return False


def oracle(ctx, module, inv, hists, label, env_name="HISTS", chunk=4000, workers=2):
    """Run the oracle spec over recorded histories; returns set of rejected indices (0-based)."""
    rejected = set()
    for off in range(0, len(hists), chunk):
        part = hists[off:off + chunk]
        p = ctx.path("hists_%s_%d.ndjson" % (label, off))
        with open(p, "w") as f:
            for h in part:
                f.write(json.dumps(h, separators=(",", ":")) + "\n")
        cfg = "SPECIFICATION Spec\nINVARIANT %s\nCHECK_DEADLOCK FALSE\n" % inv
        r = tlc(ctx, module, cfg, workers=1, env={env_name: p}, coverage=False, label="oracle" + label, timeout=1800, count=False)
        if not r["ok"]:
            raise ToolError("oracle %s failed:\n%s" % (module, r["output"][-3000:]))
        for m in re.finditer(r'<<"REJECTED", (\d+)>>', r["output"]):
            rejected.add(off + int(m.group(1)) - 1)
        if r["distinct"] != len(part) + 1:
            raise ToolError("oracle %s consumed %d of %d histories" % (module, r["distinct"] - 1, len(part)))
    return rejected
