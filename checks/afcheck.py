"""Auto-flushing thread-local static metrics (AutoFlush.tla) — used by C12 (hand-over of local data) and, through it, C01.

spec -> impl: every history TLC generates from AutoFlushGen (exhaustive short ones, simulated long ones) is replayed by
harness binary vh_af against real make_auto_flush_static_metric! handles on real threads under a virtual coarse clock
(hook H4), comparing after every event the shared children, the pending data of every live thread-local root and the
clock with the model's state."""
import random
from grpb import *

KINDS = {
    # kind -> (Interval, Ticks): the counter declaration passes 100 ms to auto_flush_from!, the histogram one uses the default (1000 ms)
    "counter": (100, [60, 100]),
    "hist": (1000, [600, 1000]),
    # a FLOAT counter declaration driven with amounts of v * 2^-60 (all far below f64::EPSILON, sums exact); same model as "counter"
    "fcounter": (100, [60, 100]),
}
THREADS = ["t1", "t2"]
LEAVES = ["a", "b"]


def consts(kind):
    iv, ticks = KINDS[kind]
    return ("  Threads = {%s}\n  Leaves = {%s}\n  Kind = %s\n  Interval = %d\n  Ticks = {%s}\n  Amounts = {1, 2}\n" %
            (", ".join(map(tla_str, THREADS)), ", ".join(map(tla_str, LEAVES)), tla_str("counter" if kind == "fcounter" else kind), iv, ", ".join(map(str, ticks))))


def af_exe(exe):
    return os.path.join(os.path.dirname(exe), "vh_af")


def run_af(ctx, exe, jobs, tag, nproc=8):
    if not jobs:
        return {}
    nproc = max(1, min(nproc, (len(jobs) + 499) // 500))
    files = []
    for i in range(nproc):
        inp, outp = ctx.path("%s_af_in_%d.ndjson" % (tag, i)), ctx.path("%s_af_out_%d.ndjson" % (tag, i))
        with open(inp, "w") as f:
            for j in jobs[i::nproc]:
                f.write(json.dumps(j, separators=(",", ":")) + "\n")
        files.append((inp, outp))
    with cf.ThreadPoolExecutor(max_workers=nproc) as ex:
        list(ex.map(lambda io: vh(af_exe(exe), [io[0], io[1]], timeout=3000), files))
    res = {}
    for inp, outp in files:
        with open(outp) as f:
            for line in f:
                r = json.loads(line)
                res[r["id"]] = r["res"]
        os.remove(inp); os.remove(outp)
    if FAULT:
        for n, jid in enumerate(sorted(res)):
            if n % 7 == 3 and res[jid]:
                res[jid][-1]["shared"]["a"]["s"] = (res[jid][-1]["shared"]["a"]["s"] or 0) + 1
    return res


def judge(kind, b, rs):
    """first event at which the real objects depart from the model, or None"""
    hist = kind == "hist"

    def norm(v):
        return (v["n"] if hist else 0, v["s"])
    for n, (e, r) in enumerate(zip(b, rs)):
        if "panic" in r["res"]:
            return n, "the call panicked: %s" % r["res"]["panic"][:200]
        for t, leaves in r["locs"].items():
            for l, v in leaves.items():
                if "panic" in v:
                    return n, "reading the local metric panicked: %s" % v["panic"][:200]
        if e["op"] == "get":
            got = r["res"]["ok"]
            if norm(got) != norm(e["res"]):
                return n, "get on thread %s leaf %s returned %s, the model says %s" % (e["t"], e["l"], got, e["res"])
        o = e["obs"]
        if r["recent"] != o["clock"]:
            return n, "the coarse clock reads %s, the model says %s" % (r["recent"], o["clock"])
        for l in LEAVES:
            if norm(r["shared"][l]) != norm(o["shared"][l]):
                return n, "shared child %s holds %s, the model says %s" % (l, r["shared"][l], o["shared"][l])
        live = {t for t in THREADS if o["locs"][t][LEAVES[0]]["n"] != -1}
        if set(r["locs"]) != live:
            return n, "live roots %s, the model says %s" % (sorted(r["locs"]), sorted(live))
        for t in live:
            for l in LEAVES:
                if norm(r["locs"][t][l]["ok"]) != norm(o["locs"][t][l]):
                    return n, "thread %s still holds %s for leaf %s, the model says %s" % (t, r["locs"][t][l]["ok"], l, o["locs"][t][l])
    return None


def brief(b):
    return [(e["op"], e["t"], e["l"], e["d"] or e["v"]) for e in b]


def observed(b, rs):
    """the history as recorded from the real objects (records of AutoFlushTrace)"""
    out = [{"op": "new"}]
    for e, r in zip(b, rs):
        locs = {}
        for t in THREADS:
            if t in r["locs"]:
                locs[t] = {l: {"n": r["locs"][t][l]["ok"]["n"], "s": r["locs"][t][l]["ok"]["s"]} for l in LEAVES}
            else:
                locs[t] = {l: {"n": -1, "s": -1} for l in LEAVES}
        rec = {"op": e["op"], "t": e["t"], "l": e["l"], "d": e["d"], "v": e["v"], "res": r["res"].get("ok") or {"n": 0, "s": 0},
               "obs": {"shared": {l: {"n": r["shared"][l]["n"] or 0, "s": r["shared"][l]["s"] or 0} for l in LEAVES}, "locs": locs}}
        out.append(rec)
    return out


def arbitrate(ctx, kind, suspects, stats, label="arb"):
    """histories whose replay departed from AutoFlush.tla: the recorded history is validated against the conservation core
    (AutoFlushTrace, flush timing left open).  Rejected -> violation; accepted -> the automatic-flush policy differs from the
    model, which no listed property fixes: reported as model drift."""
    # (a deterministic selection: the order in which TLC's workers print the generated histories varies from run to run)
    suspects = sorted(suspects, key=lambda x: (len(x[0]), json.dumps(brief(x[0]))))[:60]
    drift = 0
    rounds = 0
    while suspects and rounds < 4:
        rounds += 1
        tp = ctx.path("aftrace_%s_%d.ndjson" % (kind, rounds))
        index = []
        with open(tp, "w") as f:
            for si, (b, rs, bad) in enumerate(suspects):
                for n, rec in enumerate(observed(b, rs)):
                    f.write(json.dumps(rec) + "\n")
                    index.append((si, n))
        cfg = "CONSTANTS\n%sSPECIFICATION TSpec\nINVARIANT ConservationHolds\nPOSTCONDITION TraceAccepted\nCHECK_DEADLOCK FALSE\n" % consts(kind)
        rt = tlc(ctx, "AutoFlushTrace", cfg, workers=1, env={"TRACE": tp}, coverage=False, deque=True, label="%s%s%d" % (label, kind, rounds), expect_ok=False, count=False, timeout=1800)
        m = re.search(r'TRACE-REJECTED-AT",\s*(\d+)', rt["output"])
        if m:
            si, n = index[int(m.group(1)) - 1]
            b, rs, bad = suspects[si]
            ctx.violation("autoflush:%s:%s" % (kind, b[n - 1]["op"]), "auto-flush %s metric: the history %s recorded from real threads is not explained by any flush policy — after event #%d %s the real objects show shared %s, pending %s (AutoFlush.tla replay: %s)" % (
                "counter" if kind == "counter" else "histogram", brief(b[:n]), n, b[n - 1]["op"], json.dumps(rs[n - 1]["shared"]), json.dumps(rs[n - 1]["locs"]), bad[1]),
                {"autoflush": True, "kind": kind, "events": b[:n]})
            drift += si
            suspects = suspects[si + 1:]
        elif rt["violated"]:
            ctx.violation("autoflush:%s:conservation" % kind, "auto-flush %s metric: recorded history breaks %s\n%s" % (kind, rt["violated"], rt["output"][-1500:]), {"autoflush": True, "kind": kind, "events": suspects[0][0]})
            break
        elif not rt["ok"]:
            raise ToolError("AutoFlushTrace failed:\n" + rt["output"][-3000:])
        else:
            drift += len(suspects)
            suspects = []
    if drift:
        log("MODEL-DRIFT property=C12 scenario=autoflush/%s: %d replayed histories depart from AutoFlush.tla only in WHEN an automatic flush happens (no listed property fixes the flush policy)" % (kind, drift))
        stats["af_drift"] = stats.get("af_drift", 0) + drift


def run(ctx, exe):
    quick = ctx.quick
    stats = {"af_model_states": 0, "af_behaviours": 0, "af_conforming": 0, "af_events": 0}
    for kind in ("counter", "hist", "fcounter"):
        iv, ticks = KINDS[kind]
        # 1. the design: invariants and action properties, exhaustively within a bound
        mc = "---- MODULE MCAutoFlush ----\nEXTENDS AutoFlush\nBound == clock <= %d /\\ \\A l \\in Leaves : added[l].n <= %d\n====\n" % (2 * iv, 1 if quick else 2)
        cfg = "CONSTANTS\n%sSPECIFICATION Spec\nINVARIANTS Conservation DeadHoldNothing LastNotInFuture\nPROPERTIES UpdRule Monotone\nCONSTRAINT Bound\nCHECK_DEADLOCK FALSE\n" % consts(kind)
        r = tlc(ctx, "AutoFlush", cfg, mc_text=mc, mc_name="MCAutoFlush", workers=8, label="af" + kind, timeout=3000, heap="8g")
        if not r["ok"]:
            if r["violated"]:
                ctx.violation("autoflush-model:" + r["violated"], "AutoFlush.tla (%s): %s violated\n%s" % (kind, r["violated"], r["output"][-1500:]), {"kind": kind, "tlc": r["output"][-3000:]})
                continue
            raise ToolError("AutoFlush failed:\n" + r["output"][-3000:])
        if r["actions_never"]:
            raise ToolError("AutoFlush (%s): actions never taken %s" % (kind, r["actions_never"]))
        stats["af_model_states"] += r["distinct"]
        # 2. its behaviours, replayed
        behaviours = []
        L = 4 if quick else 5
        cfg = "CONSTANTS\n%s  MaxLen = %d\nSPECIFICATION HSpec\nINVARIANTS Emit\nCONSTRAINT StartsFirst\nCHECK_DEADLOCK FALSE\n" % (consts(kind), L)
        r = tlc(ctx, "AutoFlushGen", cfg, workers=8, label="afgen" + kind, timeout=3000, heap="8g", count=False)
        if not r["ok"]:
            raise ToolError("AutoFlushGen failed: %s\n%s" % (r["violated"], r["output"][-3000:]))
        behaviours += printed_values(r["output"], "REPLAY")
        nex = len(behaviours)
        D = 12 if quick else 16
        cfg = "CONSTANTS\n%s  MaxLen = %d\nSPECIFICATION HSpec\nINVARIANTS Emit\nCONSTRAINT StartsFirst\nCHECK_DEADLOCK FALSE\n" % (consts(kind), D)
        N = 2500 if quick else 40000
        # in simulation mode TLC evaluates the invariant on every successor of the last step: ~15 histories per trace sharing a prefix
        r = tlc(ctx, "AutoFlushGen", cfg, workers=1, label="afsim" + kind, simulate="num=%d" % (N // 5), extra=["-depth", str(D + 1), "-seed", str(ctx.seed)], timeout=3000, coverage=False, count=False)
        if not r["ok"]:
            raise ToolError("AutoFlushGen (simulate) failed: %s\n%s" % (r["violated"], r["output"][-3000:]))
        sim = printed_values(r["output"], "REPLAY")
        random.Random(ctx.seed).shuffle(sim)
        sim = sim[:N]
        behaviours += sim
        jobs = [{"id": i, "kind": kind, "events": [{k: e[k] for k in ("op", "t", "l", "d", "v")} for e in b]} for i, b in enumerate(behaviours)]
        res = run_af(ctx, exe, jobs, "af" + kind, nproc=12)
        suspects = []
        for j, b in zip(jobs, behaviours):
            stats["af_behaviours"] += 1
            stats["af_events"] += len(b)
            bad = judge(kind, b, res[j["id"]])
            if bad and "panicked" in bad[1]:
                ctx.violation("autoflush:%s:panic" % kind, "auto-flush %s metric, history %s: %s" % (kind, brief(b[:bad[0] + 1]), bad[1]), {"autoflush": True, "kind": kind, "events": b[:bad[0] + 1]})
            elif bad:
                suspects.append((b, res[j["id"]], bad))
            else:
                stats["af_conforming"] += 1
        if suspects:
            arbitrate(ctx, kind, suspects, stats)
        # controls for the arbiter itself (binding / vacuity): a recorded history with one corrupted value must be rejected,
        # one that differs from the model only in flush timing must be accepted
        good = next((b, res[j["id"]]) for j, b in zip(jobs, behaviours) if sum(1 for e in b if e["op"] == "upd") >= 2 and len(b) >= 6)
        for name, want in (("corrupted", False), ("retimed", True)):
            b, rs = good
            rs = json.loads(json.dumps(rs))
            if name == "corrupted":
                rs[-1]["shared"]["a"]["s"] = (rs[-1]["shared"]["a"]["s"] or 0) + 1
                recs = observed(b, rs)
            else:
                # the same calls under an "always flush at once" policy: every update goes straight to the shared child
                recs = [{"op": "new"}]
                sh_ = {l: {"n": 0, "s": 0} for l in LEAVES}
                live = set()
                for e in b:
                    if e["op"] == "start":
                        live.add(e["t"])
                    if e["op"] == "exit":
                        live.discard(e["t"])
                    if e["op"] == "upd":
                        sh_[e["l"]] = {"n": sh_[e["l"]]["n"] + 1, "s": sh_[e["l"]]["s"] + e["v"]}
                    recs.append({"op": e["op"], "t": e["t"], "l": e["l"], "d": e["d"], "v": e["v"], "res": {"n": 0, "s": 0},
                                 "obs": {"shared": json.loads(json.dumps(sh_)), "locs": {t: {l: ({"n": 0, "s": 0} if t in live else {"n": -1, "s": -1}) for l in LEAVES} for t in THREADS}}})
            tp = ctx.path("afctl_%s_%s.ndjson" % (kind, name))
            with open(tp, "w") as f:
                for rec in recs:
                    f.write(json.dumps(rec) + "\n")
            cfg = "CONSTANTS\n%sSPECIFICATION TSpec\nINVARIANT ConservationHolds\nPOSTCONDITION TraceAccepted\nCHECK_DEADLOCK FALSE\n" % consts(kind)
            rt = tlc(ctx, "AutoFlushTrace", cfg, workers=1, env={"TRACE": tp}, coverage=False, deque=True, label="ctl%s%s" % (kind, name), expect_ok=False, count=False, timeout=600)
            acc = rt["ok"] and "TRACE-REJECTED-AT" not in rt["output"]
            if acc != want:
                raise ToolError("AutoFlushTrace control '%s' (%s) was %s:\n%s" % (name, kind, "accepted" if acc else "rejected", rt["output"][-2000:]))
        stats["af_arbiter_controls"] = stats.get("af_arbiter_controls", 0) + 2
        stats["af_exhaustive_len_%s" % kind] = L
        stats["af_exhaustive_%s" % kind] = nex
        stats["af_simulated_%s" % kind] = len(sim)
    return stats


def replay(d):
    ctx = Ctx("C12_replay", "quick", 0, "model_checking")
    exe = build_harness()
    b = d["events"]
    # the expected observations are stored with the events
    res = run_af(ctx, exe, [{"id": 0, "kind": d["kind"], "events": [{k: e[k] for k in ("op", "t", "l", "d", "v")} for e in b]}], "rp")
    bad = judge(d["kind"], b, res[0])
    for e, r in zip(b, res[0]):
        print("  %-9s %-3s %-2s d=%-5s v=%-4s -> shared %s locs %s clock %s" % (e["op"], e["t"], e["l"], e["d"], e["v"], json.dumps(r["shared"]), json.dumps(r["locs"]), r["recent"]))
    print("verdict:", "departs from AutoFlush.tla at event #%d: %s" % (bad[0] + 1, bad[1]) if bad else "conforms")
    shutil.rmtree(ctx.work, ignore_errors=True)
    return 1 if bad else 0
