"""C10 — concurrent use of a metric vector is linearizable."""
from grpa import *
LEVEL = "model_checking"

PC = {"idle": "CallStart", "g_rlock": "RLock:lock", "g_runlock": "RUnlock:lock", "g_wlock": "WLock:lock", "g_wunlock": "WUnlock:lock",
      "d_wlock": "WLock:lock", "z_wlock": "WLock:lock", "d_wunlock": "WUnlock:lock", "c_rlock": "RLock:lock", "c_child": "Load:x",
      "c_runlock": "RUnlock:lock", "h_rmw": "FetchAdd:x", "h_load": "Load:x", "h_cas": "CasWeak:x", "h_get": "Load:x"}


def op_tla(o):
    return "[" + ", ".join("%s |-> %s" % (k, to_tla(v)) for k, v in o.items()) + "]"


def script_tla(scripts):
    return " @@ ".join("(%s :> <<%s>>)" % (tla_str(t), ", ".join(op_tla(o) for o in ops)) for t, ops in scripts.items())


def consts(sc):
    amounts = sorted({o["v"] for ops in sc["scripts"].values() for o in ops if "v" in o} | {0})
    return "  Threads = {%s}\n  Script <- MCScript\n  Keys = {%s}\n  Flavor = %s\n  MaxId = %d\n  RefAmounts = {%s}\n" % (
        ", ".join(tla_str(t) for t in sc["threads"]), ", ".join(tla_str(k) for k in sc["keys"]), tla_str(sc["flavor"]), sc["maxid"], ", ".join(map(str, amounts)))


def harness_scen(sc, kind=None, share=None):
    h = {"obj": dict({"kind": kind or sc["kind"], "keys": sc["keys"], "bounds": [100]}, **({"shape": sc["shape"]} if "shape" in sc else {}), **({"share": share, "creator": sc["threads"][0]} if share else {})), "threads": sc["threads"], "scripts": sc["scripts"], "budget": sc.get("budget", 3000)}
    if "pre" in sc:
        h["pre"] = sc["pre"]          # initial population, made by the controller before the threads start
    return h


def W(key, h=0): return {"k": "with", "key": key, "h": h}
def HI(h, v): return {"k": "hinc", "h": h, "v": v}
def HG(h): return {"k": "hget", "h": h}
def RM(key): return {"k": "remove", "key": key}
RS = {"k": "reset"}
CO = {"k": "collect"}

# simultaneous first requests for one key, updates through both handles, collect
S1 = {"flavor": "int", "kind": "intcountervec", "keys": ["a", "b"], "maxid": 3, "threads": ["t1", "t2"],
      "scripts": {"t1": [W("a"), HI(0, 1), CO], "t2": [W("a"), HI(0, 2), W("b", 1)]}}
# removal while a handle is alive, re-creation starts from zero
S2 = {"flavor": "int", "kind": "intcountervec", "keys": ["a"], "maxid": 3, "threads": ["t1", "t2"],
      "scripts": {"t1": [W("a"), HI(0, 1), RM("a"), HI(0, 2)], "t2": [W("a"), HI(0, 4), CO]}}
# reset against get-or-create and collect; float children (load/CAS loop)
S3 = {"flavor": "f64", "kind": "countervec", "keys": ["a", "b"], "maxid": 4, "threads": ["t1", "t2"],
      "scripts": {"t1": [W("a"), HI(0, 1), RS, CO], "t2": [W("b"), HI(0, 2), W("a", 1), HI(1, 4)]}}
# three threads
S4 = {"flavor": "int", "kind": "intcountervec", "keys": ["a", "b"], "maxid": 4, "threads": ["t1", "t2", "t3"],
      "scripts": {"t1": [W("a"), HI(0, 1), RM("a")], "t2": [W("a"), HI(0, 2), CO], "t3": [W("b"), HI(0, 4), CO]}}
S5 = {"flavor": "f64", "kind": "countervec", "keys": ["a", "b"], "maxid": 5, "threads": ["t1", "t2", "t3"],
      "scripts": {"t1": [W("a"), HI(0, 1), RS, W("a", 1), HI(1, 8)], "t2": [W("a"), HI(0, 2), CO], "t3": [W("b"), HG(0), RM("b"), CO]}}
# concurrent removers of one child: in any sequential order only one of them can succeed
S6 = {"flavor": "int", "kind": "intcountervec", "keys": ["a"], "maxid": 3, "threads": ["t1", "t2"],
      "scripts": {"t1": [W("a"), HI(0, 1), RM("a"), CO], "t2": [W("a"), RM("a"), HI(0, 2)]}}
S7 = {"flavor": "int", "kind": "intcountervec", "keys": ["a", "b"], "maxid": 4, "threads": ["t1", "t2", "t3"],
      "scripts": {"t1": [W("a"), RM("a")], "t2": [W("a"), RM("a"), CO], "t3": [W("a"), RM("a"), RS]}}
# a LARGE vector (hundreds of children) reset while it is collected and extended: reset, collect and get-or-create are single
# atomic steps of the map however many children there are
BIGKEYS = ["k%03d" % i for i in range(300)]
S8 = {"flavor": "int", "kind": "intcountervec", "keys": [], "maxid": 0, "threads": ["t1", "t2", "t3"], "budget": 20000,
      "pre": [W(k, 0) for k in BIGKEYS],
      "scripts": {"t1": [RS], "t2": [CO, CO], "t3": [W("zz", 1), HI(1, 1), CO]}}
# a HUGE vector (over a thousand children) that only grows while it is collected: nothing is ever removed, so every child that
# exists before the threads start is in every collection exactly once, whatever else happens
HUGEKEYS = ["h%04d" % i for i in range(1100)]
S9 = {"flavor": "int", "kind": "intcountervec", "keys": [], "maxid": 0, "threads": ["t1", "t2"], "budget": 40000, "stable": True,
      "pre": [W(k, 0) for k in HUGEKEYS],
      "scripts": {"t1": [CO, CO], "t2": [W("zz", 1), HI(1, 1), W("aa", 0), HI(0, 2)]}}
# two simultaneous first requests for one key while a third thread removes ANOTHER child (the number of children is the same before
# and after): both requests must still get the same child
S10 = {"flavor": "int", "kind": "intcountervec", "keys": ["k", "f"], "maxid": 4, "threads": ["t1", "t2", "t3"], "pre": [W("f", 0)],
       "scripts": {"t1": [W("k"), HI(0, 1)], "t2": [W("k"), HI(0, 2)], "t3": [RM("f"), CO]}}
# the same races with requests arriving through the labels-map entry points (with / get_metric_with / remove) and mixed with the positional ones
def WM(key, h=0): return {"k": "with", "key": key, "h": h, "form": "map"}
def RMM(key): return {"k": "remove", "key": key, "form": "map"}
S1m = dict(S1, scripts={"t1": [WM("a"), HI(0, 1), CO], "t2": [W("a"), HI(0, 2), WM("b", 1)]})
S6m = dict(S6, scripts={"t1": [WM("a"), HI(0, 1), RMM("a"), CO], "t2": [WM("a"), RM("a"), HI(0, 2)]})
S10m = dict(S10, scripts={"t1": [WM("k"), HI(0, 1)], "t2": [WM("k"), HI(0, 2)], "t3": [RMM("f"), CO]})
# the same races on a vector with a constant label and two variable labels declared out of alphabetical order
S1o, S6o, S10o = dict(S1, shape="odd"), dict(S6m, shape="odd"), dict(S10, shape="odd")
# a thread that alternates between two existing children while another removes and re-creates one of them
S11 = {"flavor": "int", "kind": "intcountervec", "keys": ["x", "y"], "maxid": 4, "threads": ["t1", "t2"], "pre": [W("x", 0), W("y", 0)],
       "scripts": {"t1": [W("y", 0), W("x", 1), HI(1, 1), W("y", 0), W("x", 1), HI(1, 4)], "t2": [RM("x"), W("x", 0), HI(0, 2), CO]}}
INVS = "LockSafety OneChildPerKey FreshHandleIsCurrent IdsBounded"


def run_scenario(ctx, exe, sc, label, stats, samples, model=True, nrandom=0, kinds=None, nproc=8, check=True, pb=None):
    d = {"MCScript": script_tla(sc["scripts"])}
    r = {"ok": True, "actions_never": []} if not check else tlc(ctx, "VecImpl", "CONSTANTS\n%s\nSPECIFICATION Spec\nINVARIANTS %s\nPROPERTIES Termination RefinesVec\nCHECK_DEADLOCK FALSE\n" % (consts(sc), INVS),
            mc_text=mc_module("MC" + label, "VecImpl", d), mc_name="MC" + label, workers=8, label="inv" + label)
    if not r["ok"]:
        raise ToolError("VecImpl %s violates %s (specification error)\n%s" % (label, r["violated"], r["output"][-2500:]))
    stats["never"][label] = r["actions_never"]
    kinds = kinds or [sc["kind"]]
    results = []
    if model:
        jobs, g = model_jobs(ctx, "VecProj", d, consts(sc), lambda pc, node, t: PC.get(pc), sc["threads"], label, workers=8)
        for kind in kinds:
            res = run_jobs(ctx, exe, harness_scen(sc, kind), jobs, "m" + label + kind, nproc=nproc)
            for x in res:
                x["kind"] = kind
            nd = sum(1 for x in res if x.get("drift"))
            stats["edges_total"] += g["edges"]; stats["edges_matched"] += g["edges"] if nd == 0 else 0
            stats["paths"] += g["paths"]; stats["steps"] += g["steps"]; stats["conforming"] += len(res) - nd
            if nd:
                log("MODEL-DRIFT property=C10 scenario=%s/%s: %d of %d replayed paths left the model (first: %s)" % (label, kind, nd, len(res), json.dumps(next(x["drift"] for x in res if x.get("drift")))[:600]))
            results += res
            if res and len(samples) < 3:
                samples.append({"scenario": label, "object": kind, "job": res[0]["id"], "schedule": res[0]["choices"][:50], "calls": res[0]["calls"], "final": res[0].get("fin")})
    if nrandom:
        for kind in kinds:
            jobs = random_jobs(label + kind, nrandom, ctx.seed * 15485863 + len(label + kind))
            res = run_jobs(ctx, exe, harness_scen(sc, kind), jobs, "r" + label + kind, nproc=nproc)
            for x in res:
                x["kind"] = kind
            results += res
            stats["random"] += len(res)
    # preemption-bounded systematic search on the real code (independent of the step-level model)
    pbb = pb or ((2, 300) if ctx.quick else (3, 10000))
    for kind in kinds:
        res, info = pb_explore(ctx, exe, harness_scen(sc, kind, "ref"), label + kind, pbb[0], pbb[1], nproc=nproc)
        for x in res:
            x["kind"] = kind
            x["share"] = "ref"
        results += res
        stats["pb_executions"] = stats.get("pb_executions", 0) + info["executions"]
        stats["pb_searches"] = stats.get("pb_searches", 0) + 1
    seen = {}
    for x in results:
        rp = {"scenario": harness_scen(sc, x["kind"], x.get("share")), "job": {"id": x["id"], "mode": "choices", "choices": x["choices"]}}
        if x.get("nonterm"):
            stats["nonterm"] += 1
            ctx.violation("nonterminating", "a call did not return within the step budget (%s) under schedule %s" % ("deadlock" if x.get("deadlock") else "livelock", x["id"]), rp)
            continue
        if x.get("panics"):
            ctx.violation("panic", "library code panicked: %s" % x["panics"], rp)
        if x.get("drift"):
            stats["drift"] += 1
            if len(ctx.drift) < 5:
                ctx.drift.append({"scenario": label, "job": x["id"], "drift": x["drift"]})
        h = history_of(x)
        if sc.get("stable"):
            # corollary of LinVec for keys that exist throughout and are never touched: each is collected exactly once with its value
            # unchanged.  Checked here, after which those keys (independent of all others) are left out of what LinVec has to search
            stable = {o["key"] for o in sc["pre"]} - {o.get("key") for t in sc["scripts"].values() for o in t}
            bad = None
            for c in h["calls"]:
                if c["k"] == "collect":
                    cnt = {}
                    for k, v in c["res"]:
                        cnt[k] = cnt.get(k, 0) + 1
                    dup = sorted(k for k in cnt if cnt[k] > 1)
                    miss = sorted(k for k in stable if k not in cnt)
                    if dup or miss:
                        bad = "a collection by %s shows %d children twice (e.g. %s) and misses %d that exist throughout (e.g. %s)" % (c["t"], len(dup), dup[:2], len(miss), miss[:2])
                        break
                    c["res"] = [[k, v] for k, v in c["res"] if k not in stable]
            if bad:
                ctx.violation("collect-not-a-set-of-children", "scenario %s on a %s, schedule %s: %s" % (label, x["kind"], x["id"], bad), rp)
                continue
            h["calls"] = [c for c in h["calls"] if not (c["t"] == "pre" and c.get("key") in stable)]
        key = json.dumps(h, sort_keys=True)
        if key not in seen:
            seen[key] = (h, x)
    good = []
    for h, x in seen.values():
        if not ints_only(h):
            ctx.violation("value-not-integral", "a value no combination of the (integer) updates explains: job %s" % x["id"],
                          {"scenario": harness_scen(sc, x["kind"], x.get("share")), "job": {"id": x["id"], "mode": "choices", "choices": x["choices"]}, "history": h})
        else:
            good.append((h, x))
    rej = oracle(ctx, "LinVec", "Linearizable", [h for h, _ in good], label)
    for i in sorted(rej):
        h, x = good[i]
        ctx.violation("history-rejected", "LinVec finds no linearization of the recorded history of job %s on a %s (scenario %s)" % (x["id"], x["kind"], label),
                      {"scenario": harness_scen(sc, x["kind"], x.get("share")), "job": {"id": x["id"], "mode": "choices", "choices": x["choices"]}, "history": h})
    stats["histories"] += len(good)
    stats["rejected"] += len(rej)


def _val(v):
    # histogram children: the snapshot's sum stands for the value (observations are distinct powers of two)
    return v["sum"] if isinstance(v, dict) else v


def history_of(x):
    calls = []
    for c in x["calls"]:
        if c["k"] == "collect":
            c = dict(c, res=[[k, _val(v)] for k, v in c["res"]])
        calls.append(c)
    if x.get("fin", {}).get("collect") is not None:
        x = dict(x, fin={"collect": [[k, _val(v)] for k, v in x["fin"]["collect"]]})
    big = max([c["ret"] for c in calls] + [0]) + 10
    fin = x.get("fin", {}).get("collect")
    if fin is not None:
        calls.append({"t": "ctl", "i": 1, "k": "collect", "inv": big, "ret": big + 1, "res": fin})
    return {"calls": calls}


def run(ctx):
    from atomcheck import new_stats, finish_cov
    exe = build_harness()
    stats, samples = new_stats(), []
    if ctx.quick:
        run_scenario(ctx, exe, S1, "S1", stats, samples, nrandom=100, kinds=["intcountervec"])
        run_scenario(ctx, exe, S2, "S2", stats, samples, nrandom=100, kinds=["intcountervec"])
        run_scenario(ctx, exe, S3, "S3", stats, samples, nrandom=100, kinds=["countervec"])
        run_scenario(ctx, exe, S6, "S6", stats, samples, nrandom=300, kinds=["intcountervec"])
        run_scenario(ctx, exe, S8, "S8", stats, samples, model=False, check=False, nrandom=40, kinds=["intcountervec"], pb=(2, 40))
        run_scenario(ctx, exe, S10, "S10", stats, samples, model=False, check=False, nrandom=200, kinds=["intcountervec"], pb=(2, 500))
        for sc, lb in ((S1m, "S1m"), (S6m, "S6m"), (S10m, "S10m"), (S1o, "S1o"), (S6o, "S6o"), (S10o, "S10o"), (S11, "S11")):
            run_scenario(ctx, exe, sc, lb, stats, samples, model=False, check=False, nrandom=100, kinds=["intcountervec", "countervec"] if lb in ("S1m", "S1o") else ["intcountervec"], pb=(2, 300))
        run_scenario(ctx, exe, S9, "S9", stats, samples, model=False, check=False, nrandom=6, kinds=["intcountervec"], pb=(1, 24))
        # composition: a vector of HISTOGRAMS (children are sharded histograms, updates are observe calls)
        run_scenario(ctx, exe, S2, "S2h", stats, samples, model=False, check=False, nrandom=150, kinds=["histogramvec"])
    else:
        for sc, lb in ((S1, "S1h"), (S2, "S2h"), (S3, "S3h"), (S6, "S6h")):
            run_scenario(ctx, exe, sc, lb, stats, samples, model=False, check=False, nrandom=3000, kinds=["histogramvec"])
        run_scenario(ctx, exe, S8, "S8", stats, samples, model=False, check=False, nrandom=1500, kinds=["intcountervec", "countervec"], pb=(2, 1500))
        run_scenario(ctx, exe, S10, "S10", stats, samples, model=False, check=False, nrandom=5000, kinds=["intcountervec", "countervec"], pb=(3, 20000))
        for sc, lb in ((S1m, "S1m"), (S6m, "S6m"), (S10m, "S10m")):
            run_scenario(ctx, exe, sc, lb, stats, samples, model=False, check=False, nrandom=3000, kinds=["intcountervec", "countervec", "histogramvec"], pb=(3, 10000))
        for sc, lb in ((S1o, "S1o"), (S6o, "S6o"), (S10o, "S10o"), (S11, "S11")):
            run_scenario(ctx, exe, sc, lb, stats, samples, model=False, check=False, nrandom=3000, kinds=["intcountervec", "countervec"], pb=(3, 10000))
        run_scenario(ctx, exe, S9, "S9", stats, samples, model=False, check=False, nrandom=100, kinds=["intcountervec", "countervec"], pb=(2, 600))
        run_scenario(ctx, exe, S6, "S6", stats, samples, nrandom=3000, kinds=["intcountervec", "countervec"])
        run_scenario(ctx, exe, S7, "S7", stats, samples, model=False, nrandom=10000, kinds=["intcountervec"])
        run_scenario(ctx, exe, S1, "S1", stats, samples, nrandom=2000, kinds=["intcountervec"])
        run_scenario(ctx, exe, S2, "S2", stats, samples, nrandom=2000, kinds=["intcountervec"])
        run_scenario(ctx, exe, S3, "S3", stats, samples, nrandom=2000, kinds=["countervec"])
        run_scenario(ctx, exe, S4, "S4", stats, samples, nrandom=10000, kinds=["intcountervec"])
        run_scenario(ctx, exe, S5, "S5", stats, samples, model=False, nrandom=20000, kinds=["countervec"])
    seq_histories(ctx, exe, stats)
    finish_cov(ctx, stats, samples, "VecImpl (lock steps + child cell steps) exhaustively checked by TLC; every edge replayed in the real vector with lock holders and "
               "children compared; every distinct history judged by LinVec (linearizability of the key->child map; per-child values by the counter rule); "
               "sequential histories enumerated and judged by the same oracle")
    ctx.assumptions += ["SC executions; 2-3 threads; 1-2 keys; collect is judged per child (it is not an atomic snapshot of several counters, nor does the property ask for one)"]


def seq_histories(ctx, exe, stats):
    """'The same sequential behaviour holds for every single-threaded history': all call sequences of bounded
    length over a small alphabet, executed by one thread, judged by the same oracle."""
    import itertools
    alphabet = [W("a", 0), W("a", 1), W("b", 0), HI(0, 0), HI(1, 0), HG(0), RM("a"), RM("b"), RS, CO, RMM("a"), RMM("b"), WM("b", 1)]
    L = 4 if ctx.quick else 5
    jobs_by_scen = []
    n = 0
    for seq in itertools.product(range(len(alphabet)), repeat=L):
        ops = []
        bound = set()
        pw = 1
        ok = True
        for j in seq:
            o = dict(alphabet[j])
            if o["k"] == "with":
                bound.add(o["h"])
            if o["k"] in ("hinc", "hget") and o["h"] not in bound:
                ok = False
                break
            if o["k"] == "hinc":
                o["v"] = pw
                pw *= 2
            ops.append(o)
        if not ok or not any(o["k"] == "with" for o in ops):
            continue
        n += 1
        if not ctx.quick or n % 3 == ctx.seed % 3:
            jobs_by_scen.append(ops)
    # one scenario per script; batch them through the harness one file each would be slow: use the 'seq' subcommand
    inp, outp = ctx.path("seq_in.ndjson"), ctx.path("seq_out.ndjson")
    with open(inp, "w") as f:
        for i, ops in enumerate(jobs_by_scen):
            f.write(json.dumps({"id": i, "obj": {"kind": "intcountervec" if i % 2 == 0 else "countervec", "keys": ["a", "b"]}, "ops": ops}) + "\n")
    vh(exe, ["seq", inp, outp])
    hs = []
    for line in open(outp):
        r = json.loads(line)
        calls = r["calls"]
        big = len(calls) * 2 + 10
        calls.append({"t": "ctl", "i": 1, "k": "collect", "inv": big, "ret": big + 1, "res": r["fin"]["collect"]})
        hs.append(({"calls": calls}, r))
    rej = oracle(ctx, "LinVec", "Linearizable", [h for h, _ in hs], "seq")
    for i in sorted(rej):
        h, r = hs[i]
        ctx.violation("sequential-history-rejected", "LinVec rejects a single-threaded history: %s" % json.dumps([c["k"] for c in h["calls"]]),
                      {"kind": "seq", "obj": r["obj"], "ops": jobs_by_scen[r["id"]], "history": h})
    stats["histories"] += len(hs)
    stats["rejected"] += len(rej)
    ctx.cov["sequential_histories"] = len(hs)


def replay(path):
    d = json.load(open(path))
    rp = d["replay"]
    ctx = Ctx("C10_replay", "quick", 0, "model_checking")
    exe = build_harness()
    if rp.get("kind") == "seq":
        inp, outp = ctx.path("seq_in.ndjson"), ctx.path("seq_out.ndjson")
        open(inp, "w").write(json.dumps({"id": 0, "obj": rp["obj"], "ops": rp["ops"]}) + "\n")
        vh(exe, ["seq", inp, outp])
        r = json.loads(open(outp).readline())
        calls = r["calls"]
        big = len(calls) * 2 + 10
        calls.append({"t": "ctl", "i": 1, "k": "collect", "inv": big, "ret": big + 1, "res": r["fin"]["collect"]})
        h = {"calls": calls}
    else:
        res = run_jobs(ctx, exe, rp["scenario"], [rp["job"]], "replay", nproc=1, want_ops=True)
        r = res[0]
        for o in r.get("ops", []):
            print("  step", json.dumps(o))
        if r.get("nonterm"):
            print("verdict: non-terminating")
            return 1
        h = history_of(r)
    for c in h["calls"]:
        print("  call", json.dumps(c))
    rej = oracle(ctx, "LinVec", "Linearizable", [h], "replay") if ints_only(h) else {0}
    print("verdict:", "rejected by LinVec" if rej else "accepted by LinVec")
    shutil.rmtree(ctx.work, ignore_errors=True)
    return 1 if rej else 0
