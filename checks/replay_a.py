"""Replay of group A replay files: re-executes the recorded schedule on the current tree, prints the
step trace and the API history, and asks the oracle spec for its verdict."""
from grpa import *


def _rerun(pid, path):
    d = json.load(open(path))
    rp = d["replay"]
    ctx = Ctx(pid + "_replay", "quick", 0, "model_checking")
    if rp.get("kind") == "tlc-counterexample":
        print(rp.get("tlc_tail", ""))
        print("replay: TLC counterexample on the happens-before model parameterised with orderings observed from the code; re-run `bin/check %s` to re-derive it" % pid)
        return ctx, None, rp
    exe = build_harness()
    res = run_jobs(ctx, exe, rp["scenario"], [rp["job"]], "replay", nproc=1, want_ops=True)
    r = res[0]
    for o in r.get("ops", []):
        print("  step", json.dumps(o))
    for c in r["calls"]:
        print("  call", json.dumps(c))
    print("  final", json.dumps(r.get("fin")))
    return ctx, r, rp


def replay_hist(pid, path):
    ctx, r, rp = _rerun(pid, path)
    if r is None:
        return 1
    rc = 0
    if r.get("nonterm"):
        print("verdict: non-terminating"); rc = 1
    elif r.get("panics"):
        print("verdict: panic", r["panics"]); rc = 1
    else:
        h = {"bounds": rp["scenario"]["obj"]["bounds"], "calls": r["calls"], "final": r.get("fin", {})}
        if not ints_only(h):
            print("verdict: rejected (non-integral snapshot)"); rc = 1
        else:
            rej = oracle(ctx, "HistCut", "AllCuts", [h], "replay")
            print("verdict:", "rejected by HistCut" if rej else "accepted by HistCut")
            rc = 1 if rej else 0
    shutil.rmtree(ctx.work, ignore_errors=True)
    return rc
