"""Registry under concurrency (extension of C06 beyond sequential histories): RegImpl (step level, extends Registry) checked by
TLC incl. refinement of the sequential Registry spec; edge-cover replay in the real Registry under the deterministic scheduler;
recorded histories judged by LinReg (linearizability w.r.t. Registry.tla)."""
from grpa import *

UNIV = {"a1": ("n1", "h1", "-"), "a2": ("n1", "h2", "-"), "a3": ("n1", "h1", "1"), "b1": ("n2", "h1", "-")}
PC = {"idle": "CallStart", "r_wlock": "WLock:lock", "u_wlock": "WLock:lock", "wunlock": "WUnlock:lock", "g_rlock": "RLock:lock", "g_child": "Load:x",
      "g_runlock": "RUnlock:lock", "c_add": "FetchAdd:x"}


def REG(c): return {"k": "reg", "c": c}
def UNR(c): return {"k": "unreg", "c": c}
def INC(c, v): return {"k": "cinc", "c": c, "v": v}
GA = {"k": "gather"}

R1 = {"threads": ["t1", "t2"], "scripts": {"t1": [REG("a1"), INC("a1", 1), GA], "t2": [REG("a3"), UNR("a1"), GA]}}
R2 = {"threads": ["t1", "t2"], "scripts": {"t1": [REG("a1"), UNR("a1"), REG("a2")], "t2": [REG("a2"), GA, INC("a2", 2)]}}
R3 = {"threads": ["t1", "t2", "t3"], "scripts": {"t1": [REG("b1"), GA], "t2": [INC("b1", 1), GA], "t3": [UNR("b1"), REG("b1")]}}
R4 = {"threads": ["t1", "t2", "t3"], "scripts": {"t1": [REG("a1"), REG("b1"), GA], "t2": [REG("a3"), UNR("b1"), INC("a3", 4)], "t3": [GA, REG("a2"), GA]}}


# the same collector unregistered by two threads at once while a third registers it again: exactly as many unregisters succeed as
# registrations were in place
R5 = {"threads": ["t1", "t2", "t3"], "scripts": {"t1": [REG("a1"), UNR("a1"), GA], "t2": [UNR("a1"), GA], "t3": [UNR("a1"), REG("a1"), INC("a1", 2)]}}
R6 = {"threads": ["t1", "t2"], "scripts": {"t1": [REG("b1"), UNR("b1"), UNR("b1")], "t2": [UNR("b1"), REG("b1"), GA]}}


def univ_tla():
    return "[" + ", ".join('%s |-> <<[name |-> "%s", help |-> "%s", cl |-> "%s", vl |-> "0"]>>' % (c, n, h, k) for c, (n, h, k) in UNIV.items()) + "]"


def script_tla(scripts):
    def op(o):
        return "[" + ", ".join("%s |-> %s" % (k, to_tla(v)) for k, v in o.items()) + "]"
    return " @@ ".join("(%s :> <<%s>>)" % (tla_str(t), ", ".join(op(o) for o in ops)) for t, ops in scripts.items())


def consts(sc):
    return "  Collectors <- MCUniv\n  CommonConst = FALSE\n  Threads = {%s}\n  Script <- MCScript\n" % ", ".join(tla_str(t) for t in sc["threads"])


def harness_scen(sc):
    return {"obj": {"kind": "registry", "collectors": {c: {"name": n, "help": h, "k": k} for c, (n, h, k) in UNIV.items()}},
            "threads": sc["threads"], "scripts": sc["scripts"], "budget": 3000}


def history_of(x):
    calls = list(x["calls"])
    big = max([c["ret"] for c in calls] + [0]) + 10
    calls.append({"t": "ctl", "i": 1, "k": "gather", "inv": big, "ret": big + 1, "res": x["fin"]["gather"]})
    return {"calls": calls}


def run_scenario(ctx, exe, sc, label, stats, model=True, nrandom=0):
    d = {"MCUniv": univ_tla(), "MCScript": script_tla(sc["scripts"])}
    r = tlc(ctx, "RegImpl", "CONSTANTS\n%s\nSPECIFICATION ISpec\nINVARIANTS LockSafety GatherSeesSnapshot DistinctIds DimsAgree\nPROPERTIES Termination RefinesRegistry\nCHECK_DEADLOCK FALSE\n" % consts(sc),
            mc_text=mc_module("MCReg" + label, "RegImpl", d), mc_name="MCReg" + label, workers=8, label="reginv" + label)
    if not r["ok"]:
        raise ToolError("RegImpl %s violates %s (specification error)\n%s" % (label, r["violated"], r["output"][-2500:]))
    results = []
    if model:
        jobs, g = model_jobs(ctx, "RegProj", d, consts(sc), lambda pc, node, t: PC.get(pc), sc["threads"], "Reg" + label, workers=8)
        res = run_jobs(ctx, exe, harness_scen(sc), jobs, "mreg" + label)
        nd = sum(1 for x in res if x.get("drift"))
        stats["edges_total"] += g["edges"]; stats["edges_matched"] += g["edges"] if nd == 0 else 0
        stats["paths"] += g["paths"]; stats["conforming"] += len(res) - nd
        if nd:
            log("MODEL-DRIFT property=C06 scenario=registry-concurrent/%s: %d of %d replayed paths left the model (first: %s)" % (label, nd, len(res), json.dumps(next(x["drift"] for x in res if x.get("drift")))[:600]))
            ctx.drift.append({"scenario": "registry-concurrent/" + label, "drift": next(x["drift"] for x in res if x.get("drift"))})
        results += res
    if nrandom:
        res = run_jobs(ctx, exe, harness_scen(sc), random_jobs("reg" + label, nrandom, ctx.seed * 31 + len(label)), "rreg" + label)
        results += res
        stats["random"] += len(res)
    # preemption-bounded systematic search on the real code (independent of the step-level model)
    res, info = pb_explore(ctx, exe, harness_scen(sc), "reg" + label, 2 if ctx.quick else 3, 200 if ctx.quick else 6000)
    results += res
    stats["pb_executions"] = stats.get("pb_executions", 0) + info["executions"]
    seen = {}
    for x in results:
        rp = {"kind": "concurrent", "scenario": harness_scen(sc), "job": {"id": x["id"], "mode": "choices", "choices": x["choices"]}}
        if x.get("nonterm"):
            ctx.violation("concurrent:nonterminating", "a registry call did not return within the step budget under schedule %s" % x["id"], rp)
            continue
        if x.get("panics"):
            ctx.violation("concurrent:panic", "registry code panicked: %s" % x["panics"], rp)
        h = history_of(x)
        key = json.dumps(h, sort_keys=True)
        if key not in seen:
            seen[key] = (h, x)
    good = list(seen.values())
    p = ctx.path("reghists_%s.ndjson" % label)
    with open(p, "w") as f:
        for h, _ in good:
            f.write(json.dumps(h, separators=(",", ":")) + "\n")
    mc = mc_module("MCLinReg" + label, "LinReg", {"MCUniv": univ_tla()})
    rt = tlc(ctx, "LinReg", "CONSTANTS\n  Collectors <- MCUniv\n  CommonConst = FALSE\nSPECIFICATION LSpec\nINVARIANT Linearizable\nCHECK_DEADLOCK FALSE\n", mc_text=mc, mc_name="MCLinReg" + label, workers=1,
             env={"HISTS": p}, coverage=False, label="linreg" + label, count=False, timeout=1800)
    if not rt["ok"] or rt["distinct"] != len(good) + 1:
        raise ToolError("LinReg failed:\n" + rt["output"][-3000:])
    for m in re.finditer(r'<<"REJECTED", (\d+)>>', rt["output"]):
        h, x = good[int(m.group(1)) - 1]
        ctx.violation("concurrent:history-rejected", "LinReg finds no linearization of the recorded registry history of job %s (scenario %s): %s" % (x["id"], label, [(c["t"], c["k"], c.get("c"), c["res"]) for c in h["calls"]]),
                      {"kind": "concurrent", "scenario": harness_scen(sc), "job": {"id": x["id"], "mode": "choices", "choices": x["choices"]}, "history": h})
        stats["rejected"] += 1
    stats["histories"] += len(good)


def run(ctx, exe):
    stats = {"edges_total": 0, "edges_matched": 0, "paths": 0, "conforming": 0, "random": 0, "histories": 0, "rejected": 0}
    if ctx.quick:
        run_scenario(ctx, exe, R1, "R1", stats, nrandom=100)
        run_scenario(ctx, exe, R2, "R2", stats, nrandom=100)
        run_scenario(ctx, exe, R6, "R6", stats, nrandom=100)
        run_scenario(ctx, exe, R5, "R5", stats, model=False, nrandom=200)
    else:
        for sc, lb in ((R1, "R1"), (R2, "R2"), (R3, "R3")):
            run_scenario(ctx, exe, sc, lb, stats, nrandom=3000)
        run_scenario(ctx, exe, R4, "R4", stats, model=False, nrandom=10000)
        run_scenario(ctx, exe, R6, "R6", stats, nrandom=3000)
        run_scenario(ctx, exe, R5, "R5", stats, model=False, nrandom=10000)
    return stats


def replay(rp):
    ctx = Ctx("C06_replay", "quick", 0, "model_checking")
    exe = build_harness()
    res = run_jobs(ctx, exe, rp["scenario"], [rp["job"]], "replay", nproc=1, want_ops=True)
    x = res[0]
    for o in x.get("ops", []):
        print("  step", json.dumps(o))
    if x.get("nonterm"):
        print("verdict: non-terminating"); return 1
    h = history_of(x)
    for c in h["calls"]:
        print("  call", json.dumps(c))
    p = ctx.path("h.ndjson")
    open(p, "w").write(json.dumps(h) + "\n")
    mc = mc_module("MCLinRegR", "LinReg", {"MCUniv": univ_tla()})
    rt = tlc(ctx, "LinReg", "CONSTANTS\n  Collectors <- MCUniv\n  CommonConst = FALSE\nSPECIFICATION LSpec\nINVARIANT Linearizable\nCHECK_DEADLOCK FALSE\n", mc_text=mc, mc_name="MCLinRegR", workers=1, env={"HISTS": p}, coverage=False, count=False)
    bad = "REJECTED" in rt["output"]
    print("verdict:", "rejected by LinReg" if bad else "accepted by LinReg")
    shutil.rmtree(ctx.work, ignore_errors=True)
    return 1 if bad else 0
