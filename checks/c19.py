"""C19 — static-metric accessors address exactly the declared label values."""
import random, itertools
from grpb import *
LEVEL = "model_checking"
KINDS = [("Counter", False), ("IntCounter", False), ("Gauge", False), ("IntGauge", False), ("Histogram", False),
         ("LocalCounter", False), ("LocalIntCounter", False), ("LocalHistogram", False),
         ("LocalCounter", True), ("LocalIntCounter", True), ("LocalHistogram", True)]
VEC = {"Counter": "CounterVec", "IntCounter": "IntCounterVec", "Gauge": "GaugeVec", "IntGauge": "IntGaugeVec", "Histogram": "HistogramVec"}


def base(kind):
    return kind.replace("Local", "")


# field names with diverse first characters (identifiers are arbitrary; value strings default to the field name)
NAMEPOOL = ["read", "rr", "_x", "Type", "e", "r2", "ok", "Zz", "a_b", "f"]


def fname(i, j):
    return "%s_%d_%d" % (NAMEPOOL[(3 * (i - 1) + (j - 1)) % len(NAMEPOOL)], i, j)


def root(j, lab):
    while lab["vals"][j - 1]["kind"] == "alias":
        j -= 1
    return j


def value_of(i, j, lab):
    """the label VALUE (the runtime string): renamed values contain a blank, a non-ASCII letter, a tab, a quote and a backslash"""
    r = root(j, lab)
    return "v-%d.%d é\t\"q\"\\" % (i, r) if lab["vals"][r - 1]["kind"] == "renamed" else fname(i, r)


def rust_lit(s):
    """the string as a Rust literal body: escape sequences for tab, quote, backslash, and \\u{..} for the non-ASCII letter"""
    return "".join({"\t": "\\t", '"': '\\"', "\\": "\\\\", "é": "\\u{e9}"}.get(ch, ch) for ch in s)


def decl_of(i, j, lab):
    """text after the field name in the declaration: '' for a plain value, ': "value"' otherwise"""
    return "" if lab["vals"][j - 1]["kind"] == "plain" else ': "%s"' % rust_lit(value_of(i, j, lab))


def update(kind, amt):
    b = base(kind)
    if b == "Histogram":
        return ".observe(%d as f64)" % amt
    if b == "Counter":
        return ".inc_by(%d as f64)" % amt
    if b == "IntCounter":
        return ".inc_by(%d)" % amt
    if b == "Gauge":
        return ".add(%d as f64)" % amt
    return ".add(%d)" % amt


def gen_case(ci, labels, perm, kind, auto, etag=None):
    etag = ci if etag is None else etag       # enum names are unique per declaration, except for deliberate twins (see run)
    n = len(labels)
    lines = ["mod case_%d {" % ci, "    use prometheus::*;", "    use prometheus::local::*;", "    use prometheus_static_metric::*;", "    use lazy_static::lazy_static;"]
    mac = "make_auto_flush_static_metric" if auto else "make_static_metric"
    lines.append("    %s! {" % mac)
    for i, lab in enumerate(labels, 1):
        if lab["enum"]:
            lines.append("        pub label_enum E%s_%d {" % (etag, i))
            for j, v in enumerate(lab["vals"], 1):
                lines.append("            %s%s," % (fname(i, j), decl_of(i, j, lab)))
            lines.append("        }")
    lines.append("        pub struct S: %s {" % kind)
    for i, lab in enumerate(labels, 1):
        if lab["enum"]:
            lines.append('            "l%d" => E%s_%d,' % (i, etag, i))
        else:
            lines.append('            "l%d" => {' % i)
            for j, v in enumerate(lab["vals"], 1):
                lines.append("                %s%s," % (fname(i, j), decl_of(i, j, lab)))
            lines.append("            },")
    lines.append("        }")
    lines.append("    }")
    names = ", ".join('"l%d"' % p for p in perm)
    vec_t = VEC[base(kind)]
    ctor = '%s::new(%s, &[%s]).unwrap()' % (vec_t, 'HistogramOpts::new("m", "h")' if base(kind) == "Histogram" else 'Opts::new("m", "h")', names)
    if auto:
        lines.append("    lazy_static! { pub static ref VEC: %s = %s; }" % (vec_t, ctor))
        lines.append("    lazy_static! { pub static ref TLS: S = auto_flush_from!(VEC, S, std::time::Duration::from_secs(3600)); }")
        # the SAME declared struct instantiated a second time, for another vector (handles of one instance must not reach the other's cells)
        ctor2 = ctor.replace('"m", "h"', '"m2", "h"')
        lines.append("    lazy_static! { pub static ref VEC2: %s = %s; }" % (vec_t, ctor2))
        lines.append("    lazy_static! { pub static ref TLS2: S = auto_flush_from!(VEC2, S, std::time::Duration::from_secs(3600)); }")
    lines.append("    pub fn run() -> serde_json::Value {")
    if auto:
        lines.append("        let vec: &%s = &VEC; let s: &S = &TLS;" % vec_t)
    else:
        lines.append("        let vec = %s; let s = S::from(&vec); let s = &s; let vec = &vec;" % ctor)
    leaves = list(itertools.product(*[range(1, len(l["vals"]) + 1) for l in labels]))
    expected = []
    pushes = []
    any_enum = any(l["enum"] for l in labels)
    for L, p in enumerate(leaves):
        forms = []
        acc1 = "s" + "".join(".%s" % fname(i, j) for i, j in enumerate(p, 1))
        forms.append((1, acc1))
        if any_enum:
            acc2 = "s" + "".join((".get(E%s_%d::%s)" % (etag, i, fname(i, j))) if labels[i - 1]["enum"] else ".%s" % fname(i, j) for i, j in enumerate(p, 1))
            forms.append((2, acc2))
        if not auto:
            acc3 = "s" + "".join('.try_get("%s").unwrap()' % rust_lit(value_of(i, j, labels[i - 1])) for i, j in enumerate(p, 1))
            forms.append((3, acc3))
            if n >= 2:   # mixed: field first, try_get afterwards
                acc4 = "s.%s" % fname(1, p[0]) + "".join('.try_get("%s").unwrap()' % rust_lit(value_of(i, j, labels[i - 1])) for i, j in list(enumerate(p, 1))[1:])
                forms.append((4, acc4))
        total = 0
        for f, acc in forms:
            amt = (L + 1) * 10 + f
            total += amt
            lines.append("        %s%s;" % (acc, update(kind, amt)))
            pushes.append("%s%s;" % (acc, update(kind, amt)))
        mult = 2 if auto else 1      # auto-flush handles are also driven from a second thread (each thread has its own local metrics)
        lab_map = {"l%d" % i: value_of(i, j, labels[i - 1]) for i, j in enumerate(p, 1)}
        prev = next((e for e in expected if e["labels"] == lab_map), None)
        if prev is not None:          # an alias path: the same child as an earlier leaf
            prev["total"] += total * mult
            prev["n"] += len(forms) * mult
        else:
            expected.append({"labels": lab_map, "total": total * mult, "n": len(forms) * mult})
    expected2 = []
    for L, p in enumerate(leaves):
        lab_map = {"l%d" % i: value_of(i, j, labels[i - 1]) for i, j in enumerate(p, 1)}
        prev2 = next((e for e in expected2 if e["labels"] == lab_map), None)
        if prev2 is not None:
            prev2["total"] += 1000 + L; prev2["n"] += 1
        else:
            expected2.append({"labels": lab_map, "total": 1000 + L, "n": 1})
    gen_case.last_expected2 = expected2
    lines.append("        let mut none_ok = true;")
    if not auto:
        lines.append('        none_ok &= s.try_get("__undeclared__").is_none();')
        if labels[0]["vals"][0]["kind"] == "renamed":
            lines.append('        none_ok &= s.try_get("%s").is_none();      // a renamed value is addressed by its value, not by its field name' % fname(1, 1))
        if n >= 2:
            lines.append('        none_ok &= s.%s.try_get("__undeclared__").is_none();' % fname(1, 1))
            lines.append('        none_ok &= s.%s.try_get("%s").is_none();' % (fname(1, 1), rust_lit(value_of(1, 1, labels[0]))))
    lines.append("        #[allow(unused_mut)] let mut mid: Vec<serde_json::Value> = vec![];")
    if auto:
        # the same accessor paths from a second thread, flushed there: its updates must arrive through ITS thread-local metrics,
        # i.e. be visible after ITS flush while the first thread's updates are still pending
        lines.append("        std::thread::spawn(|| { let s: &S = &TLS; %s s.flush(); }).join().unwrap();" % " ".join(pushes))
        lines.append("        for mf in prometheus::core::Collector::collect(vec) { for m in mf.get_metric() { mid.push(crate::pm::metric_json(m, mf.get_field_type())); } }")
    if auto:
        # second instance: every leaf gets 1000 + its number through the field path, then only the second instance is flushed
        lines.append("        let s2: &S = &TLS2;")
        for L, p in enumerate(leaves):
            lines.append("        s2%s%s;" % ("".join(".%s" % fname(i, j) for i, j in enumerate(p, 1)), update(kind, 1000 + L)))
        lines.append("        s2.flush();")
        lines.append("        let mut out2 = vec![];")
        lines.append("        for mf in prometheus::core::Collector::collect(&*VEC2) { for m in mf.get_metric() { out2.push(crate::pm::metric_json(m, mf.get_field_type())); } }")
    if kind.startswith("Local"):
        lines.append("        s.flush();")
    lines.append("        let mut out = vec![];")
    lines.append("        for mf in prometheus::core::Collector::collect(vec) { for m in mf.get_metric() {")
    lines.append("            out.push(crate::pm::metric_json(m, mf.get_field_type()));")
    lines.append("        } }")
    if auto:
        lines.append('        serde_json::json!({"children": out, "children_mid": mid, "none_ok": none_ok, "children2": out2})')
    else:
        lines.append('        serde_json::json!({"children": out, "children_mid": mid, "none_ok": none_ok})')
    lines.append("    }")
    lines.append("}")
    return "\n".join(lines), expected


def run(ctx):
    quick = ctx.quick
    # TLC generates (and checks) initial states on one thread: the thorough enumeration is cut into slices run as parallel TLC processes
    parts = 1 if quick else 12
    cfgs = ["CONSTANTS\n  MaxLabels = 3\n  MaxVals = %d\n  PartN = %d\n  PartK = %d\nSPECIFICATION Spec\nINVARIANTS Emit Bijective TryGetExact\nCHECK_DEADLOCK FALSE\n" % (2 if quick else 3, parts, k) for k in range(parts)]
    import concurrent.futures as cf
    with cf.ThreadPoolExecutor(max_workers=parts) as ex:
        rs = list(ex.map(lambda kc: tlc(ctx, "StaticMetric", kc[1], workers=1 if parts > 1 else 8, label="gen%d" % kc[0], timeout=5000, heap="4g" if parts > 1 else "8g"), enumerate(cfgs)))
    decls = []
    for r in rs:
        if not r["ok"]:
            raise ToolError("StaticMetric failed: %s\n%s" % (r["violated"], r["output"][-3000:]))
        decls += printed_values(r["output"], "CASE")
    if not quick and min(r["distinct"] for r in rs) * 4 < max(r["distinct"] for r in rs):
        log("note: unbalanced StaticMetric slices %s" % [r["distinct"] for r in rs])
    rnd = random.Random(ctx.seed)
    n = 30 if quick else 300
    # stratified sample: all label counts, enum/inline mixes, every kind, non-identity permutations preferred
    rnd.shuffle(decls)
    decls.sort(key=lambda d: (-len(d["labels"]), d["perm"] == list(range(1, len(d["perm"]) + 1))))
    picked = decls[: n - 3] + [d for d in decls if len(d["labels"]) == 1][:2] + [d for d in decls if len(d["labels"]) == 2][:1]
    # the statement speaks of up to FOUR labels with up to four values; TLC's enumeration stops at three labels, so a few declarations
    # with four labels (and one with four values) are built directly in the same abstract form: inline / label_enum / renamed / alias mixes
    # under a random order of the label names in the vector
    def lab(enum, kinds):
        return {"enum": enum, "vals": [{"kind": k} for k in kinds]}
    four = [[lab(False, ["plain", "renamed"]), lab(True, ["plain", "plain"]), lab(False, ["renamed", "plain"]), lab(True, ["renamed", "plain"])],
            [lab(True, ["plain", "alias"]), lab(False, ["plain"]), lab(True, ["renamed", "renamed"]), lab(False, ["plain", "plain"])],
            [lab(False, ["plain", "renamed", "plain", "renamed"]), lab(True, ["plain", "renamed", "plain", "alias"])],
            [lab(False, ["plain"]), lab(False, ["plain"]), lab(False, ["renamed"]), lab(True, ["plain", "renamed", "plain"])],
            # aliases in the middle of a value list (further values follow), inline and through a label_enum
            [lab(False, ["plain", "alias", "plain", "renamed"]), lab(True, ["renamed", "alias", "plain"])],
            [lab(True, ["plain", "alias", "alias", "plain"])]]
    for ls in (four if not quick else four[:3] + four[4:]):
        perm = list(range(1, len(ls) + 1))
        rnd.shuffle(perm)
        picked.append({"labels": ls, "perm": perm})
    cases = []
    src = ["// generated by /verif/bin/check C19 from TLC output (StaticMetric.tla) — do not edit", "#![allow(non_camel_case_types)]"]
    for ci, d in enumerate(picked):
        kind, auto = KINDS[(ci + ctx.seed) % len(KINDS)]
        code, exp = gen_case(ci, d["labels"], d["perm"], kind, auto)
        src.append(code)
        cases.append({"id": ci, "kind": kind, "auto": auto, "decl": d, "expected": exp, "expected2": gen_case.last_expected2})
    # twins: a second declaration elsewhere in the same crate whose label_enum has the SAME name and the same variants but other
    # label values (plain <-> renamed).  Each declaration stands on its own: what one macro invocation saw must not leak into another
    import copy
    twins = [c for c in cases if any(l["enum"] for l in c["decl"]["labels"])][: (6 if quick else 40)]
    for c in twins:
        d2 = copy.deepcopy(c["decl"])
        for l in d2["labels"]:
            if l["enum"]:
                for v in l["vals"]:
                    v["kind"] = {"plain": "renamed", "renamed": "plain"}.get(v["kind"], v["kind"])
        ci = len(cases)
        code, exp = gen_case(ci, d2["labels"], d2["perm"], c["kind"], c["auto"], etag=c["id"])
        src.append(code)
        cases.append({"id": ci, "kind": c["kind"], "auto": c["auto"], "decl": d2, "expected": exp, "twin_of": c["id"], "expected2": gen_case.last_expected2})
    src.append("pub fn run_all() -> String {")
    src.append("    let mut out = vec![];")
    for c in cases:
        src.append("    out.push(match std::panic::catch_unwind(|| case_%d::run()) { Ok(v) => serde_json::json!({\"id\": %d, \"ok\": v}), Err(e) => serde_json::json!({\"id\": %d, \"panic\": e.downcast_ref::<String>().cloned().unwrap_or_default()}) });" % (c["id"], c["id"], c["id"]))
    src.append("    serde_json::Value::Array(out).to_string()")
    src.append("}")
    gen = os.path.join(HARNESS, "gen")
    os.makedirs(gen, exist_ok=True)
    text = "\n".join(s for s in src if not s.startswith("#![")) + "\n"
    with open(os.path.join(gen, "static_cases.rs"), "w") as f:
        f.write(text)
    build_harness()       # takes the build lock / makes sure the lock file exists
    t0 = time.time()
    p = sh(["cargo", "build", "--offline", "--quiet", "--features", "staticgen", "--bin", "vh_static", "--target-dir", os.path.join(HARNESS, "target")], cwd=HARNESS, check=False, timeout=3000)
    if p.returncode != 0:
        # a declaration of the grammar that does not compile: the property quantifies over declarations the macro accepts
        raise ToolError("generated static-metric program does not compile:\n" + p.stdout[-5000:])
    log("[build] generated static-metric cases: %d declarations, %.1fs" % (len(cases), time.time() - t0))
    out = sh([os.path.join(HARNESS, "target", "debug", "vh_static")], timeout=600)
    results = {x["id"]: x for x in json.loads(out.stdout.strip().splitlines()[-1])}
    nok, nleaves, nacc = 0, 0, 0
    for c in cases:
        x = results[c["id"]]
        rp = {"case": {"kind": c["kind"], "auto": c["auto"], "decl": c["decl"]}}
        desc = "%s%s%s, %d labels %s, vector label order %s" % (c["kind"], " (auto-flush)" if c["auto"] else "", (" (second declaration with the same label_enum names as case %d, other values)" % c["twin_of"]) if "twin_of" in c else "", len(c["decl"]["labels"]),
                                                             [("enum" if l["enum"] else "inline", [v["kind"] for v in l["vals"]]) for l in c["decl"]["labels"]], c["decl"]["perm"])
        if "panic" in x:
            ctx.violation("panic", "%s: %s" % (desc, x["panic"][:300]), rp)
            continue
        hist = "Histogram" in c["kind"]

        def children(lst):
            g = {}
            for m in lst:
                key = tuple(sorted(map(tuple, m["labels"])))
                if hist:
                    g[key] = (m["hist"]["sum"].get("i"), m["hist"]["count"])
                else:
                    g[key] = ((m["gauge"] if "Gauge" in c["kind"] else m["counter"]).get("i"), None)
            return g
        got = children(x["ok"]["children"])
        exp = {tuple(sorted(e["labels"].items())): (e["total"], e["n"] if hist else None) for e in c["expected"]}
        if c["auto"]:
            mid = children(x["ok"]["children_mid"])
            expmid = {k: (v[0] // 2, v[1] // 2 if hist else None) for k, v in exp.items()}
            if mid != expmid:
                wrongm = [(k, expmid.get(k), mid.get(k)) for k in set(expmid) | set(mid) if expmid.get(k) != mid.get(k)]
                ctx.violation("auto-flush-thread-locality", "%s: after a second thread pushed through every accessor and flushed (first thread not yet flushed) the vector holds (labels, expected, got) %s" % (desc, wrongm[:3]), rp)
                continue
            got2 = children(x["ok"]["children2"])
            exp2 = {tuple(sorted(e["labels"].items())): (e["total"], e["n"] if hist else None) for e in c["expected2"]}
            if got2 != exp2:
                wrong2 = [(k, exp2.get(k), got2.get(k)) for k in set(exp2) | set(got2) if exp2.get(k) != got2.get(k)]
                ctx.violation("auto-flush-second-instance", "%s: the same struct instantiated with auto_flush_from! for a second vector, updated through its own handles and flushed: that vector holds (labels, expected, got) %s" % (desc, wrong2[:3]), rp)
                continue
        nleaves += len(exp); nacc += sum(e["n"] for e in c["expected"])
        if got != exp:
            missing = [k for k in exp if k not in got]
            extra = [k for k in got if k not in exp]
            wrong = [(k, exp[k], got[k]) for k in exp if k in got and got[k] != exp[k]]
            key = "child-missing" if missing else "undeclared-child" if extra else "update-misdelivered"
            ctx.violation(key, "%s: missing children %s, undeclared children %s, wrong totals (labels, expected, got) %s" % (desc, missing[:3], extra[:3], wrong[:3]), rp)
            continue
        if not x["ok"]["none_ok"]:
            ctx.violation("try_get-undeclared", "%s: try_get of an undeclared value (or of a renamed value's field name) is not None" % desc, rp)
            continue
        nok += 1
    ctx.cov.update({"traces_validated_against_impl": nok, "declarations_enumerated_by_TLC": len(decls), "declarations_compiled_and_run": len(cases), "leaves": nleaves, "accessor_paths_exercised": nacc,
                    "samples": [{"kind": c["kind"], "auto": c["auto"], "decl": c["decl"]} for c in cases[:2]],
                    "rule": "TLC enumerates label structures (1-3 labels, 1-%d values, inline / label_enum, renamed or not) x permutations of the label order in the backing vector and checks Target bijective / try_get exact; "
                            "a stratified sample is turned into Rust source (macro invocation + driver), compiled and run: every leaf is addressed through field path, get(enum), try_get(str) and a mixed form with leaf-specific amounts; "
                            "after flush the vector must hold exactly the declared children with exactly those totals" % (2 if quick else 3)})
    ctx.assumptions += ["'all programs' is sampled from the grammar (%d declarations per run); compile-time rejections are not explored; here auto-flush timing is bypassed by an explicit flush() (the automatic flush is modelled by AutoFlush.tla and checked in C12)" % len(cases)]


def replay(path):
    d = json.load(open(path))
    print(json.dumps(d["replay"]["case"], indent=1))
    print("replay: generated-program case; re-run `bin/check C19` (the declaration above is regenerated from the same seed) to re-judge it")
    return 1
