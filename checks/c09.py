"""C09 — only well-formed, pairwise distinct names reach an exposed sample."""
from grpb import *
from grpa import mc_module, oracle
from chars import *
LEVEL = "model_checking"
LE = [1108, 1101]


def pos_calls(c):
    """constructor calls for one positional case -> list of (label, call, histogram?); a constant label also with an EMPTY value
    (the name rules do not depend on the value)"""
    out = _pos_calls(c, "a")
    if c["pos"] == "const":
        out += [(lab + " (empty constant-label value)", call, h) for lab, call, h in _pos_calls(c, "")]
    return out


def _pos_calls(c, cval):
    s = to_str(c["s"])
    fq = to_str(c["fq"])
    pos = c["pos"]
    out = []
    o = {"name": "a", "help": "a"}
    if pos == "name":
        o["name"] = s
    elif pos == "ns":
        o["ns"] = s
    elif pos == "sub":
        o["ns"] = "Z"; o["sub"] = s
    elif pos == "help":
        o["help"] = s
    elif pos == "const":
        o["const"] = [[s, cval]]
    if pos == "var":
        out.append(("Desc::new", {"op": "desc", "as": "x", "fq_name": "a", "help": "a", "var": [s], "const": []}, False))
        for k in ("counter_vec", "int_counter_vec", "gauge_vec", "int_gauge_vec"):
            out.append((k, {"op": k, "as": "x", "opts": o, "labels": [s]}, False))
        out.append(("histogram_vec", {"op": "histogram_vec", "as": "x", "opts": o, "labels": [s]}, True))
        return out
    out.append(("Desc::new", {"op": "desc", "as": "x", "fq_name": fq, "help": o["help"], "var": [], "const": o.get("const", [])}, False))
    for k in ("counter", "int_counter", "gauge", "int_gauge"):
        out.append((k, {"op": k, "as": "x", "opts": o}, False))
    out.append(("histogram", {"op": "histogram", "as": "x", "opts": o}, True))
    out.append(("counter_vec", {"op": "counter_vec", "as": "x", "opts": o, "labels": ["vl"]}, False))
    out.append(("histogram_vec", {"op": "histogram_vec", "as": "x", "opts": o, "labels": ["vl"]}, True))
    if pos in ("name", "help"):
        out.append(("pulling_gauge", {"op": "pulling_gauge", "as": "x", "name": o["name"], "help": o["help"], "value": 1}, False))
    return out


def clash_calls(c):
    out = _clash_calls(c, "a")
    if c["cset"]:
        out += [(lab + " (empty constant-label values)", call, h) for lab, call, h in _clash_calls(c, "")]
    return out


def _clash_calls(c, cval):
    cs = [[to_str(n), cval] for n in c["cset"]]
    vs = [to_str(v) for v in c["vseq"]]
    o = {"name": "a", "help": "a", "const": cs}
    out = [("Desc::new", {"op": "desc", "as": "x", "fq_name": "a", "help": "a", "var": vs, "const": cs}, False),
           ("counter_vec", {"op": "counter_vec", "as": "x", "opts": o, "labels": vs}, False),
           ("gauge_vec", {"op": "gauge_vec", "as": "x", "opts": o, "labels": vs}, False),
           ("histogram_vec", {"op": "histogram_vec", "as": "x", "opts": o, "labels": vs}, True)]
    if not vs:
        out += [("counter", {"op": "counter", "as": "x", "opts": o}, False), ("histogram", {"op": "histogram", "as": "x", "opts": o}, True)]
    return out


def run(ctx):
    exe = build_harness()
    quick = ctx.quick
    alpha = "{UA, LZ, D0, USC, COLON, MINUS, SP, EACUTE, ARAB3}" if not quick else "{UA, LZ, D0, USC, COLON, MINUS, EACUTE, ARAB3}"
    d = {"MCAlpha": alpha, "MCPool": "{<<LA>>, <<LZ>>, LeName}"}
    cfg = "CONSTANTS\n  Alpha <- MCAlpha\n  MaxLen = 3\n  LabelPool <- MCPool\nSPECIFICATION Spec\nINVARIANTS Emit Total\nCHECK_DEADLOCK FALSE\n"
    r = tlc(ctx, "NameGen", cfg, mc_text=mc_module("MCNameGen", "NameGen", d), mc_name="MCNameGen", workers=8, label="gen", timeout=3000)
    if not r["ok"]:
        raise ToolError("NameGen failed: %s\n%s" % (r["violated"], r["output"][-3000:]))
    cases = printed_values(r["output"], "CASE")
    jobs, meta = [], []
    for ci, c in enumerate(cases):
        for lab, call, hist in (pos_calls(c) if c["mode"] == "pos" else clash_calls(c)):
            jobs.append({"id": len(jobs), "calls": [call]})
            meta.append((ci, lab, hist))
    res = run_api(ctx, exe, vary_builder_order(jobs, ctx.seed), "ctor", nproc=12)
    nok = 0
    for j, (ci, lab, hist) in zip(jobs, meta):
        c = cases[ci]
        rr = res[j["id"]][0]
        want = c["okhist"] if hist else c["ok"]
        got = "ok" in rr
        if "panic" in rr:
            ctx.violation("constructor-panics", "%s panicked on %s: %s" % (lab, j["calls"][0], rr["panic"]), {"calls": j["calls"], "expect_ok": want})
            continue
        if got != want:
            if c["mode"] == "pos":
                key = ("accepts-invalid:" if got else "rejects-valid:") + c["pos"]
                what = "%s %s %s=%r (fully-qualified name %r)" % (lab, "accepts" if got else "rejects", c["pos"], to_str(c["s"]), to_str(c["fq"]))
            else:
                cs, vs = [to_str(n) for n in c["cset"]], [to_str(v) for v in c["vseq"]]
                dupvar = len(set(vs)) < len(vs)
                if got:
                    key = "accepts-invalid:" + ("le-on-histogram" if (hist and c["ok"]) else "variable-label-twice" if dupvar else "label-both-constant-and-variable")
                else:
                    key = "rejects-valid:labels"
                what = "%s %s constant labels %s + variable labels %s" % (lab, "accepts" if got else "rejects", cs, vs)
            ctx.violation(key, what + "; the specification says %s" % ("valid" if want else "invalid"), {"calls": j["calls"], "expect_ok": want})
        else:
            nok += 1
    # ---- registry level: prefix and common labels; oracle = NamesOracle (TLC) over the gathered structure
    strs2 = sorted({to_str(c["s"]) for c in cases if c["mode"] == "pos" and len(c["s"]) <= 2})
    rjobs, rmeta = [], []

    def add(prefix, common, metric_calls, regs, tag):
        calls = [{"op": "registry", "as": "r", "custom": True}]
        if prefix is not None:
            calls[0]["prefix"] = prefix
        if common is not None:
            calls[0]["labels"] = common
        calls += metric_calls
        calls += [{"op": "register", "reg": "r", "obj": o} for o in regs]
        calls.append({"op": "gather", "reg": "r"})
        rjobs.append({"id": len(rjobs), "calls": calls})
        rmeta.append(tag)
    ctr = [{"op": "counter", "as": "m", "opts": {"name": "a", "help": "a", "const": [["a", "1"]]}}, {"op": "inc", "obj": "m"}]
    vec = [{"op": "counter_vec", "as": "v", "opts": {"name": "z", "help": "a"}, "labels": ["z"]}, {"op": "with", "vec": "v", "vals": ["q"], "as": "ch"}]
    his = [{"op": "histogram", "as": "h", "opts": {"name": "Z", "help": "a"}}, {"op": "observe", "obj": "h", "v": 1}]
    for s in strs2:
        add(s, None, ctr, ["m"], "prefix")
        add(None, [[s, "v"]], ctr, ["m"], "common-label-name")
        # both settings at once: each is judged on its own
        add("Z", [[s, "v"]], ctr, ["m"], "common-label-name")
        add(s, [["ok", "v"]], ctr, ["m"], "prefix")
        add(s, [[s, "v"]], ctr, ["m"], "prefix")
    for cn in ("a", "z", "le", "A"):
        add(None, [[cn, "v"]], ctr + vec + his, ["m", "v", "h"], "common-label-vs-metric-label")
        add("Z", [[cn, "v"], ["q", "w"]], ctr + vec, ["v", "m"], "common-label-vs-metric-label")
    # a refused registration followed by a retry (and by a sibling of the same family): nothing of the refused call may remain
    for cn in ("a", "z"):
        sib = [{"op": "counter", "as": "m2", "opts": {"name": "a", "help": "a", "const": [["a", "2"]]}}, {"op": "inc", "obj": "m2"}]
        add(None, [[cn, "v"]], ctr + sib + vec, ["m", "m", "m2", "v", "v", "m"], "common-label-vs-metric-label")
        add("Z", [[cn, "v"]], ctr + sib + vec, ["v", "m2", "m", "v", "m2"], "common-label-vs-metric-label")
    # vectors with SEVERAL variable labels in every order, one of them (at every position) named like a common label; also as constant label
    import itertools as _it
    pool4 = ["env", "b", "a", "zone"]
    for k in (2, 3, 4):
        for names in _it.permutations(pool4[:k]):
            for cn in set(names) & {"env", "a", "zone"}:
                mv = [{"op": "gauge_vec", "as": "mv", "opts": {"name": "mv", "help": "a"}, "labels": list(names)}, {"op": "with", "vec": "mv", "vals": ["v%d" % i for i in range(k)], "as": "c0"}]
                add(None, [[cn, "common"]], ctr + mv, ["m", "mv"], "common-label-vs-metric-label")
                mc = [{"op": "histogram_vec", "as": "mc", "opts": {"name": "mc", "help": "a", "const": [[n, "c"] for n in names[1:]]}, "labels": [names[0]]}, {"op": "with", "vec": "mc", "vals": ["v"], "as": "c1"}]
                add("Z", [[cn, "common"], ["other", "w"]], mc + ctr, ["mc", "m"], "common-label-vs-metric-label")
    rres = run_api(ctx, exe, rjobs, "reg")
    recs, rix = [], []
    for j, tag in zip(rjobs, rmeta):
        rs = rres[j["id"]]
        pan = [x for x in rs if "panic" in x]
        if pan:
            ctx.violation("registry:panic", "registry scenario panicked: %s" % pan[0], {"calls": j["calls"]})
            continue
        g = rs[-1]
        if "ok" not in rs[0] or "ok" not in g:
            nok += 1     # configuration refused: nothing is exposed
            continue
        fams = [{"name": to_ranks(f["name"]), "samples": [[to_ranks(n) for n, _ in m["labels"]] for m in f["metrics"]]} for f in g["ok"]]
        recs.append({"fams": fams})
        rix.append((j, tag, g["ok"]))
    rej = oracle(ctx, "NamesOracle", "AllValid", recs, "names") if recs else set()
    for i in sorted(rej):
        j, tag, fams = rix[i]
        names = [(f["name"], [[n for n, _ in m["labels"]] for m in f["metrics"]][:2]) for f in fams]
        dup = any(len(set(n for n, _ in m["labels"])) < len(m["labels"]) for f in fams for m in f["metrics"])
        key = "registry:" + ("duplicate-label-name" if dup else "invalid-name-exposed") + ":" + tag
        ctx.violation(key, "gather() of a registry created with %s exposes %s" % (j["calls"][0], names), {"calls": j["calls"], "registry": True})
    nok += len(recs) - len(rej)
    # ---- code -> spec over names outside the enumerated alphabet: every ASCII character in first and later position, long
    # names, multi-byte characters at every position; the constructor's verdict is judged by Desc.tla (NameVerdict, TLC)
    import random
    rnd = random.Random(ctx.seed + 9)
    names = set()
    for c in range(0, 128):
        ch = chr(c)
        names.update([ch, "a" + ch, ch + "a", "a" + ch + "9", "_" + ch])
    for u in ["é", "ÿ", "٣", "你", "\U0001F600", "\u00b2", "\uff11", "\u0660", "\u0430", "\u212a", "\u017f"]:
        names.update([u, "a" + u, u + "a", "ab" + u + "c", "a_" + u])
    names.update(["a" * 300, "a" * 299 + "é", "_" * 70 + "9" * 70, ":" + "b" * 200, "a" * 128 + "-", "é" + "a" * 200])
    names.discard("")
    names = sorted(names)
    vjobs = []
    for nm in names:
        vjobs.append({"id": len(vjobs), "calls": [{"op": "counter", "as": "x", "opts": {"name": nm, "help": "h"}}], "k": "metric", "s": nm})
        vjobs.append({"id": len(vjobs), "calls": [{"op": "gauge_vec", "as": "x", "opts": {"name": "m", "help": "h"}, "labels": [nm]}], "k": "label", "s": nm})
        vjobs.append({"id": len(vjobs), "calls": [{"op": "histogram", "as": "x", "opts": {"name": "m", "help": "h", "const": [[nm, "v"]]}}], "k": "label" if nm != "le" else "skip", "s": nm})
        vjobs.append({"id": len(vjobs), "calls": [{"op": "registry", "as": "x", "custom": True, "prefix": nm}], "k": "metric", "s": nm})
    vres = run_api(ctx, exe, [{"id": j["id"], "calls": j["calls"]} for j in vjobs], "verdict", nproc=8)
    vrecs, vix = [], []
    for j in vjobs:
        rr = vres[j["id"]][0]
        if "panic" in rr:
            ctx.violation("constructor-panics", "%s panicked on name %r: %s" % (j["calls"][0]["op"], j["s"], rr["panic"][:160]), {"calls": j["calls"], "expect_ok": False})
            continue
        if j["k"] == "skip":
            continue
        vrecs.append({"kind": j["k"], "s": to_ranks(j["s"]), "accepted": "ok" in rr})
        vix.append(j)
    vrej = oracle(ctx, "NameVerdict", "AllAgree", vrecs, "verdict")
    for i in sorted(vrej):
        j = vix[i]
        ctx.violation(("accepts-invalid:" if vrecs[i]["accepted"] else "rejects-valid:") + "ascii-sweep", "%s %s the %s name %r; Desc.tla disagrees" % (
            j["calls"][0]["op"], "accepts" if vrecs[i]["accepted"] else "rejects", j["k"], j["s"]), {"calls": j["calls"], "expect_ok": not vrecs[i]["accepted"]})
    nok += len(vrecs) - len(vrej)
    ctx.cov["names_judged_by_NameVerdict"] = len(vrecs)
    ctx.cov.update({
        "traces_validated_against_impl": nok, "name_cases": len(cases), "constructor_calls": len(jobs), "registry_scenarios": len(rjobs), "gathers_judged_by_NamesOracle": len(recs),
        "samples": [{"pos": c["pos"], "s": to_str(c["s"]), "ok": c["ok"]} for c in cases[5:8]] + [{"const": [to_str(n) for n in c["cset"]], "var": [to_str(v) for v in c["vseq"]], "ok": c["ok"], "okhist": c["okhist"]} for c in cases[-3:]],
        "exhaustive": True,
        "rule": "all strings of length <=3 over {A, z, 0, _, :, -, space, e-acute, arabic digit} in each of 6 name positions and all constant/variable label combinations over {a, z, le}: constructor accepts iff Desc.tla says valid "
                "(11 constructors); registry prefix / common-label settings over all strings of length <=2 and overlapping labels: every gathered structure judged by NamesOracle in TLC",
    })


def replay(path):
    d = json.load(open(path))
    rp = d["replay"]
    ctx = Ctx("C09_replay", "quick", 0, LEVEL)
    exe = build_harness()
    rs = run_api(ctx, exe, [{"id": 0, "calls": rp["calls"]}], "replay")[0]
    for c, r in zip(rp["calls"], rs):
        print("  ", json.dumps(c), "->", json.dumps(r)[:400])
    if rp.get("registry"):
        g = rs[-1]
        bad = False
        if "ok" in rs[0] and "ok" in g:
            recs = [{"fams": [{"name": to_ranks(f["name"]), "samples": [[to_ranks(n) for n, _ in m["labels"]] for m in f["metrics"]]} for f in g["ok"]]}]
            bad = bool(oracle(ctx, "NamesOracle", "AllValid", recs, "replay"))
        print("verdict:", "rejected by NamesOracle" if bad else "accepted")
    else:
        bad = ("ok" in rs[0]) != rp["expect_ok"] or "panic" in rs[0]
        print("verdict:", "violates Desc spec" if bad else "conforms")
    shutil.rmtree(ctx.work, ignore_errors=True)
    return 1 if bad else 0
