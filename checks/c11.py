"""C11 — gauge operations are atomic (linearizable)."""
from atomcheck import *
LEVEL = "model_checking"

G2 = {"flavor": "f64", "kind": "gauge", "threads": ["t1", "t2"],
      "scripts": {"t1": [{"k": "add", "v": 4}, {"k": "get"}, {"k": "sub", "v": 4}], "t2": [{"k": "set", "v": 8}, {"k": "inc"}, {"k": "get"}]}}
G2b = {"flavor": "f64", "kind": "gauge", "threads": ["t1", "t2"],
       "scripts": {"t1": [{"k": "inc"}, {"k": "dec"}, {"k": "get"}], "t2": [{"k": "add", "v": 2}, {"k": "sub", "v": 2}, {"k": "get"}]}}
J2 = dict(G2, flavor="int", kind="intgauge")
J2b = dict(G2b, flavor="int", kind="intgauge")
G3 = {"flavor": "f64", "kind": "gauge", "threads": ["t1", "t2", "t3"],
      "scripts": {"t1": [{"k": "add", "v": 4}, {"k": "sub", "v": 4}, {"k": "get"}], "t2": [{"k": "set", "v": 8}, {"k": "inc"}, {"k": "get"}],
                  "t3": [{"k": "dec"}, {"k": "get"}, {"k": "add", "v": 2}]}}
J3 = dict(G3, flavor="int", kind="intgauge")


G2s = dict(G2, scale=2.0 ** -60)
# integer gauge next to the i64 boundaries: add/inc wrap around and sub/dec wrap back ("sub(x) undoes add(x)")
J2max = dict(J2, base=2 ** 63 - 3)
J2bmin = dict(J2b, base=-(2 ** 63) + 1)


# a gauge holding NEGATIVE zero: -0.0 and +0.0 are equal as numbers and different as bit patterns
G0 = {"flavor": "f64", "kind": "gauge", "threads": ["t1", "t2"], "pre": [{"k": "set", "v": -0.0}],
      "scripts": {"t1": [{"k": "add", "v": 1}, {"k": "get"}], "t2": [{"k": "add", "v": 0}, {"k": "inc"}, {"k": "dec"}, {"k": "get"}]}}
# lock-freedom: one sub()/dec() whose compare-exchange loses 14 times in a row against a stream of add() calls
GS = {"flavor": "f64", "kind": "gauge", "threads": ["t1", "t2", "t3"], "starve": [("t1", 14), ("t3", 10)], "budget": 6000,
      "scripts": {"t1": [{"k": "sub", "v": 1}, {"k": "get"}], "t2": [{"k": "add", "v": 2}] * 16, "t3": [{"k": "dec"}, {"k": "get"}]}}


# the scrape path (Metric::metric, what collect() and gather() call) is one more reader: it must read, not write
G0m = {"flavor": "f64", "kind": "gauge", "threads": ["t1", "t2", "t3"], "pre": [{"k": "set", "v": -0.0}],
       "scripts": {"t1": [{"k": "add", "v": 1}, {"k": "get"}], "t2": [{"k": "get", "via": "metric"}, {"k": "get", "via": "metric"}], "t3": [{"k": "set", "v": -0.0}, {"k": "add", "v": 2}, {"k": "get", "via": "metric"}]}}
G2m = {"flavor": "f64", "kind": "gauge", "threads": ["t1", "t2"],
       "scripts": {"t1": [{"k": "add", "v": 4}, {"k": "get", "via": "metric"}, {"k": "sub", "v": 4}], "t2": [{"k": "set", "v": 8}, {"k": "get", "via": "metric"}, {"k": "inc"}]}}
# amounts at the ends of the i64 range (judged in the image under x -> x mod 256, see LinGauge.tla): add(i64::MIN) and sub(i64::MIN)
# cancel, add(i64::MAX) then inc wraps
JX = {"flavor": "int", "kind": "intgauge", "threads": ["t1", "t2"], "ring": 256,
      "scripts": {"t1": [{"k": "add", "v": "MIN"}, {"k": "sub", "v": "MIN"}, {"k": "get"}], "t2": [{"k": "add", "v": "MAX"}, {"k": "inc"}, {"k": "sub", "v": "-MAX"}, {"k": "get"}]}}
JX2 = {"flavor": "int", "kind": "intgauge", "threads": ["t1", "t2"], "ring": 256,
       "scripts": {"t1": [{"k": "sub", "v": "MIN"}, {"k": "get"}, {"k": "sub", "v": "MAX"}], "t2": [{"k": "set", "v": "MAX"}, {"k": "add", "v": 3}, {"k": "get"}]}}
# non-finite values (the float gauge over the extended reals): +Inf - Inf = NaN, NaN absorbs add/sub but not set
GX1 = {"flavor": "f64", "kind": "gauge", "threads": ["t1", "t2"], "pre": [{"k": "set", "v": "+Inf"}],
       "scripts": {"t1": [{"k": "add", "v": "-Inf"}, {"k": "get"}], "t2": [{"k": "set", "v": 5}, {"k": "inc"}, {"k": "get"}]}}
GX2 = {"flavor": "f64", "kind": "gauge", "threads": ["t1", "t2", "t3"], "pre": [{"k": "set", "v": "NaN"}],
       "scripts": {"t1": [{"k": "add", "v": 1}, {"k": "get"}], "t2": [{"k": "set", "v": 5}, {"k": "sub", "v": 2}, {"k": "get"}], "t3": [{"k": "sub", "v": "+Inf"}, {"k": "get"}]}}


def run(ctx):
    exe = build_harness()
    stats, samples = new_stats(), []
    O = ("LinGauge", "Linearizable")
    if ctx.quick:
        for sc, lb in ((G2, "G2"), (G2b, "G2b"), (J2, "J2"), (J2b, "J2b")):
            kinds = [sc["kind"], sc["kind"] + "vec_child"] if lb in ("G2", "J2b") else None       # also as children of gauge vectors
            run_scenario(ctx, "C11", exe, sc, lb, stats, samples, *O, model=True, nrandom=100, kinds=kinds)
        for sc, lb in ((G2s, "G2s"), (J2max, "J2max"), (J2bmin, "J2bmin")):
            run_scenario(ctx, "C11", exe, sc, lb, stats, samples, *O, model=True, nrandom=50)
        # (no edge-cover replay here: the model's integers do not distinguish -0.0 from +0.0, the code's compare-exchange does)
        run_scenario(ctx, "C11", exe, G0, "G0", stats, samples, *O, model=False, nrandom=400)
        run_scenario(ctx, "C11", exe, GS, "GS", stats, samples, *O, model=False, nrandom=20, check=False)
        run_scenario(ctx, "C11", exe, JX, "JX", stats, samples, *O, model=False, nrandom=60, check=False, kinds=["intgauge", "intgaugevec_child"])
        run_scenario(ctx, "C11", exe, JX2, "JX2", stats, samples, *O, model=False, nrandom=60, check=False)
        run_scenario(ctx, "C11", exe, G0m, "G0m", stats, samples, *O, model=False, nrandom=200, check=False)
        run_scenario(ctx, "C11", exe, G2m, "G2m", stats, samples, *O, model=False, nrandom=100, check=False, kinds=["gauge", "intgauge"])
        run_scenario(ctx, "C11", exe, GX1, "GX1", stats, samples, *O, model=False, nrandom=150, check=False, kinds=["gauge", "gaugevec_child"])
        run_scenario(ctx, "C11", exe, GX2, "GX2", stats, samples, *O, model=False, nrandom=150, check=False)
    else:
        run_scenario(ctx, "C11", exe, JX, "JX", stats, samples, *O, model=False, nrandom=3000, check=False, kinds=["intgauge", "intgaugevec_child"])
        run_scenario(ctx, "C11", exe, JX2, "JX2", stats, samples, *O, model=False, nrandom=3000, check=False, kinds=["intgauge", "intgaugevec_child"])
        run_scenario(ctx, "C11", exe, G0m, "G0m", stats, samples, *O, model=False, nrandom=5000, check=False, kinds=["gauge", "gaugevec_child"])
        run_scenario(ctx, "C11", exe, G2m, "G2m", stats, samples, *O, model=False, nrandom=3000, check=False, kinds=["gauge", "intgauge", "gaugevec_child"])
        run_scenario(ctx, "C11", exe, GX1, "GX1", stats, samples, *O, model=False, nrandom=5000, check=False, kinds=["gauge", "gaugevec_child"])
        run_scenario(ctx, "C11", exe, GX2, "GX2", stats, samples, *O, model=False, nrandom=5000, check=False, kinds=["gauge", "gaugevec_child"])
        run_scenario(ctx, "C11", exe, G0, "G0", stats, samples, *O, model=False, nrandom=8000, kinds=["gauge", "gaugevec_child"])
        run_scenario(ctx, "C11", exe, GS, "GS", stats, samples, *O, model=False, nrandom=500, check=False)
        for sc, lb in ((G2s, "G2s"), (J2max, "J2max"), (J2bmin, "J2bmin"), (dict(G2b, scale=2.0 ** -1070), "G2bs"), (dict(J3, base=2 ** 63 - 2), "J3max")):
            run_scenario(ctx, "C11", exe, sc, lb, stats, samples, *O, model=True, nrandom=3000)
        for sc, lb in ((G2, "G2"), (G2b, "G2b"), (J2, "J2"), (J2b, "J2b")):
            run_scenario(ctx, "C11", exe, sc, lb, stats, samples, *O, model=True, nrandom=3000)
        run_scenario(ctx, "C11", exe, G3, "G3", stats, samples, *O, model=True, nrandom=15000)
        run_scenario(ctx, "C11", exe, J3, "J3", stats, samples, *O, model=True, nrandom=15000)
    prove_core(ctx)
    finish_cov(ctx, stats, samples, "AtomImpl exhaustively checked by TLC (Atomicity = refinement of the atomic gauge, Termination; also with spurious CAS failure); "
               "every edge replayed in the real Gauge/IntGauge; every distinct history judged by LinGauge (linearizability incl. the final value)")
    ctx.assumptions += ["sequentially consistent executions", "2-3 threads, 3 calls each, amounts from {1,2,4,8}; float gauges also at scale 2^-60, holding -0.0, and over the extended reals (+Inf, -Inf, NaN as sentinels of LinGauge); integer gauges also offset to the i64 boundaries (wrapping)"]


def replay(path):
    return replay_generic("C11", path)


from atomcheck import replay as replay_generic
