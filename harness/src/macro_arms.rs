//! One closure per arm of every registration macro (C20). Filled in by the C20 check.
use crate::api::Env;
use serde_json::Value;

pub fn call(_env: &mut Env, _c: &Value) -> Option<Value> {
    None
}
