//! One code path per arm of every registration macro (C20), expanded at compile time from /repo/src/macros.rs.
//! JSON call: {"op":"macro","macro":"counter_vec","form":"name_help_labels","tc":bool,"registry":null|"slot",
//!             "name","help","const":[[k,v]..],"const2":[[k,v]..],"labels":[..],"buckets":[..],"optsvia":"opts!"|"explicit","as":"slot"}
use crate::api::{err_json, hopts_of, opts_of, Env, Slot};
use crate::pm::fparse;
use prometheus::*;
use serde_json::{json, Value};
use std::collections::HashMap;

fn strs(v: Option<&Value>) -> Vec<String> {
    v.and_then(|x| x.as_array()).map(|a| a.iter().map(|x| x.as_str().unwrap().to_owned()).collect()).unwrap_or_default()
}
fn pairs(v: Option<&Value>) -> Vec<(String, String)> {
    v.and_then(|x| x.as_array()).map(|a| a.iter().map(|p| (p[0].as_str().unwrap().to_owned(), p[1].as_str().unwrap().to_owned())).collect()).unwrap_or_default()
}

/// the options value handed to an `$OPTS` arm, built either with the opts! macro family or explicitly
fn build_opts(c: &Value) -> Opts {
    let name = c["name"].as_str().unwrap().to_owned();
    let help = c["help"].as_str().unwrap().to_owned();
    let p1 = pairs(c.get("const"));
    let p2 = pairs(c.get("const2"));
    let c1: HashMap<&str, &str> = p1.iter().map(|(k, v)| (k.as_str(), v.as_str())).collect();
    let c2: HashMap<&str, &str> = p2.iter().map(|(k, v)| (k.as_str(), v.as_str())).collect();
    let tc = c["tc"].as_bool().unwrap_or(false);
    if c.get("optsvia").and_then(|x| x.as_str()) == Some("explicit") {
        return opts_of(&json!({"name": name, "help": help, "const_map": c.get("const").cloned().unwrap_or(json!([])) }));
    }
    // three and four label maps (the macro takes any number)
    if c.get("const3").is_some() {
        let p3 = pairs(c.get("const3"));
        let p4 = pairs(c.get("const4"));
        let c3: HashMap<&str, &str> = p3.iter().map(|(k, v)| (k.as_str(), v.as_str())).collect();
        let c4: HashMap<&str, &str> = p4.iter().map(|(k, v)| (k.as_str(), v.as_str())).collect();
        return match (c.get("const4").is_some(), tc) {
            (false, false) => opts!(name, help, c1, c2, c3),
            (false, true) => opts!(name, help, c1, c2, c3,),
            (true, false) => opts!(name, help, c1, c2, c3, c4),
            (true, true) => opts!(name, help, c1, c2, c3, c4,),
        };
    }
    match (c.get("const").is_some(), c.get("const2").is_some(), tc) {
        (false, _, false) => opts!(name, help),
        (false, _, true) => opts!(name, help,),
        (true, false, false) => opts!(name, help, c1),
        (true, false, true) => opts!(name, help, c1,),
        (true, true, false) => opts!(name, help, c1, c2),
        (true, true, true) => opts!(name, help, c1, c2,),
    }
}

fn build_hopts(c: &Value) -> HistogramOpts {
    let name = c["name"].as_str().unwrap().to_owned();
    let help = c["help"].as_str().unwrap().to_owned();
    let c1: HashMap<String, String> = pairs(c.get("const")).into_iter().collect();
    let tc = c["tc"].as_bool().unwrap_or(false);
    let b: Option<Vec<f64>> = c.get("buckets").and_then(|x| x.as_array()).map(|a| a.iter().map(fparse).collect());
    if c.get("optsvia").and_then(|x| x.as_str()) == Some("explicit") {
        let mut o = json!({"name": name, "help": help, "const_map": c.get("const").cloned().unwrap_or(json!([]))});
        if let Some(bb) = c.get("buckets") {
            o["buckets"] = bb.clone();
        }
        return hopts_of(&o);
    }
    match (b, c.get("const").is_some(), tc) {
        (None, _, false) => histogram_opts!(name, help),
        (None, _, true) => histogram_opts!(name, help,),
        (Some(b), false, false) => histogram_opts!(name, help, b),
        (Some(b), false, true) => histogram_opts!(name, help, b,),
        (Some(b), true, false) => histogram_opts!(name, help, b, c1),
        (Some(b), true, true) => histogram_opts!(name, help, b, c1,),
    }
}

macro_rules! finish {
    ($env:expr, $c:expr, $variant:ident, $r:expr) => {{
        match $r {
            Ok(m) => {
                $env.insert($c["as"].as_str().unwrap().to_owned(), Slot::$variant(m));
                json!({"ok": 0})
            }
            Err(e) => err_json(&e),
        }
    }};
}

/// scalar metrics: register_X!(opts) / (name, help) and the _with_registry forms
macro_rules! scalar_arms {
    ($env:expr, $c:expr, $variant:ident, $plain:ident, $with:ident) => {{
        let c: &Value = $c;
        let name = c["name"].as_str().unwrap().to_owned();
        let help = c["help"].as_str().unwrap().to_owned();
        let tc = c["tc"].as_bool().unwrap_or(false);
        let form = c["form"].as_str().unwrap();
        let reg: Option<Registry> = c.get("registry").and_then(|x| x.as_str()).map(|r| match $env.get(r) { Some(Slot::Reg(r)) => r.clone(), _ => panic!("harness: no registry {}", r) });
        let r = match (form, reg, tc) {
            ("opts", None, false) => $plain!(build_opts(c)),
            ("opts", None, true) => $plain!(build_opts(c),),
            ("name_help", None, false) => $plain!(name, help),
            ("name_help", None, true) => $plain!(name, help,),
            ("opts", Some(r), false) => $with!(build_opts(c), r),
            ("opts", Some(r), true) => $with!(build_opts(c), r,),
            ("name_help", Some(r), false) => $with!(name, help, r),
            ("name_help", Some(r), true) => $with!(name, help, r,),
            _ => panic!("harness: unknown macro form {}", form),
        };
        finish!($env, c, $variant, r)
    }};
}

macro_rules! vec_arms {
    ($env:expr, $c:expr, $variant:ident, $plain:ident, $with:ident) => {{
        let c: &Value = $c;
        let name = c["name"].as_str().unwrap().to_owned();
        let help = c["help"].as_str().unwrap().to_owned();
        let tc = c["tc"].as_bool().unwrap_or(false);
        let form = c["form"].as_str().unwrap();
        let labels = strs(c.get("labels"));
        let lr: Vec<&str> = labels.iter().map(|x| x.as_str()).collect();
        let reg: Option<Registry> = c.get("registry").and_then(|x| x.as_str()).map(|r| match $env.get(r) { Some(Slot::Reg(r)) => r.clone(), _ => panic!("harness: no registry {}", r) });
        let r = match (form, reg, tc) {
            ("opts_labels", None, false) => $plain!(build_opts(c), &lr),
            ("opts_labels", None, true) => $plain!(build_opts(c), &lr,),
            ("name_help_labels", None, false) => $plain!(name, help, &lr),
            ("name_help_labels", None, true) => $plain!(name, help, &lr,),
            ("opts_labels", Some(r), false) => $with!(build_opts(c), &lr, r),
            ("opts_labels", Some(r), true) => $with!(build_opts(c), &lr, r,),
            ("name_help_labels", Some(r), false) => $with!(name, help, &lr, r),
            ("name_help_labels", Some(r), true) => $with!(name, help, &lr, r,),
            _ => panic!("harness: unknown macro form {}", form),
        };
        finish!($env, c, $variant, r)
    }};
}

pub fn call(env: &mut Env, c: &Value) -> Option<Value> {
    if c["op"].as_str() != Some("macro") {
        if c["op"].as_str() == Some("labels_macro") {
            // labels!{...}: arms with 0, 1, 2 pairs, with and without trailing comma
            let ps = pairs(c.get("pairs"));
            let tc = c["tc"].as_bool().unwrap_or(false);
            let m: HashMap<String, String> = match (ps.len(), tc) {
                (0, _) => labels! {},
                (1, false) => labels! {ps[0].0.clone() => ps[0].1.clone()},
                (1, true) => labels! {ps[0].0.clone() => ps[0].1.clone(),},
                (2, false) => labels! {ps[0].0.clone() => ps[0].1.clone(), ps[1].0.clone() => ps[1].1.clone()},
                (_, _) => labels! {ps[0].0.clone() => ps[0].1.clone(), ps[1].0.clone() => ps[1].1.clone(),},
            };
            let mut v: Vec<(String, String)> = m.into_iter().collect();
            v.sort();
            return Some(json!({ "ok": v }));
        }
        if c["op"].as_str() == Some("opts_macro") {
            let o = build_opts(c);
            let mut cl: Vec<(String, String)> = o.const_labels.clone().into_iter().collect();
            cl.sort();
            return Some(json!({"ok": {"name": o.name, "help": o.help, "ns": o.namespace, "sub": o.subsystem, "const": cl, "var": o.variable_labels}}));
        }
        if c["op"].as_str() == Some("histogram_opts_macro") {
            let o = build_hopts(c);
            let mut cl: Vec<(String, String)> = o.common_opts.const_labels.clone().into_iter().collect();
            cl.sort();
            let b: Vec<Value> = o.buckets.iter().map(|x| crate::pm::fnum(*x)).collect();
            return Some(json!({"ok": {"name": o.common_opts.name, "help": o.common_opts.help, "const": cl, "buckets": b}}));
        }
        return None;
    }
    let m = c["macro"].as_str().unwrap();
    Some(match m {
        "counter" => scalar_arms!(env, c, Counter, register_counter, register_counter_with_registry),
        "int_counter" => scalar_arms!(env, c, IntCounter, register_int_counter, register_int_counter_with_registry),
        "gauge" => scalar_arms!(env, c, Gauge, register_gauge, register_gauge_with_registry),
        "int_gauge" => scalar_arms!(env, c, IntGauge, register_int_gauge, register_int_gauge_with_registry),
        "counter_vec" => vec_arms!(env, c, CVec, register_counter_vec, register_counter_vec_with_registry),
        "int_counter_vec" => vec_arms!(env, c, ICVec, register_int_counter_vec, register_int_counter_vec_with_registry),
        "gauge_vec" => vec_arms!(env, c, GVec, register_gauge_vec, register_gauge_vec_with_registry),
        "int_gauge_vec" => vec_arms!(env, c, IGVec, register_int_gauge_vec, register_int_gauge_vec_with_registry),
        "histogram" => {
            let name = c["name"].as_str().unwrap().to_owned();
            let help = c["help"].as_str().unwrap().to_owned();
            let tc = c["tc"].as_bool().unwrap_or(false);
            let form = c["form"].as_str().unwrap();
            let b: Vec<f64> = c.get("buckets").and_then(|x| x.as_array()).map(|a| a.iter().map(fparse).collect()).unwrap_or_default();
            let reg: Option<Registry> = c.get("registry").and_then(|x| x.as_str()).map(|r| match env.get(r) { Some(Slot::Reg(r)) => r.clone(), _ => panic!("harness: no registry {}", r) });
            let r = match (form, reg, tc) {
                ("opts", None, false) => register_histogram!(build_hopts(c)),
                ("opts", None, true) => register_histogram!(build_hopts(c),),
                ("name_help", None, false) => register_histogram!(name, help),
                ("name_help", None, true) => register_histogram!(name, help,),
                ("name_help_buckets", None, false) => register_histogram!(name, help, b),
                ("name_help_buckets", None, true) => register_histogram!(name, help, b,),
                ("opts", Some(r), false) => register_histogram_with_registry!(build_hopts(c), r),
                ("opts", Some(r), true) => register_histogram_with_registry!(build_hopts(c), r,),
                ("name_help", Some(r), false) => register_histogram_with_registry!(name, help, r),
                ("name_help", Some(r), true) => register_histogram_with_registry!(name, help, r,),
                ("name_help_buckets", Some(r), false) => register_histogram_with_registry!(name, help, b, r),
                ("name_help_buckets", Some(r), true) => register_histogram_with_registry!(name, help, b, r,),
                _ => panic!("harness: unknown macro form {}", form),
            };
            finish!(env, c, Hist, r)
        }
        "histogram_vec" => {
            let name = c["name"].as_str().unwrap().to_owned();
            let help = c["help"].as_str().unwrap().to_owned();
            let tc = c["tc"].as_bool().unwrap_or(false);
            let form = c["form"].as_str().unwrap();
            let labels = strs(c.get("labels"));
            let lr: Vec<&str> = labels.iter().map(|x| x.as_str()).collect();
            let b: Vec<f64> = c.get("buckets").and_then(|x| x.as_array()).map(|a| a.iter().map(fparse).collect()).unwrap_or_default();
            let reg: Option<Registry> = c.get("registry").and_then(|x| x.as_str()).map(|r| match env.get(r) { Some(Slot::Reg(r)) => r.clone(), _ => panic!("harness: no registry {}", r) });
            let r = match (form, reg, tc) {
                ("opts_labels", None, false) => register_histogram_vec!(build_hopts(c), &lr),
                ("opts_labels", None, true) => register_histogram_vec!(build_hopts(c), &lr,),
                ("name_help_labels", None, false) => register_histogram_vec!(name, help, &lr),
                ("name_help_labels", None, true) => register_histogram_vec!(name, help, &lr,),
                ("name_help_labels_buckets", None, false) => register_histogram_vec!(name, help, &lr, b),
                ("name_help_labels_buckets", None, true) => register_histogram_vec!(name, help, &lr, b,),
                ("opts_labels", Some(r), false) => register_histogram_vec_with_registry!(build_hopts(c), &lr, r),
                ("opts_labels", Some(r), true) => register_histogram_vec_with_registry!(build_hopts(c), &lr, r,),
                ("name_help_labels", Some(r), false) => register_histogram_vec_with_registry!(name, help, &lr, r),
                ("name_help_labels", Some(r), true) => register_histogram_vec_with_registry!(name, help, &lr, r,),
                ("name_help_labels_buckets", Some(r), false) => register_histogram_vec_with_registry!(name, help, &lr, b, r),
                ("name_help_labels_buckets", Some(r), true) => register_histogram_vec_with_registry!(name, help, &lr, b, r,),
                _ => panic!("harness: unknown macro form {}", form),
            };
            finish!(env, c, HVec, r)
        }
        _ => panic!("harness: unknown macro {}", m),
    })
}
