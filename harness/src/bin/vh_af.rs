//! AutoFlush.tla runner: replays TLC-generated histories against auto-flushing thread-local static metrics
//! (make_auto_flush_static_metric! + auto_flush_from!) under a virtual coarse clock (hook H4).
//!   vh_af <in.ndjson> <out.ndjson>      job = {"id", "kind": "counter"|"hist", "events": [{op,t,l,d,v}, ...]}
#![allow(dead_code, non_camel_case_types, non_snake_case, unused_imports)]
use lazy_static::lazy_static;
use prometheus::core::Collector;
use prometheus::local::*;
use prometheus::*;
use prometheus_static_metric::*;
use serde_json::{json, Value};
use std::collections::HashMap;
use std::io::{BufRead, Write};
use std::sync::mpsc;

make_auto_flush_static_metric! {
    pub label_enum Outer { a, b }
    pub struct CS: LocalIntCounter { "o" => Outer, "i" => { p, q } }
}
make_auto_flush_static_metric! {
    pub struct HS: LocalHistogram { "o" => { a, b } }
}

lazy_static! {
    static ref CVEC: IntCounterVec = IntCounterVec::new(Opts::new("c", "h"), &["i", "o"]).unwrap();
    static ref HVEC: HistogramVec = HistogramVec::new(HistogramOpts::new("hh", "h").buckets(vec![1e12]), &["o"]).unwrap();
    // interval given explicitly (100 ms) / left to the default (1000 ms)
    static ref CTLS: CS = auto_flush_from!(CVEC, CS, std::time::Duration::from_millis(100));
    static ref HTLS: HS = auto_flush_from!(HVEC, HS);
}

const BASE: u64 = 1 << 40;

#[derive(Debug)]
enum Cmd {
    Start,
    Upd(String, u64),
    Get(String),
    Reset(String),
    FlushLeaf(String),
    FlushAll,
    Exit,
}

fn worker(kind: String, rx: mpsc::Receiver<Cmd>, tx: mpsc::Sender<Value>) {
    for cmd in rx {
        let r = std::panic::catch_unwind(std::panic::AssertUnwindSafe(|| {
            if kind == "counter" {
                let s: &CS = &CTLS;
                // leaves: "a" = o:a,i:p   "b" = o:b,i:q; a field named `x` would not compile: the generated code shadows its own local `x`  (two-label path: field, then get(enum) on alternate calls)
                let leaf = |l: &str| if l == "a" { &s.a.p } else { &s.get(Outer::b).q };
                match &cmd {
                    Cmd::Start => { leaf("a").get(); json!(null) }
                    Cmd::Upd(l, v) => { leaf(l).inc_by(*v); json!(null) }
                    Cmd::Get(l) => json!({"n": 0, "s": leaf(l).get()}),
                    Cmd::Reset(l) => { leaf(l).reset(); json!(null) }
                    Cmd::FlushLeaf(l) => { leaf(l).flush(); json!(null) }
                    Cmd::FlushAll => { s.flush(); json!(null) }
                    Cmd::Exit => json!(null),
                }
            } else {
                let s: &HS = &HTLS;
                let leaf = |l: &str| if l == "a" { &s.a } else { &s.b };
                match &cmd {
                    Cmd::Start => { leaf("a").get_sample_count(); json!(null) }
                    Cmd::Upd(l, v) => { leaf(l).observe(*v as f64); json!(null) }
                    Cmd::Get(l) => json!({"n": leaf(l).get_sample_count(), "s": leaf(l).get_sample_sum() as u64}),
                    Cmd::Reset(l) => { leaf(l).clear(); json!(null) }
                    Cmd::FlushLeaf(l) => { leaf(l).flush(); json!(null) }
                    Cmd::FlushAll => { s.flush(); json!(null) }
                    Cmd::Exit => json!(null),
                }
            }
        }));
        let exit = matches!(cmd, Cmd::Exit);
        let _ = tx.send(match r {
            Ok(v) => json!({"ok": v}),
            Err(e) => json!({"panic": e.downcast_ref::<String>().cloned().or_else(|| e.downcast_ref::<&str>().map(|s| s.to_string())).unwrap_or_default()}),
        });
        if exit {
            return; // thread-local destructors run now
        }
    }
}

fn shared(kind: &str) -> Value {
    let mut o = json!({"a": {"n": 0, "s": 0}, "b": {"n": 0, "s": 0}});
    let fams = if kind == "counter" { CVEC.collect() } else { HVEC.collect() };
    for mf in fams {
        for m in mf.get_metric() {
            let lab: HashMap<String, String> = m.get_label().iter().map(|l| (l.name().to_string(), l.value().to_string())).collect();
            let leaf = if kind == "counter" {
                match (lab["o"].as_str(), lab["i"].as_str()) { ("a", "p") => "a", ("b", "q") => "b", _ => continue }
            } else { if lab["o"] == "a" { "a" } else { "b" } };
            let j = vh_pm::metric_json(m, mf.get_field_type());
            o[leaf] = if kind == "counter" { json!({"n": 0, "s": j["counter"]["i"]}) } else { json!({"n": j["hist"]["count"], "s": j["hist"]["sum"]["i"]}) };
        }
    }
    o
}

#[path = "../pm.rs"]
mod vh_pm;

struct W { tx: mpsc::Sender<Cmd>, rx: mpsc::Receiver<Value>, h: std::thread::JoinHandle<()> }

fn run_job(job: &Value, clock0: &mut u64) -> Value {
    let kind = job["kind"].as_str().unwrap().to_string();
    if kind == "counter" { CVEC.reset() } else { HVEC.reset() }
    let mut ws: HashMap<String, W> = HashMap::new();
    let mut out = vec![];
    // every job starts at a fresh virtual origin (the clock never goes back)
    *clock0 += 1_000_000;
    let origin = *clock0;
    let mut clock = 0u64;
    prometheus::timer::verif_set_recent(BASE + origin);
    for e in job["events"].as_array().unwrap() {
        let op = e["op"].as_str().unwrap();
        let t = e["t"].as_str().unwrap_or("-").to_string();
        let l = e["l"].as_str().unwrap_or("-").to_string();
        let mut res = json!({"ok": null});
        match op {
            "tick" => { clock += e["d"].as_u64().unwrap(); prometheus::timer::verif_set_recent(BASE + origin + clock); }
            "start" => {
                let (tx, rx) = mpsc::channel();
                let (tx2, rx2) = mpsc::channel();
                let k = kind.clone();
                let h = std::thread::spawn(move || worker(k, rx, tx2));
                tx.send(Cmd::Start).unwrap();
                res = rx2.recv().unwrap_or(json!({"panic": "worker died"}));
                ws.insert(t.clone(), W { tx, rx: rx2, h });
            }
            _ => {
                let cmd = match op {
                    "upd" => Cmd::Upd(l.clone(), e["v"].as_u64().unwrap()),
                    "get" => Cmd::Get(l.clone()),
                    "reset" => Cmd::Reset(l.clone()),
                    "flushleaf" => Cmd::FlushLeaf(l.clone()),
                    "flushall" => Cmd::FlushAll,
                    "exit" => Cmd::Exit,
                    _ => panic!("op {}", op),
                };
                let w = ws.get(&t).expect("thread not started");
                w.tx.send(cmd).unwrap();
                res = w.rx.recv().unwrap_or(json!({"panic": "worker died"}));
                if op == "exit" {
                    let w = ws.remove(&t).unwrap();
                    drop(w.tx);
                    let _ = w.h.join();
                }
            }
        }
        // pending data of every live root
        let mut locs = serde_json::Map::new();
        let mut names: Vec<&String> = ws.keys().collect();
        names.sort();
        for n in names {
            let w = &ws[n];
            let mut o = serde_json::Map::new();
            for lf in ["a", "b"] {
                w.tx.send(Cmd::Get(lf.to_string())).unwrap();
                o.insert(lf.to_string(), w.rx.recv().unwrap_or(json!({"panic": "worker died"})));
            }
            locs.insert(n.clone(), Value::Object(o));
        }
        out.push(json!({"res": res, "shared": shared(&kind), "locs": locs, "recent": prometheus::timer::recent_millis() - BASE - origin}));
    }
    for (_, w) in ws.drain() {
        let _ = w.tx.send(Cmd::Exit);
        let _ = w.rx.recv();
        drop(w.tx);
        let _ = w.h.join();
    }
    json!({"id": job["id"], "res": out})
}

fn main() {
    std::panic::set_hook(Box::new(|_| {}));
    let a: Vec<String> = std::env::args().collect();
    let inp = std::io::BufReader::new(std::fs::File::open(&a[1]).unwrap());
    let mut out = std::io::BufWriter::new(std::fs::File::create(&a[2]).unwrap());
    let mut clock0 = 0u64;
    for line in inp.lines() {
        let line = line.unwrap();
        if line.trim().is_empty() { continue; }
        let job: Value = serde_json::from_str(&line).unwrap();
        writeln!(out, "{}", run_job(&job, &mut clock0)).unwrap();
    }
}
