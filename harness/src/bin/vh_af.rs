//! AutoFlush.tla runner: replays TLC-generated histories against auto-flushing thread-local static metrics
//! (make_auto_flush_static_metric! + auto_flush_from!) under a virtual coarse clock (hook H4).
//!   vh_af <in.ndjson> <out.ndjson>      job = {"id", "kind": "counter"|"hist", "events": [{op,t,l,d,v}, ...]}
#![allow(dead_code, non_camel_case_types, non_snake_case, unused_imports)]
use lazy_static::lazy_static;
use prometheus::core::Collector;
use prometheus::local::*;
use prometheus::*;
use prometheus_static_metric::*;
use serde_json::{json, Value};
use std::collections::HashMap;
use std::io::{BufRead, Write};
use std::sync::mpsc;

make_auto_flush_static_metric! {
    pub label_enum Outer { a, b }
    pub struct CS: LocalIntCounter { "o" => Outer, "i" => { p, q } }
}
make_auto_flush_static_metric! {
    pub struct HS: LocalHistogram { "o" => { a, b } }
}
make_auto_flush_static_metric! {
    pub struct FS: LocalCounter { "o" => { a, b } }
}
/// float counters are driven with amounts scaled by 2^-60 (far below f64::EPSILON; the sums stay exact)
const FSCALE: f64 = 8.673617379884035e-19;

lazy_static! {
    static ref CVEC: IntCounterVec = IntCounterVec::new(Opts::new("c", "h"), &["i", "o"]).unwrap();
    static ref HVEC: HistogramVec = HistogramVec::new(HistogramOpts::new("hh", "h").buckets(vec![1e12]), &["o"]).unwrap();
    // interval given explicitly (100 ms) / left to the default (1000 ms)
    static ref CTLS: CS = auto_flush_from!(CVEC, CS, std::time::Duration::from_millis(100));
    static ref HTLS: HS = auto_flush_from!(HVEC, HS);
    static ref FVEC: CounterVec = CounterVec::new(Opts::new("f", "h"), &["o"]).unwrap();
    static ref FTLS: FS = auto_flush_from!(FVEC, FS, std::time::Duration::from_millis(100));
}

const BASE: u64 = 1 << 40;

#[derive(Debug)]
enum Cmd {
    Start,
    Upd(String, u64),
    Get(String),
    Reset(String),
    FlushLeaf(String),
    FlushAll,
    Exit,
}

fn worker(kind: String, rx: mpsc::Receiver<Cmd>, tx: mpsc::Sender<Value>) {
    for cmd in rx {
        let r = std::panic::catch_unwind(std::panic::AssertUnwindSafe(|| {
            if kind == "counter" {
                let s: &CS = &CTLS;
                // leaves: "a" = o:a,i:p   "b" = o:b,i:q; a field named `x` would not compile: the generated code shadows its own local `x`  (two-label path: field, then get(enum) on alternate calls)
                let leaf = |l: &str| if l == "a" { &s.a.p } else { &s.get(Outer::b).q };
                match &cmd {
                    Cmd::Start => { leaf("a").get(); json!(null) }
                    Cmd::Upd(l, v) => { leaf(l).inc_by(*v); json!(null) }
                    Cmd::Get(l) => json!({"n": 0, "s": leaf(l).get()}),
                    Cmd::Reset(l) => { leaf(l).reset(); json!(null) }
                    Cmd::FlushLeaf(l) => { leaf(l).flush(); json!(null) }
                    Cmd::FlushAll => { s.flush(); json!(null) }
                    Cmd::Exit => json!(null),
                }
            } else if kind == "fcounter" {
                let s: &FS = &FTLS;
                let leaf = |l: &str| if l == "a" { &s.a } else { &s.b };
                match &cmd {
                    Cmd::Start => { leaf("a").get(); json!(null) }
                    Cmd::Upd(l, v) => { leaf(l).inc_by(*v as f64 * FSCALE); json!(null) }
                    Cmd::Get(l) => json!({"n": 0, "s": (leaf(l).get() / FSCALE) as u64}),
                    Cmd::Reset(l) => { leaf(l).reset(); json!(null) }
                    Cmd::FlushLeaf(l) => { leaf(l).flush(); json!(null) }
                    Cmd::FlushAll => { s.flush(); json!(null) }
                    Cmd::Exit => json!(null),
                }
            } else {
                let s: &HS = &HTLS;
                let leaf = |l: &str| if l == "a" { &s.a } else { &s.b };
                match &cmd {
                    Cmd::Start => { leaf("a").get_sample_count(); json!(null) }
                    Cmd::Upd(l, v) => { leaf(l).observe(*v as f64); json!(null) }
                    Cmd::Get(l) => json!({"n": leaf(l).get_sample_count(), "s": leaf(l).get_sample_sum() as u64}),
                    Cmd::Reset(l) => { leaf(l).clear(); json!(null) }
                    Cmd::FlushLeaf(l) => { leaf(l).flush(); json!(null) }
                    Cmd::FlushAll => { s.flush(); json!(null) }
                    Cmd::Exit => json!(null),
                }
            }
        }));
        let exit = matches!(cmd, Cmd::Exit);
        let _ = tx.send(match r {
            Ok(v) => json!({"ok": v}),
            Err(e) => json!({"panic": e.downcast_ref::<String>().cloned().or_else(|| e.downcast_ref::<&str>().map(|s| s.to_string())).unwrap_or_default()}),
        });
        if exit {
            return; // thread-local destructors run now
        }
    }
}

fn shared(kind: &str) -> Value {
    let mut o = json!({"a": {"n": 0, "s": 0}, "b": {"n": 0, "s": 0}});
    let fams = if kind == "counter" { CVEC.collect() } else if kind == "fcounter" { FVEC.collect() } else { HVEC.collect() };
    for mf in fams {
        for m in mf.get_metric() {
            let lab: HashMap<String, String> = m.get_label().iter().map(|l| (l.name().to_string(), l.value().to_string())).collect();
            let leaf = if kind == "counter" {
                match (lab["o"].as_str(), lab["i"].as_str()) { ("a", "p") => "a", ("b", "q") => "b", _ => continue }
            } else { if lab["o"] == "a" { "a" } else { "b" } };
            if kind == "fcounter" {
                o[leaf] = json!({"n": 0, "s": (vh_pm::counter_value(m) / FSCALE) as u64});
                continue;
            }
            let j = vh_pm::metric_json(m, mf.get_field_type());
            o[leaf] = if kind == "counter" { json!({"n": 0, "s": j["counter"]["i"]}) } else { json!({"n": j["hist"]["count"], "s": j["hist"]["sum"]["i"]}) };
        }
    }
    o
}

#[path = "../pm.rs"]
mod vh_pm;

struct W { tx: mpsc::Sender<Cmd>, rx: mpsc::Receiver<Value>, h: std::thread::JoinHandle<()> }

fn run_job(job: &Value, clock0: &mut u64) -> Value {
    let kind = job["kind"].as_str().unwrap().to_string();
    if kind == "counter" { CVEC.reset() } else if kind == "fcounter" { FVEC.reset() } else { HVEC.reset() }
    let mut ws: HashMap<String, W> = HashMap::new();
    let mut out = vec![];
    // every job starts at a fresh virtual origin (the clock never goes back)
    *clock0 += 1_000_000;
    let origin = *clock0;
    let mut clock = 0u64;
    prometheus::timer::verif_set_recent(BASE + origin);
    for e in job["events"].as_array().unwrap() {
        let op = e["op"].as_str().unwrap();
        let t = e["t"].as_str().unwrap_or("-").to_string();
        let l = e["l"].as_str().unwrap_or("-").to_string();
        let mut res = json!({"ok": null});
        match op {
            "tick" => { clock += e["d"].as_u64().unwrap(); prometheus::timer::verif_set_recent(BASE + origin + clock); }
            "start" => {
                let (tx, rx) = mpsc::channel();
                let (tx2, rx2) = mpsc::channel();
                let k = kind.clone();
                let h = std::thread::spawn(move || worker(k, rx, tx2));
                tx.send(Cmd::Start).unwrap();
                res = rx2.recv().unwrap_or(json!({"panic": "worker died"}));
                ws.insert(t.clone(), W { tx, rx: rx2, h });
            }
            _ => {
                let cmd = match op {
                    "upd" => Cmd::Upd(l.clone(), e["v"].as_u64().unwrap()),
                    "get" => Cmd::Get(l.clone()),
                    "reset" => Cmd::Reset(l.clone()),
                    "flushleaf" => Cmd::FlushLeaf(l.clone()),
                    "flushall" => Cmd::FlushAll,
                    "exit" => Cmd::Exit,
                    _ => panic!("op {}", op),
                };
                let w = ws.get(&t).expect("thread not started");
                w.tx.send(cmd).unwrap();
                res = w.rx.recv().unwrap_or(json!({"panic": "worker died"}));
                if op == "exit" {
                    let w = ws.remove(&t).unwrap();
                    drop(w.tx);
                    let _ = w.h.join();
                }
            }
        }
        // pending data of every live root
        let mut locs = serde_json::Map::new();
        let mut names: Vec<&String> = ws.keys().collect();
        names.sort();
        for n in names {
            let w = &ws[n];
            let mut o = serde_json::Map::new();
            for lf in ["a", "b"] {
                w.tx.send(Cmd::Get(lf.to_string())).unwrap();
                o.insert(lf.to_string(), w.rx.recv().unwrap_or(json!({"panic": "worker died"})));
            }
            locs.insert(n.clone(), Value::Object(o));
        }
        out.push(json!({"res": res, "shared": shared(&kind), "locs": locs, "recent": prometheus::timer::recent_millis() - BASE - origin}));
    }
    for (_, w) in ws.drain() {
        let _ = w.tx.send(Cmd::Exit);
        let _ = w.rx.recv();
        drop(w.tx);
        let _ = w.h.join();
    }
    json!({"id": job["id"], "res": out})
}

// ---------------------------------------------------------------------------------------------------------------------
// `vh_af regstatic`: the static-metric registration macros register_static_*_vec!(Struct, args...) against their explicit twins
// (C20: each is register_*_vec!(args...) followed by Struct::from; same name, help, label names, buckets, registered once)
mod regstatic {
    use super::*;
    make_static_metric! {
        pub struct RC: Counter { "l" => { a, b } }
        pub struct RIC: IntCounter { "l" => { a, b } }
        pub struct RG: Gauge { "l" => { a, b } }
        pub struct RIG: IntGauge { "l" => { a, b } }
        pub struct RH: Histogram { "l" => { a, b } }
    }

    fn snapshot(name: &str) -> Value {
        for mf in prometheus::gather() {
            if mf.get_name() == name {
                let ms: Vec<Value> = mf.get_metric().iter().map(|m| {
                    let labels: Vec<String> = m.get_label().iter().map(|l| format!("{}={}", l.name(), l.value())).collect();
                    let j = vh_pm::metric_json(m, mf.get_field_type());
                    json!({"labels": labels, "counter": j["counter"]["bits"], "gauge": j["gauge"]["bits"], "buckets": j.get("hist").map(|h| h["b"].clone()), "count": j.get("hist").map(|h| h["count"].clone())})
                }).collect();
                return json!({"help": mf.get_help(), "type": vh_pm::type_name(mf.get_field_type()), "metrics": ms});
            }
        }
        json!("absent")
    }

    macro_rules! one {
        ($out:ident, $form:expr, $name:expr, $mac:expr, $twin:expr, $touch_m:expr, $touch_t:expr) => {{
            let m = $mac;
            let mac = match &m { Ok(s) => { $touch_m(s); snapshot($name) } Err(e) => json!({"err": format!("{:?}", e)}) };
            // the same call again must be refused (the name is taken), and the first registration must still be there
            let t = $twin;
            prometheus::register(Box::new(t.clone())).unwrap();
            let _ = t.with_label_values(&["a"]);
            let _ = t.with_label_values(&["b"]);
            $touch_t(&t);
            let twin = snapshot(&format!("{}_twin", $name));
            $out.push(json!({"form": $form, "macro": mac, "twin": twin}));
        }};
    }

    pub fn run() -> Value {
        let mut out: Vec<Value> = vec![];
        let labels = ["l"];
        one!(out, "counter(name, help, labels)", "rs_c1", register_static_counter_vec!(RC, "rs_c1", "help é", &labels),
             CounterVec::new(Opts::new("rs_c1_twin", "help é"), &labels).unwrap(), |s: &RC| s.a.inc_by(3.0), |t: &CounterVec| t.with_label_values(&["a"]).inc_by(3.0));
        one!(out, "counter(name, help, labels,)", "rs_c2", register_static_counter_vec!(RC, "rs_c2", "h2", &labels,),
             CounterVec::new(Opts::new("rs_c2_twin", "h2"), &labels).unwrap(), |s: &RC| s.b.inc(), |t: &CounterVec| t.with_label_values(&["b"]).inc());
        one!(out, "counter(opts, labels)", "rs_c3", register_static_counter_vec!(RC, opts!("rs_c3", "h3", labels!{"k" => "v"}), &labels),
             CounterVec::new(Opts::new("rs_c3_twin", "h3").const_label("k", "v"), &labels).unwrap(), |s: &RC| s.a.inc(), |t: &CounterVec| t.with_label_values(&["a"]).inc());
        one!(out, "int_counter(name, help, labels)", "rs_ic1", register_static_int_counter_vec!(RIC, "rs_ic1", "h", &labels),
             IntCounterVec::new(Opts::new("rs_ic1_twin", "h"), &labels).unwrap(), |s: &RIC| s.a.inc_by(5), |t: &IntCounterVec| t.with_label_values(&["a"]).inc_by(5));
        one!(out, "gauge(name, help, labels)", "rs_g1", register_static_gauge_vec!(RG, "rs_g1", "h", &labels),
             GaugeVec::new(Opts::new("rs_g1_twin", "h"), &labels).unwrap(), |s: &RG| s.b.set(-2.5), |t: &GaugeVec| t.with_label_values(&["b"]).set(-2.5));
        one!(out, "int_gauge(opts, labels,)", "rs_ig1", register_static_int_gauge_vec!(RIG, opts!("rs_ig1", "h"), &labels,),
             IntGaugeVec::new(Opts::new("rs_ig1_twin", "h"), &labels).unwrap(), |s: &RIG| s.a.set(-7), |t: &IntGaugeVec| t.with_label_values(&["a"]).set(-7));
        one!(out, "histogram(name, help, labels)", "rs_h1", register_static_histogram_vec!(RH, "rs_h1", "h", &labels),
             HistogramVec::new(HistogramOpts::new("rs_h1_twin", "h"), &labels).unwrap(), |s: &RH| s.a.observe(0.3), |t: &HistogramVec| t.with_label_values(&["a"]).observe(0.3));
        one!(out, "histogram(name, help, labels, buckets)", "rs_h2", register_static_histogram_vec!(RH, "rs_h2", "h", &labels, vec![0.25, 2.0, 64.0]),
             HistogramVec::new(HistogramOpts::new("rs_h2_twin", "h").buckets(vec![0.25, 2.0, 64.0]), &labels).unwrap(), |s: &RH| s.b.observe(1.0), |t: &HistogramVec| t.with_label_values(&["b"]).observe(1.0));
        one!(out, "histogram(name, help, labels, buckets,)", "rs_h3", register_static_histogram_vec!(RH, "rs_h3", "h", &labels, vec![1.0],),
             HistogramVec::new(HistogramOpts::new("rs_h3_twin", "h").buckets(vec![1.0]), &labels).unwrap(), |s: &RH| s.a.observe(5.0), |t: &HistogramVec| t.with_label_values(&["a"]).observe(5.0));
        one!(out, "histogram(histogram_opts, labels)", "rs_h4", register_static_histogram_vec!(RH, histogram_opts!("rs_h4", "h", vec![0.5, 8.0]), &labels),
             HistogramVec::new(HistogramOpts::new("rs_h4_twin", "h").buckets(vec![0.5, 8.0]), &labels).unwrap(), |s: &RH| s.a.observe(1.0), |t: &HistogramVec| t.with_label_values(&["a"]).observe(1.0));
        // a second call with a taken name is refused and leaves the first registration in place
        let again = register_static_counter_vec!(RC, "rs_c1", "help é", &labels);
        out.push(json!({"form": "second call with a taken name", "macro": {"refused": again.is_err(), "first_still_there": snapshot("rs_c1") != json!("absent")}, "twin": {"refused": true, "first_still_there": true}}));
        Value::Array(out)
    }
}

fn main() {
    std::panic::set_hook(Box::new(|_| {}));
    let a: Vec<String> = std::env::args().collect();
    if a.get(1).map(|x| x.as_str()) == Some("firstuse") {
        // the process's very FIRST use of the default registry, made by several threads at the same moment: every register_*! that
        // returns Ok must be visible in prometheus::gather(), every handle must be the registered metric
        let n: usize = a.get(2).and_then(|x| x.parse().ok()).unwrap_or(8);
        let barrier = std::sync::Arc::new(std::sync::Barrier::new(n));
        let hs: Vec<_> = (0..n).map(|i| {
            let b = barrier.clone();
            std::thread::spawn(move || {
                b.wait();
                let r = match i % 3 {
                    0 => register_int_counter!(format!("fu_{}", i), "h").map(|c| c.inc_by(i as u64 + 1)).is_ok(),
                    1 => register_gauge!(format!("fu_{}", i), "h").map(|g| g.set(i as f64 + 1.0)).is_ok(),
                    _ => register_int_counter_vec!(format!("fu_{}", i), "h", &["l"]).map(|v| v.with_label_values(&["x"]).inc_by(i as u64 + 1)).is_ok(),
                };
                r
            })
        }).collect();
        let oks: Vec<bool> = hs.into_iter().map(|h| h.join().unwrap_or(false)).collect();
        let fams = prometheus::gather();
        let mut seen = vec![];
        for i in 0..n {
            let name = format!("fu_{}", i);
            let v = fams.iter().find(|f| f.get_name() == name).map(|f| {
                let m = &f.get_metric()[0];
                vh_pm::counter_value(m) + vh_pm::gauge_value(m)
            });
            seen.push(json!({"i": i, "ok": oks[i], "gathered": v}));
        }
        println!("{}", json!({"ok": seen}));
        return;
    }
    if a.get(1).map(|x| x.as_str()) == Some("regstatic") {
        let r = std::panic::catch_unwind(regstatic::run);
        println!("{}", match r { Ok(v) => json!({"ok": v}), Err(e) => json!({"panic": e.downcast_ref::<String>().cloned().unwrap_or_default()}) });
        return;
    }
    let inp = std::io::BufReader::new(std::fs::File::open(&a[1]).unwrap());
    let mut out = std::io::BufWriter::new(std::fs::File::create(&a[2]).unwrap());
    let mut clock0 = 0u64;
    for line in inp.lines() {
        let line = line.unwrap();
        if line.trim().is_empty() { continue; }
        let job: Value = serde_json::from_str(&line).unwrap();
        writeln!(out, "{}", run_job(&job, &mut clock0)).unwrap();
    }
}
