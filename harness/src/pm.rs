//! Projection of the library's data model (protobuf-backed or plain) to JSON — the abstract state the
//! specifications talk about.  cfg-switched because accessor names differ between the two models.
use prometheus::proto::{Metric, MetricFamily, MetricType};
use serde_json::{json, Value};

#[cfg(feature = "protobuf")]
pub fn counter_value(m: &Metric) -> f64 {
    m.get_counter().value()
}
#[cfg(not(feature = "protobuf"))]
pub fn counter_value(m: &Metric) -> f64 {
    m.get_counter().get_value()
}
#[cfg(feature = "protobuf")]
pub fn gauge_value(m: &Metric) -> f64 {
    m.get_gauge().value()
}
#[cfg(not(feature = "protobuf"))]
pub fn gauge_value(m: &Metric) -> f64 {
    m.get_gauge().get_value()
}

#[cfg(feature = "protobuf")]
pub fn untyped_value(m: &Metric) -> f64 {
    m.untyped.value()
}
#[cfg(not(feature = "protobuf"))]
pub fn untyped_value(m: &Metric) -> f64 {
    m.get_untyped().get_value()
}

#[cfg(feature = "protobuf")]
pub fn set_untyped(m: &mut Metric, v: f64) {
    let mut x = prometheus::proto::Untyped::default();
    x.set_value(v);
    m.untyped = Some(x).into();
}
#[cfg(not(feature = "protobuf"))]
pub fn set_untyped(m: &mut Metric, v: f64) {
    let mut x = prometheus::proto::Untyped::default();
    x.set_value(v);
    m.set_untyped(x);
}

/// which payload fields are populated (only the protobuf model can tell)
#[cfg(feature = "protobuf")]
pub fn present(m: &Metric) -> Option<Vec<&'static str>> {
    let mut v = vec![];
    if m.counter.is_some() { v.push("counter"); }
    if m.gauge.is_some() { v.push("gauge"); }
    if m.histogram.is_some() { v.push("histogram"); }
    if m.summary.is_some() { v.push("summary"); }
    if m.untyped.is_some() { v.push("untyped"); }
    Some(v)
}
#[cfg(not(feature = "protobuf"))]
pub fn present(_m: &Metric) -> Option<Vec<&'static str>> {
    None
}

pub fn type_name(t: MetricType) -> &'static str {
    match t {
        MetricType::COUNTER => "COUNTER",
        MetricType::GAUGE => "GAUGE",
        MetricType::SUMMARY => "SUMMARY",
        MetricType::UNTYPED => "UNTYPED",
        MetricType::HISTOGRAM => "HISTOGRAM",
        #[allow(unreachable_patterns)]
        _ => "OTHER",
    }
}

pub fn type_from(s: &str) -> MetricType {
    match s {
        "COUNTER" => MetricType::COUNTER,
        "GAUGE" => MetricType::GAUGE,
        "SUMMARY" => MetricType::SUMMARY,
        "UNTYPED" => MetricType::UNTYPED,
        "HISTOGRAM" => MetricType::HISTOGRAM,
        _ => panic!("type {}", s),
    }
}

/// lossless float: bit pattern (decimal string), class, and the integer value when small and integral
pub fn fnum(v: f64) -> Value {
    let class = if v.is_nan() { "nan" } else if v == f64::INFINITY { "+inf" } else if v == f64::NEG_INFINITY { "-inf" }
        else if v == 0.0 { if v.is_sign_negative() { "-0" } else { "0" } } else if v.is_subnormal() { "sub" } else { "fin" };
    let mut o = json!({"bits": v.to_bits().to_string(), "c": class});
    if v.is_finite() && v.fract() == 0.0 && v.abs() < 2.0e9 && !(v == 0.0 && v.is_sign_negative()) {
        o["i"] = json!(v as i64);
    }
    o
}

pub fn fparse(v: &Value) -> f64 {
    if let Some(b) = v.get("bits").and_then(|x| x.as_str()) {
        return f64::from_bits(b.parse::<u64>().unwrap());
    }
    if let Some(s) = v.as_str() {
        return match s {
            "NaN" | "nan" => f64::NAN,
            "+Inf" | "+inf" | "inf" => f64::INFINITY,
            "-Inf" | "-inf" => f64::NEG_INFINITY,
            "-0" => -0.0,
            _ => s.parse::<f64>().unwrap(),
        };
    }
    v.as_f64().unwrap()
}

pub fn metric_json(m: &Metric, t: MetricType) -> Value {
    let labels: Vec<Value> = m.get_label().iter().map(|l| json!([l.name(), l.value()])).collect();
    let mut o = json!({"labels": labels, "ts": m.timestamp_ms()});
    if let Some(p) = present(m) {
        o["present"] = json!(p);
    }
    o["counter"] = fnum(counter_value(m));
    o["gauge"] = fnum(gauge_value(m));
    o["untyped"] = fnum(untyped_value(m));
    if t == MetricType::HISTOGRAM {
        let h = m.get_histogram();
        let b: Vec<Value> = h.get_bucket().iter().map(|b| json!([fnum(b.upper_bound()), b.cumulative_count()])).collect();
        o["hist"] = json!({"count": h.get_sample_count(), "sum": fnum(h.get_sample_sum()), "b": b});
    }
    if t == MetricType::SUMMARY {
        let s = m.get_summary();
        let q: Vec<Value> = s.get_quantile().iter().map(|q| json!([fnum(q.quantile()), fnum(q.value())])).collect();
        o["summary"] = json!({"count": s.sample_count(), "sum": fnum(s.sample_sum()), "q": q});
    }
    o
}

pub fn family_json(mf: &MetricFamily) -> Value {
    let t = mf.get_field_type();
    let ms: Vec<Value> = mf.get_metric().iter().map(|m| metric_json(m, t)).collect();
    json!({"name": mf.get_name(), "help": mf.get_help(), "type": type_name(t), "metrics": ms})
}

pub fn families_json(mfs: &[MetricFamily]) -> Value {
    Value::Array(mfs.iter().map(family_json).collect())
}
