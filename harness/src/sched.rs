//! Deterministic scheduler: runs real library code one synchronisation step at a time.
//!
//! Every scripted thread is an OS thread with the `verif_sync` hook installed.  `before()` parks the
//! thread; the controller waits until every live thread is parked, picks one and releases it; the
//! thread then performs exactly that one atomic / lock operation plus the thread-local code up to
//! its next `before()`.  Lock steps whose lock is unavailable are never granted, so nothing blocks.
use prometheus::verif_sync::{set_thread_hook, Hook, Op, OpKind};
use serde_json::{json, Value};
use std::collections::HashMap;
use std::sync::atomic::{AtomicUsize, Ordering as AO};
use std::sync::{Arc, Condvar, Mutex};

#[derive(Clone, Copy, PartialEq, Debug)]
pub enum Pend {
    None,
    CallStart,
    Op(Op),
}

#[derive(Default, Clone, Debug)]
pub struct LockState {
    pub writer: Option<usize>,
    pub readers: Vec<usize>,
}

#[derive(Clone, Debug)]
pub struct Done {
    pub op: Op,
    pub val: u64,
    pub ok: bool,
}

pub struct St {
    pub pend: Vec<Pend>,
    pub finished: Vec<bool>,
    pub granted: Option<usize>,
    pub locks: HashMap<usize, LockState>,
    /// operations performed by the thread since it was last granted (normally exactly one)
    pub last: Vec<Vec<Done>>,
    pub panicked: Vec<Option<String>>,
}

pub struct Ctrl {
    pub st: Mutex<St>,
    pub cv: Condvar,
    pub clock: AtomicUsize,
    pub calls: Mutex<Vec<Value>>,
    pub n: usize,
}

pub struct ThreadCtx {
    pub tid: usize,
    pub c: Arc<Ctrl>,
}

struct TH {
    tid: usize,
    c: Arc<Ctrl>,
}

impl TH {
    fn park(&self, p: Pend) {
        let mut st = self.c.st.lock().unwrap();
        st.pend[self.tid] = p;
        self.c.cv.notify_all();
        while st.granted != Some(self.tid) {
            st = self.c.cv.wait(st).unwrap();
        }
        st.granted = None;
        st.pend[self.tid] = Pend::None;
    }
}

impl Hook for TH {
    fn before(&self, op: &Op) {
        self.park(Pend::Op(*op));
    }
    fn after(&self, op: &Op, val: u64, ok: bool) {
        let mut st = self.c.st.lock().unwrap();
        let tid = self.tid;
        match op.kind {
            OpKind::Lock | OpKind::WLock => {
                st.locks.entry(op.addr).or_default().writer = Some(tid);
            }
            OpKind::TryLock | OpKind::TryWLock => {
                if ok {
                    st.locks.entry(op.addr).or_default().writer = Some(tid);
                }
            }
            OpKind::TryRLock => {
                if ok {
                    st.locks.entry(op.addr).or_default().readers.push(tid);
                }
            }
            OpKind::Unlock | OpKind::WUnlock => {
                st.locks.entry(op.addr).or_default().writer = None;
            }
            OpKind::RLock => {
                st.locks.entry(op.addr).or_default().readers.push(tid);
            }
            OpKind::RUnlock => {
                let l = st.locks.entry(op.addr).or_default();
                if let Some(p) = l.readers.iter().position(|x| *x == tid) {
                    l.readers.remove(p);
                }
            }
            _ => {}
        }
        st.last[tid].push(Done { op: *op, val, ok });
    }
}

impl ThreadCtx {
    /// Park between API calls; returns the invocation time stamp.
    pub fn call_start(&self) -> usize {
        TH { tid: self.tid, c: self.c.clone() }.park(Pend::CallStart);
        self.c.clock.load(AO::SeqCst)
    }
    pub fn now(&self) -> usize {
        self.c.clock.load(AO::SeqCst)
    }
    pub fn record(&self, v: Value) {
        self.c.calls.lock().unwrap().push(v);
    }
}

pub struct Sched {
    pub c: Arc<Ctrl>,
    handles: Vec<Option<std::thread::JoinHandle<()>>>,
}

fn op_enabled(st: &St, t: usize) -> bool {
    if st.finished[t] {
        return false;
    }
    match st.pend[t] {
        Pend::None => false,
        Pend::CallStart => true,
        Pend::Op(op) => match op.kind {
            OpKind::Lock | OpKind::WLock => match st.locks.get(&op.addr) {
                Some(l) => l.writer.is_none() && l.readers.is_empty(),
                None => true,
            },
            OpKind::RLock => match st.locks.get(&op.addr) {
                Some(l) => l.writer.is_none(),
                None => true,
            },
            _ => true,
        },
    }
}

impl Sched {
    pub fn new(n: usize) -> Sched {
        let c = Arc::new(Ctrl {
            st: Mutex::new(St {
                pend: vec![Pend::None; n],
                finished: vec![false; n],
                granted: None,
                locks: HashMap::new(),
                last: vec![vec![]; n],
                panicked: vec![None; n],
            }),
            cv: Condvar::new(),
            clock: AtomicUsize::new(0),
            calls: Mutex::new(vec![]),
            n,
        });
        Sched { c, handles: (0..n).map(|_| None).collect() }
    }

    pub fn spawn<F: FnOnce(&ThreadCtx) + Send + 'static>(&mut self, tid: usize, f: F) {
        self.spawn_pre(tid, || (), move |ctx, _| f(ctx))
    }

    /// like `spawn`, with a prelude that runs on the new thread BEFORE it comes under the scheduler (used to let one of the
    /// scripted threads be the thread that creates the object under test)
    pub fn spawn_pre<X: 'static, P: FnOnce() -> X + Send + 'static, F: FnOnce(&ThreadCtx, X) + Send + 'static>(&mut self, tid: usize, pre: P, f: F) {
        let c = self.c.clone();
        self.handles[tid] = Some(std::thread::spawn(move || {
            let x = pre();
            let f = move |ctx: &ThreadCtx| f(ctx, x);
            let th = Arc::new(TH { tid, c: c.clone() });
            set_thread_hook(Some(th));
            let ctx = ThreadCtx { tid, c: c.clone() };
            let r = std::panic::catch_unwind(std::panic::AssertUnwindSafe(|| f(&ctx)));
            set_thread_hook(None);
            let mut st = c.st.lock().unwrap();
            if let Err(e) = r {
                let msg = e
                    .downcast_ref::<String>()
                    .cloned()
                    .or_else(|| e.downcast_ref::<&str>().map(|s| s.to_string()))
                    .unwrap_or_else(|| "panic".to_owned());
                st.panicked[tid] = Some(msg);
            }
            st.finished[tid] = true;
            c.cv.notify_all();
        }));
    }

    /// Wait until every live thread is parked and nobody is running.
    pub fn wait_quiet(&self) {
        let n = self.c.n;
        let mut st = self.c.st.lock().unwrap();
        while !(0..n).all(|t| st.finished[t] || st.pend[t] != Pend::None) || st.granted.is_some() {
            st = self.c.cv.wait(st).unwrap();
        }
    }

    pub fn all_finished(&self) -> bool {
        let st = self.c.st.lock().unwrap();
        st.finished.iter().all(|f| *f)
    }

    pub fn enabled(&self) -> Vec<usize> {
        let st = self.c.st.lock().unwrap();
        (0..self.c.n).filter(|&t| op_enabled(&st, t)).collect()
    }

    pub fn pending(&self, t: usize) -> Pend {
        self.c.st.lock().unwrap().pend[t]
    }

    /// Grant one step to thread `t` (must be enabled); returns what it did.
    pub fn grant(&self, t: usize) -> (Pend, Vec<Done>) {
        let pend;
        {
            let mut st = self.c.st.lock().unwrap();
            pend = st.pend[t];
            st.last[t].clear();
            self.c.clock.fetch_add(1, AO::SeqCst);
            st.granted = Some(t);
            self.c.cv.notify_all();
        }
        self.wait_quiet();
        let st = self.c.st.lock().unwrap();
        (pend, st.last[t].clone())
    }

    pub fn lock_state(&self, addr: usize) -> LockState {
        self.c.st.lock().unwrap().locks.get(&addr).cloned().unwrap_or_default()
    }

    #[allow(dead_code)]
    pub fn any_writer(&self) -> bool {
        self.c.st.lock().unwrap().locks.values().any(|l| l.writer.is_some())
    }

    pub fn panics(&self) -> Vec<Option<String>> {
        self.c.st.lock().unwrap().panicked.clone()
    }

    pub fn take_calls(&self) -> Vec<Value> {
        std::mem::take(&mut *self.c.calls.lock().unwrap())
    }

    pub fn join(&mut self) {
        for h in self.handles.iter_mut() {
            if let Some(h) = h.take() {
                let _ = h.join();
            }
        }
    }
}

pub fn ord_name(o: Option<std::sync::atomic::Ordering>) -> &'static str {
    use std::sync::atomic::Ordering::*;
    match o {
        None => "-",
        Some(Relaxed) => "Relaxed",
        Some(Acquire) => "Acquire",
        Some(Release) => "Release",
        Some(AcqRel) => "AcqRel",
        Some(SeqCst) => "SeqCst",
        Some(_) => "?",
    }
}

pub fn kind_name(k: OpKind) -> &'static str {
    match k {
        OpKind::Load => "Load",
        OpKind::Store => "Store",
        OpKind::Swap => "Swap",
        OpKind::FetchAdd => "FetchAdd",
        OpKind::FetchSub => "FetchSub",
        OpKind::CasWeak => "CasWeak",
        OpKind::CasStrong => "CasStrong",
        OpKind::FetchOther => "FetchOther",
        OpKind::Lock => "Lock",
        OpKind::Unlock => "Unlock",
        OpKind::RLock => "RLock",
        OpKind::RUnlock => "RUnlock",
        OpKind::WLock => "WLock",
        OpKind::WUnlock => "WUnlock",
        OpKind::TryLock => "TryLock",
        OpKind::TryRLock => "TryRLock",
        OpKind::TryWLock => "TryWLock",
    }
}

pub fn done_json(t: &str, d: &Done, cell: &str) -> Value {
    json!({"t": t, "k": kind_name(d.op.kind), "cell": cell, "ord": ord_name(d.op.ord), "ordf": ord_name(d.op.ord_fail),
           "a": d.op.a.to_string(), "b": d.op.b.to_string(), "val": d.val.to_string(), "ok": d.ok})
}
