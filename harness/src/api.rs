//! Sequential API interpreter: executes JSON-described call sequences (generated from TLC output) on the
//! real library, each call under catch_unwind, and reports `{"ok"|"err"|"panic"}` per call.
use crate::pm::*;
use prometheus::core::{Collector, Desc, Metric};
use prometheus::local::*;
use prometheus::proto::{self, MetricFamily};
use prometheus::*;
use serde_json::{json, Map, Value};
use std::collections::HashMap;
use std::io::{BufRead, Write};
use std::sync::Arc;

pub struct CustomCollector {
    pub descs: Vec<Desc>,
    pub families: Vec<MetricFamily>,
}
impl Collector for CustomCollector {
    fn desc(&self) -> Vec<&Desc> {
        self.descs.iter().collect()
    }
    fn collect(&self) -> Vec<MetricFamily> {
        self.families.clone()
    }
}
#[derive(Clone)]
pub struct CustomRef(pub Arc<CustomCollector>);
impl Collector for CustomRef {
    fn desc(&self) -> Vec<&Desc> {
        self.0.desc()
    }
    fn collect(&self) -> Vec<MetricFamily> {
        self.0.collect()
    }
}

pub enum Slot {
    Reg(Registry),
    Counter(Counter),
    IntCounter(IntCounter),
    Gauge(Gauge),
    IntGauge(IntGauge),
    Hist(Histogram),
    CVec(CounterVec),
    ICVec(IntCounterVec),
    GVec(GaugeVec),
    IGVec(IntGaugeVec),
    HVec(HistogramVec),
    PGauge(PullingGauge),
    Custom(CustomRef),
    Desc(Desc),
    LCounter(LocalCounter),
    LICounter(LocalIntCounter),
    LHist(LocalHistogram),
    LCVec(LocalCounterVec),
    LICVec(LocalIntCounterVec),
    LHVec(LocalHistogramVec),
    Timer(Option<HistogramTimer>),
    LTimer(Option<LocalHistogramTimer>),
    Families(Vec<MetricFamily>),
    UVec(UserGaugeVec),
}

pub type Env = HashMap<String, Slot>;

fn s<'a>(c: &'a Value, k: &str) -> &'a str {
    c.get(k).and_then(|x| x.as_str()).unwrap_or_else(|| panic!("harness: missing string field {} in {}", k, c))
}
fn strs(v: Option<&Value>) -> Vec<String> {
    v.and_then(|x| x.as_array()).map(|a| a.iter().map(|x| x.as_str().unwrap().to_owned()).collect()).unwrap_or_default()
}
fn pairs(v: Option<&Value>) -> Vec<(String, String)> {
    v.and_then(|x| x.as_array())
        .map(|a| a.iter().map(|p| (p[0].as_str().unwrap().to_owned(), p[1].as_str().unwrap().to_owned())).collect())
        .unwrap_or_default()
}
fn fl(c: &Value, k: &str) -> f64 {
    fparse(c.get(k).unwrap_or_else(|| panic!("harness: missing float field {}", k)))
}
fn floats(v: Option<&Value>) -> Vec<f64> {
    v.and_then(|x| x.as_array()).map(|a| a.iter().map(fparse).collect()).unwrap_or_default()
}

pub fn err_json(e: &Error) -> Value {
    let kind = match e {
        Error::AlreadyReg => "AlreadyReg",
        Error::InconsistentCardinality { .. } => "InconsistentCardinality",
        Error::Msg(_) => "Msg",
        Error::Io(_) => "Io",
        #[cfg(feature = "protobuf")]
        Error::Protobuf(_) => "Protobuf",
    };
    json!({"err": {"kind": kind, "msg": e.to_string()}})
}
fn okv(v: Value) -> Value {
    json!({ "ok": v })
}
fn ok0() -> Value {
    json!({"ok": 0})
}
fn res_unit(r: Result<()>) -> Value {
    match r {
        Ok(()) => ok0(),
        Err(e) => err_json(&e),
    }
}

pub fn opts_of(o: &Value) -> Opts {
    let mut opts = Opts::new(o.get("name").and_then(|x| x.as_str()).unwrap_or(""), o.get("help").and_then(|x| x.as_str()).unwrap_or(""));
    // the builder methods are applied in the order given by "order" (default: ns, sub, const_map, const, var): the result does not
    // depend on it, except that const_labels() replaces and const_label() adds — const_map therefore always precedes const
    let default_order = ["ns", "sub", "const_map", "const", "var"];
    let mut order: Vec<String> = o.get("order").and_then(|x| x.as_array()).map(|a| a.iter().map(|x| x.as_str().unwrap().to_owned()).collect())
        .unwrap_or_else(|| default_order.iter().map(|x| x.to_string()).collect());
    if let (Some(a), Some(b)) = (order.iter().position(|x| x == "const_map"), order.iter().position(|x| x == "const")) {
        if a > b { order.swap(a, b); }
    }
    for step in &order {
        match step.as_str() {
            "ns" => if let Some(ns) = o.get("ns").and_then(|x| x.as_str()) { opts = opts.namespace(ns); },
            "sub" => if let Some(sub) = o.get("sub").and_then(|x| x.as_str()) { opts = opts.subsystem(sub); },
            "const_map" => if o.get("const_map").is_some() {
                let m: HashMap<String, String> = pairs(o.get("const_map")).into_iter().collect();
                opts = opts.const_labels(m);
            },
            "const" => for (k, v) in pairs(o.get("const")) { opts = opts.const_label(k, v); },
            "var" => if o.get("var").is_some() { opts = opts.variable_labels(strs(o.get("var"))); },
            _ => panic!("harness: opts step {}", step),
        }
    }
    opts
}
pub fn hopts_of(o: &Value) -> HistogramOpts {
    if o.get("buckets_first").and_then(|x| x.as_bool()).unwrap_or(false) {
        // the builder methods in the other order: buckets first, then namespace / subsystem / labels
        let mut h = HistogramOpts::new(o.get("name").and_then(|x| x.as_str()).unwrap_or(""), o.get("help").and_then(|x| x.as_str()).unwrap_or(""));
        // "buckets_decoy": the setter is called twice — the later call stands
        if o.get("buckets_decoy").is_some() {
            h = h.buckets(floats(o.get("buckets_decoy")));
        }
        if o.get("buckets").is_some() {
            h = h.buckets(floats(o.get("buckets")));
        }
        if let Some(ns) = o.get("ns").and_then(|x| x.as_str()) {
            h = h.namespace(ns);
        }
        if let Some(sub) = o.get("sub").and_then(|x| x.as_str()) {
            h = h.subsystem(sub);
        }
        if o.get("const_map").is_some() {
            let m: HashMap<String, String> = pairs(o.get("const_map")).into_iter().collect();
            h = h.const_labels(m);
        }
        for (k, v) in pairs(o.get("const")) {
            h = h.const_label(k, v);
        }
        if o.get("var").is_some() {
            h = h.variable_labels(strs(o.get("var")));
        }
        return h;
    }
    let mut h = HistogramOpts::from(opts_of(o));
    if o.get("buckets").is_some() {
        h = h.buckets(floats(o.get("buckets")));
    }
    h
}

pub fn desc_json(d: &Desc) -> Value {
    let cl: Vec<Value> = d.const_label_pairs.iter().map(|l| json!([l.name(), l.value()])).collect();
    json!({"fq_name": d.fq_name, "help": d.help, "const": cl, "var": d.variable_labels, "id": d.id.to_string(), "dim": d.dim_hash.to_string()})
}

pub fn family_from(v: &Value) -> MetricFamily {
    family_from_mode(v, None)
}

/// a value of each model type that has been used for something else before (every field a collector could have touched is set)
fn dirty_pair() -> proto::LabelPair {
    let mut lp = proto::LabelPair::default();
    lp.set_name("dirty".to_owned());
    lp.set_value("dirty value".to_owned());
    lp
}

fn dirty_metric() -> proto::Metric {
    let mut pm = proto::Metric::from_label(vec![dirty_pair(), dirty_pair()]);
    let mut g = proto::Gauge::default(); g.set_value(99.0); pm.set_gauge(g);
    let mut c = proto::Counter::default(); c.set_value(98.0); pm.set_counter(c);
    let mut h = proto::Histogram::default(); h.set_sample_count(97); h.set_sample_sum(96.0);
    let mut b = proto::Bucket::default(); b.set_upper_bound(95.0); b.set_cumulative_count(94); h.set_bucket(vec![b]);
    pm.set_histogram(h);
    pm.set_timestamp_ms(77);
    pm
}

fn dirty_family(t: proto::MetricType) -> MetricFamily {
    let mut mf = MetricFamily::default();
    mf.set_name("dirty".to_owned());
    mf.set_help("dirty help".to_owned());
    mf.set_field_type(t);
    mf.set_metric(vec![dirty_metric(), dirty_metric()]);
    mf
}

/// `mode`: how the collector obtains the objects it fills in —
///   None            fresh default values and the setters;
///   "clear"         recycled values: a used family / label pair is emptied with the methods both models have (clear_name, take_label, take_metric) and filled again,
///                   samples are pushed through mut_metric();
///   "clone_from"    the result is copied OVER used values of other types with Clone::clone_from (as `kept.clone_from(&gathered)` does).
pub fn family_from_mode(v: &Value, mode: Option<&str>) -> MetricFamily {
    let recycle = mode == Some("clear");
    let mut mf = MetricFamily::default();
    if recycle {
        mf.set_name("dirty".to_owned());
        mf.set_metric(vec![dirty_metric()]);
        mf.clear_name();
        drop(mf.take_metric());
    }
    if let Some(n) = v.get("name").and_then(|x| x.as_str()) {
        mf.set_name(n.to_owned());
    }
    if let Some(h) = v.get("help").and_then(|x| x.as_str()) {
        mf.set_help(h.to_owned());
    }
    // an absent "type" leaves the field unset (the data model's default applies)
    if let Some(t) = v.get("type").and_then(|x| x.as_str()) {
        mf.set_field_type(type_from(t));
    }
    // "type_number": a type value outside the known enum — what a family decoded from a newer producer's bytes carries
    // (only the protobuf-backed model can hold one; the plain model keeps the declared "type")
    #[cfg(feature = "protobuf")]
    if let Some(n) = v.get("type_number").and_then(|x| x.as_i64()) {
        mf.type_ = Some(protobuf::EnumOrUnknown::from_i32(n as i32));
    }
    let mut ms = vec![];
    for m in v.get("metrics").and_then(|x| x.as_array()).cloned().unwrap_or_default() {
        let mut lps = vec![];
        for (k, val) in pairs(m.get("labels")) {
            let mut lp = proto::LabelPair::default();
            if recycle {
                // a used pair renamed: the value is in place when the name is cleared and set (clearing one field leaves the others)
                lp = dirty_pair();
                lp.set_value(val);
                lp.clear_name();
                lp.set_name(k);
            } else {
                lp.set_name(k);
                lp.set_value(val);
            }
            lps.push(lp);
        }
        let mut pm = if recycle {
            let mut d = proto::Metric::from_label(vec![dirty_pair()]);
            drop(d.take_label());
            d.set_label(lps);
            d
        } else {
            proto::Metric::from_label(lps)
        };
        if let Some(ts) = m.get("ts").and_then(|x| x.as_i64()) {
            if ts != 0 || m.get("ts_force").is_some() {
                pm.set_timestamp_ms(ts);
            }
        }
        // the value setters are applied in the order given by "order" (default: counter, gauge, untyped, hist, summary); a hand-written
        // collector may call several of them on one Metric
        let default_order = ["counter", "gauge", "untyped", "hist", "summary"];
        let order: Vec<String> = m.get("order").and_then(|x| x.as_array()).map(|a| a.iter().map(|x| x.as_str().unwrap().to_owned()).collect())
            .unwrap_or_else(|| default_order.iter().map(|x| x.to_string()).collect());
        for which in &order {
            let m = match m.get(which.as_str()) { Some(_) => &m, None => continue };
            match which.as_str() {
                "counter" => { let c = &m["counter"]; let mut x = proto::Counter::default(); x.set_value(fparse(c)); pm.set_counter(x); }
                "gauge" => { let c = &m["gauge"]; let mut x = proto::Gauge::default(); x.set_value(fparse(c)); pm.set_gauge(x); }
                "untyped" => { crate::pm::set_untyped(&mut pm, fparse(&m["untyped"])); }
                "hist" => {
                    let h = &m["hist"];
                    let mut x = proto::Histogram::default();
                    // every field is optional: a hand-written collector may leave any of them unset
                    if let Some(n) = h.get("count").and_then(|x| x.as_u64()) { x.set_sample_count(n); }
                    if h.get("sum").map(|x| !x.is_null()).unwrap_or(false) { x.set_sample_sum(fparse(&h["sum"])); }
                    let mut bs = vec![];
                    for b in h["b"].as_array().unwrap() {
                        let mut bb = proto::Bucket::default();
                        if !b[0].is_null() { bb.set_upper_bound(fparse(&b[0])); }
                        if let Some(n) = b[1].as_u64() { bb.set_cumulative_count(n); }
                        bs.push(bb);
                    }
                    x.set_bucket(bs);
                    pm.set_histogram(x);
                }
                "summary" => {
                    let su = &m["summary"];
                    let mut x = proto::Summary::default();
                    if let Some(n) = su.get("count").and_then(|x| x.as_u64()) { x.set_sample_count(n); }
                    if su.get("sum").map(|x| !x.is_null()).unwrap_or(false) { x.set_sample_sum(fparse(&su["sum"])); }
                    let mut qs = vec![];
                    for q in su["q"].as_array().unwrap() {
                        let mut qq = proto::Quantile::default();
                        qq.set_quantile(fparse(&q[0]));
                        qq.set_value(fparse(&q[1]));
                        qs.push(qq);
                    }
                    x.set_quantile(qs);
                    pm.set_summary(x);
                }
                _ => panic!("harness: setter {}", which),
            }
        }
        if mode == Some("clone_from") {
            let mut d = dirty_metric();
            d.clone_from(&pm);
            pm = d;
        }
        if recycle {
            mf.mut_metric().push(pm);
        } else {
            ms.push(pm);
        }
    }
    if recycle {
        let taken = mf.take_metric();
        mf.set_metric(taken);
        // ... and the family renamed to its own name once everything else is in place
        if let Some(n) = v.get("name").and_then(|x| x.as_str()) {
            mf.clear_name();
            mf.set_name(n.to_owned());
        }
    } else {
        mf.set_metric(ms);
    }
    if mode == Some("clone_from") {
        // over a used family of ANOTHER type
        let other = if mf.get_field_type() == proto::MetricType::SUMMARY { proto::MetricType::HISTOGRAM } else { proto::MetricType::SUMMARY };
        let mut d = dirty_family(other);
        d.clone_from(&mf);
        return d;
    }
    mf
}

fn hex(b: &[u8]) -> String {
    let mut s = String::with_capacity(b.len() * 2);
    for x in b {
        s.push_str(&format!("{:02x}", x));
    }
    s
}

fn collector_of(env: &Env, name: &str) -> Box<dyn Collector> {
    match env.get(name).unwrap_or_else(|| panic!("harness: no slot {}", name)) {
        Slot::Counter(x) => Box::new(x.clone()),
        Slot::IntCounter(x) => Box::new(x.clone()),
        Slot::Gauge(x) => Box::new(x.clone()),
        Slot::IntGauge(x) => Box::new(x.clone()),
        Slot::Hist(x) => Box::new(x.clone()),
        Slot::CVec(x) => Box::new(x.clone()),
        Slot::ICVec(x) => Box::new(x.clone()),
        Slot::GVec(x) => Box::new(x.clone()),
        Slot::IGVec(x) => Box::new(x.clone()),
        Slot::HVec(x) => Box::new(x.clone()),
        Slot::Custom(x) => Box::new(x.clone()),
        Slot::PGauge(x) => Box::new(x.clone()),
        Slot::UVec(x) => Box::new(x.clone()),
        _ => panic!("harness: slot {} is not a collector", name),
    }
}

fn families_of(env: &Env, c: &Value) -> Vec<MetricFamily> {
    if let Some(r) = c.get("reg").and_then(|x| x.as_str()) {
        match env.get(r) {
            Some(Slot::Reg(r)) => r.gather(),
            _ => panic!("harness: no registry {}", r),
        }
    } else if let Some(f) = c.get("fam").and_then(|x| x.as_str()) {
        match env.get(f) {
            Some(Slot::Families(f)) => f.clone(),
            _ => panic!("harness: no families {}", f),
        }
    } else if let Some(l) = c.get("lit").and_then(|x| x.as_array()) {
        let mode = c.get("recycle").and_then(|x| x.as_str());
        let built: Vec<MetricFamily> = l.iter().map(|f| family_from_mode(f, mode)).collect();
        if mode == Some("clone_from") {
            // ... and the list itself over a kept list of used families (one more than needed, other types)
            let mut kept: Vec<MetricFamily> = (0..built.len() + 1).map(|i| dirty_family(if i % 2 == 0 { proto::MetricType::HISTOGRAM } else { proto::MetricType::GAUGE })).collect();
            kept.clone_from(&built);
            return kept;
        }
        built
    } else {
        panic!("harness: no family source")
    }
}

struct FailingWriter {
    after: usize,
    n: usize,
}
impl std::io::Write for FailingWriter {
    fn write(&mut self, b: &[u8]) -> std::io::Result<usize> {
        if self.n + b.len() > self.after {
            return Err(std::io::Error::new(std::io::ErrorKind::Other, "writer full"));
        }
        self.n += b.len();
        Ok(b.len())
    }
    fn flush(&mut self) -> std::io::Result<()> {
        Ok(())
    }
}

/// accepts at most `k` bytes per write call (a pipe / socket / compressing writer)
struct ChunkWriter {
    k: usize,
    buf: Vec<u8>,
}
impl std::io::Write for ChunkWriter {
    fn write(&mut self, b: &[u8]) -> std::io::Result<usize> {
        let n = b.len().min(self.k.max(1));
        self.buf.extend_from_slice(&b[..n]);
        Ok(n)
    }
    fn flush(&mut self) -> std::io::Result<()> {
        Ok(())
    }
}

/// a non-blocking sink with a bounded buffer: accepts `room` bytes, then answers WouldBlock once, then accepts everything
struct WouldBlockWriter {
    room: usize,
    blocked: bool,
    buf: Vec<u8>,
}
impl std::io::Write for WouldBlockWriter {
    fn write(&mut self, b: &[u8]) -> std::io::Result<usize> {
        if self.blocked {
            self.buf.extend_from_slice(b);
            return Ok(b.len());
        }
        if self.room == 0 {
            self.blocked = true;
            return Err(std::io::Error::new(std::io::ErrorKind::WouldBlock, "send buffer full"));
        }
        let n = b.len().min(self.room);
        self.buf.extend_from_slice(&b[..n]);
        self.room -= n;
        Ok(n)
    }
    fn flush(&mut self) -> std::io::Result<()> {
        Ok(())
    }
}

/// `threads` threads encode the same families at the same moment, each into its own buffer, `rounds` times: every output must be
/// the one a lone encode produces
fn encode_concurrently(fams: &[MetricFamily], text: bool, threads: usize, rounds: usize) -> Value {
    let reference: Vec<u8> = {
        let mut b = vec![];
        let r = if text { TextEncoder::new().encode(fams, &mut b) } else { pb_encode_into(fams, &mut b) };
        if r.is_err() { return json!({"err": {"kind": "Msg", "msg": "the lone encode failed"}}); }
        b
    };
    let fams: Arc<Vec<MetricFamily>> = Arc::new(fams.to_vec());
    let barrier = Arc::new(std::sync::Barrier::new(threads));
    let reference = Arc::new(reference);
    let hs: Vec<_> = (0..threads).map(|_| {
        let (fams, barrier, reference) = (fams.clone(), barrier.clone(), reference.clone());
        std::thread::spawn(move || {
            let mut bad: Option<String> = None;
            let mut nbad = 0usize;
            for _ in 0..rounds {
                barrier.wait();
                let mut b = vec![];
                let r = if text { TextEncoder::new().encode(&fams, &mut b) } else { pb_encode_into(&fams, &mut b) };
                if r.is_err() || b != *reference {
                    nbad += 1;
                    if bad.is_none() { bad = Some(hex(&b[..b.len().min(64)])); }
                }
            }
            (nbad, bad)
        })
    }).collect();
    let mut nbad = 0;
    let mut first = Value::Null;
    for h in hs {
        match h.join() {
            Ok((n, b)) => { nbad += n; if first.is_null() { if let Some(x) = b { first = json!(x); } } }
            Err(_) => { nbad += 1; if first.is_null() { first = json!("thread panicked"); } }
        }
    }
    okv(json!({"encodes": threads * rounds, "differing": nbad, "first_differing_head": first, "reference_len": reference.len()}))
}

#[cfg(feature = "protobuf")]
fn pb_encode_into(fams: &[MetricFamily], b: &mut Vec<u8>) -> Result<()> {
    ProtobufEncoder::new().encode(fams, b)
}
#[cfg(not(feature = "protobuf"))]
fn pb_encode_into(_fams: &[MetricFamily], _b: &mut Vec<u8>) -> Result<()> {
    Ok(())
}

/// a user-defined vector builder (the documented extension point MetricVec::create)
#[derive(Clone)]
pub struct UserGaugeBuilder;
impl prometheus::core::MetricVecBuilder for UserGaugeBuilder {
    type M = Gauge;
    type P = Opts;
    fn build<V: AsRef<str>>(&self, opts: &Opts, vals: &[V]) -> Result<Gauge> {
        // a gauge whose variable labels are bound to `vals`: build it through a one-off GaugeVec of the same options
        let names: Vec<&str> = opts.variable_labels.iter().map(|x| x.as_str()).collect();
        let mut o = opts.clone();
        o.variable_labels = vec![];
        let v = GaugeVec::new(o, &names)?;
        let vr: Vec<&str> = vals.iter().map(|x| x.as_ref()).collect();
        v.get_metric_with_label_values(&vr)
    }
}
pub type UserGaugeVec = prometheus::core::MetricVec<UserGaugeBuilder>;

macro_rules! mk {
    ($env:expr, $c:expr, $variant:ident, $e:expr) => {{
        match $e {
            Ok(x) => {
                $env.insert(s($c, "as").to_owned(), Slot::$variant(x));
                ok0()
            }
            Err(e) => err_json(&e),
        }
    }};
}

fn vals_of(c: &Value) -> Vec<String> {
    strs(c.get("vals"))
}

/// Execute one call.  Harness-side mistakes panic with a message starting "harness:".
pub fn call(env: &mut Env, c: &Value) -> Value {
    let op = s(c, "op");
    match op {
        // ------------------------------------------------------------ constructors
        "counter" => mk!(env, c, Counter, Counter::with_opts(opts_of(&c["opts"]))),
        "int_counter" => mk!(env, c, IntCounter, IntCounter::with_opts(opts_of(&c["opts"]))),
        "gauge" => mk!(env, c, Gauge, Gauge::with_opts(opts_of(&c["opts"]))),
        "int_gauge" => mk!(env, c, IntGauge, IntGauge::with_opts(opts_of(&c["opts"]))),
        "histogram" => mk!(env, c, Hist, Histogram::with_opts(hopts_of(&c["opts"]))),
        "counter_vec" | "int_counter_vec" | "gauge_vec" | "int_gauge_vec" | "histogram_vec" => {
            let labels = strs(c.get("labels"));
            let lr: Vec<&str> = labels.iter().map(|x| x.as_str()).collect();
            match op {
                "counter_vec" => mk!(env, c, CVec, CounterVec::new(opts_of(&c["opts"]), &lr)),
                "int_counter_vec" => mk!(env, c, ICVec, IntCounterVec::new(opts_of(&c["opts"]), &lr)),
                "gauge_vec" => mk!(env, c, GVec, GaugeVec::new(opts_of(&c["opts"]), &lr)),
                "int_gauge_vec" => mk!(env, c, IGVec, IntGaugeVec::new(opts_of(&c["opts"]), &lr)),
                _ => mk!(env, c, HVec, HistogramVec::new(hopts_of(&c["opts"]), &lr)),
            }
        }
        "user_gauge_vec" => {
            let labels = strs(c.get("labels"));
            let opts = opts_of(&c["opts"]).variable_labels(labels);
            mk!(env, c, UVec, UserGaugeVec::create(proto::MetricType::GAUGE, UserGaugeBuilder, opts))
        }
        "pulling_gauge" => {
            let v = c.get("value").map(fparse).unwrap_or(0.0);
            // "panic_first": k — the user's closure panics the first k times it is called (a scrape that unwinds)
            let k = c.get("panic_first").and_then(|x| x.as_u64()).unwrap_or(0) as usize;
            let calls = std::sync::atomic::AtomicUsize::new(0);
            mk!(env, c, PGauge, PullingGauge::new(s(c, "name"), s(c, "help"), Box::new(move || {
                if calls.fetch_add(1, std::sync::atomic::Ordering::SeqCst) < k {
                    panic!("pulling gauge closure: scripted panic");
                }
                v
            })))
        }
        "desc" => {
            let cm: HashMap<String, String> = pairs(c.get("const")).into_iter().collect();
            mk!(env, c, Desc, Desc::new(s(c, "fq_name").to_owned(), s(c, "help").to_owned(), strs(c.get("var")), cm))
        }
        "custom" => {
            // a collector with several descriptors (built through Desc::new) and literal families
            let mut descs = vec![];
            for d in c.get("descs").and_then(|x| x.as_array()).cloned().unwrap_or_default() {
                let cm: HashMap<String, String> = pairs(d.get("const")).into_iter().collect();
                match Desc::new(s(&d, "fq_name").to_owned(), s(&d, "help").to_owned(), strs(d.get("var")), cm) {
                    Ok(x) => descs.push(x),
                    Err(e) => return err_json(&e),
                }
            }
            let families = c.get("families").and_then(|x| x.as_array()).map(|a| a.iter().map(family_from).collect()).unwrap_or_default();
            env.insert(s(c, "as").to_owned(), Slot::Custom(CustomRef(Arc::new(CustomCollector { descs, families }))));
            ok0()
        }
        "families_concat" => {
            // what an application gets when it scrapes several registries and hands the results to ONE encode call
            let mut f: Vec<MetricFamily> = vec![];
            for r in strs(c.get("regs")) {
                match env.get(r.as_str()) {
                    Some(Slot::Reg(reg)) => f.extend(reg.gather()),
                    _ => panic!("harness: no registry {}", r),
                }
            }
            env.insert(s(c, "as").to_owned(), Slot::Families(f));
            ok0()
        }
        "families" => {
            let f = c["lit"].as_array().unwrap().iter().map(family_from).collect();
            env.insert(s(c, "as").to_owned(), Slot::Families(f));
            ok0()
        }
        "registry" => {
            if c.get("custom").and_then(|x| x.as_bool()).unwrap_or(false) {
                let prefix = c.get("prefix").and_then(|x| x.as_str()).map(|x| x.to_owned());
                let labels = if c.get("labels").map(|x| x.is_array()).unwrap_or(false) {
                    Some(pairs(c.get("labels")).into_iter().collect::<HashMap<String, String>>())
                } else {
                    None
                };
                mk!(env, c, Reg, Registry::new_custom(prefix, labels))
            } else {
                env.insert(s(c, "as").to_owned(), Slot::Reg(Registry::new()));
                ok0()
            }
        }
        // ------------------------------------------------------------ registry
        "register" | "unregister" => {
            // "reversed": the call is made with ANOTHER handle for the same collector, one that lists the same descriptors in the
            // opposite order (a collector is identified by the set of its descriptors)
            let rev = c.get("reversed").and_then(|x| x.as_bool()).unwrap_or(false);
            let col: Box<dyn Collector> = match env.get(s(c, "obj")) {
                Some(Slot::Custom(x)) if rev => {
                    let mut descs = x.0.descs.clone();
                    descs.reverse();
                    Box::new(CustomRef(Arc::new(CustomCollector { descs, families: x.0.families.clone() })))
                }
                _ => collector_of(env, s(c, "obj")),
            };
            match env.get(s(c, "reg")) {
                Some(Slot::Reg(r)) => res_unit(if op == "register" { r.register(col) } else { r.unregister(col) }),
                _ => panic!("harness: no registry"),
            }
        }
        "default_register" => res_unit(prometheus::register(collector_of(env, s(c, "obj")))),
        "default_unregister" => res_unit(prometheus::unregister(collector_of(env, s(c, "obj")))),
        "default_gather" => okv(families_json(&prometheus::gather())),
        "gather" => match env.get(s(c, "reg")) {
            Some(Slot::Reg(r)) => okv(families_json(&r.gather())),
            _ => panic!("harness: no registry"),
        },
        "collect" => okv(families_json(&collector_of(env, s(c, "obj")).collect())),
        // ------------------------------------------------------------ scale: many calls / many children without giant inputs
        // {"op":"repeat","n":N,"calls":[...]} runs the inner calls N times with "$i" in every string replaced by the round number
        "repeat" => {
            let n = c["n"].as_u64().unwrap_or(0);
            let inner = c["calls"].as_array().cloned().unwrap_or_default();
            fn subst(v: &Value, i: u64) -> Value {
                match v {
                    Value::String(x) if x.contains("$i") => Value::String(x.replace("$i", &i.to_string())),
                    Value::Array(a) => Value::Array(a.iter().map(|x| subst(x, i)).collect()),
                    Value::Object(o) => Value::Object(o.iter().map(|(k, x)| (k.clone(), subst(x, i))).collect()),
                    _ => v.clone(),
                }
            }
            let mut bad = 0u64;
            let mut first_bad = Value::Null;
            for i in 0..n {
                for ic in &inner {
                    let r = call(env, &subst(ic, i));
                    if r.get("ok").is_none() {
                        bad += 1;
                        if first_bad.is_null() {
                            first_bad = json!({"round": i, "call": ic["op"], "result": r});
                        }
                    }
                }
            }
            okv(json!({"rounds": n, "not_ok": bad, "first_not_ok": first_bad}))
        }
        // summary of what a collector or registry exposes: per family the number of samples, of distinct label tuples, the total
        // and the extreme sample values (histograms: sample counts), and whether the samples are in lexicographic label order
        "summary" => {
            let fams = match env.get(s(c, "obj")) {
                Some(Slot::Reg(r)) => r.gather(),
                _ => collector_of(env, s(c, "obj")).collect(),
            };
            let mut out = vec![];
            for mf in &fams {
                let t = mf.get_field_type();
                let mut tuples = std::collections::HashSet::new();
                let (mut total, mut mn, mut mx) = (0.0f64, f64::INFINITY, f64::NEG_INFINITY);
                let mut sorted = true;
                let mut prev: Option<Vec<String>> = None;
                let mut hsum = 0.0f64;
                let mut bucket_total = 0u64;
                for m in mf.get_metric() {
                    let vals: Vec<String> = m.get_label().iter().map(|l| l.value().to_string()).collect();
                    if let Some(p) = &prev {
                        if *p > vals { sorted = false; }
                    }
                    prev = Some(vals.clone());
                    tuples.insert(vals);
                    let v = match t {
                        proto::MetricType::COUNTER => crate::pm::counter_value(m),
                        proto::MetricType::GAUGE => crate::pm::gauge_value(m),
                        proto::MetricType::HISTOGRAM => {
                            let h = m.get_histogram();
                            hsum += h.get_sample_sum();
                            bucket_total += h.get_bucket().last().map(|b| b.cumulative_count()).unwrap_or(0);
                            h.get_sample_count() as f64
                        }
                        _ => 0.0,
                    };
                    total += v;
                    if v < mn { mn = v; }
                    if v > mx { mx = v; }
                }
                out.push(json!({"name": mf.get_name(), "type": crate::pm::type_name(t), "samples": mf.get_metric().len(), "distinct": tuples.len(),
                                "total": fnum(total), "min": fnum(mn), "max": fnum(mx), "sorted": sorted, "hist_sum": fnum(hsum), "last_bucket_total": bucket_total}));
            }
            okv(Value::Array(out))
        }
        "descs" => {
            if let Some(Slot::Desc(d)) = env.get(s(c, "obj")) {
                return okv(json!([desc_json(d)]));
            }
            let col = collector_of(env, s(c, "obj"));
            okv(Value::Array(col.desc().into_iter().map(desc_json).collect()))
        }
        // ------------------------------------------------------------ single metrics
        "inc" | "inc_by" | "dec" | "set" | "add" | "sub" | "get" | "reset" | "observe" | "sample_count" | "sample_sum" | "metric" => {
            let v = c.get("v").map(fparse).unwrap_or(0.0);
            match env.get(s(c, "obj")).unwrap_or_else(|| panic!("harness: no slot {}", s(c, "obj"))) {
                Slot::Counter(x) => match op {
                    "inc" => { x.inc(); ok0() }
                    "inc_by" => { x.inc_by(v); ok0() }
                    "get" => okv(fnum(x.get())),
                    "reset" => { x.reset(); ok0() }
                    "metric" => okv(metric_json(&x.metric(), proto::MetricType::COUNTER)),
                    _ => panic!("harness: op {} on counter", op),
                },
                Slot::IntCounter(x) => match op {
                    "inc" => { x.inc(); ok0() }
                    "inc_by" => { x.inc_by(v as u64); ok0() }
                    "get" => okv(fnum(x.get() as f64)),
                    "reset" => { x.reset(); ok0() }
                    "metric" => okv(metric_json(&x.metric(), proto::MetricType::COUNTER)),
                    _ => panic!("harness: op {} on int counter", op),
                },
                Slot::Gauge(x) => match op {
                    "inc" => { x.inc(); ok0() }
                    "dec" => { x.dec(); ok0() }
                    "set" => { x.set(v); ok0() }
                    "add" => { x.add(v); ok0() }
                    "sub" => { x.sub(v); ok0() }
                    "get" => okv(fnum(x.get())),
                    "metric" => okv(metric_json(&x.metric(), proto::MetricType::GAUGE)),
                    _ => panic!("harness: op {} on gauge", op),
                },
                Slot::IntGauge(x) => match op {
                    "inc" => { x.inc(); ok0() }
                    "dec" => { x.dec(); ok0() }
                    "set" => { x.set(v as i64); ok0() }
                    "add" => { x.add(v as i64); ok0() }
                    "sub" => { x.sub(v as i64); ok0() }
                    "get" => okv(fnum(x.get() as f64)),
                    "metric" => okv(metric_json(&x.metric(), proto::MetricType::GAUGE)),
                    _ => panic!("harness: op {} on int gauge", op),
                },
                Slot::Hist(x) => match op {
                    "observe" => { x.observe(v); ok0() }
                    "sample_count" => okv(json!(x.get_sample_count())),
                    "sample_sum" => okv(fnum(x.get_sample_sum())),
                    "metric" => okv(metric_json(&x.metric(), proto::MetricType::HISTOGRAM)),
                    _ => panic!("harness: op {} on histogram", op),
                },
                _ => panic!("harness: op {} on non-metric slot", op),
            }
        }
        // ------------------------------------------------------------ vectors
        "with" | "remove" => {
            let vals = vals_of(c);
            let vr: Vec<&str> = vals.iter().map(|x| x.as_str()).collect();
            let as_ = c.get("as").and_then(|x| x.as_str()).map(|x| x.to_owned());
            macro_rules! vecop {
                ($v:expr, $variant:ident) => {{
                    if op == "with" {
                        match $v.get_metric_with_label_values(&vr) {
                            Ok(m) => { if let Some(a) = as_ { env.insert(a, Slot::$variant(m)); } ok0() }
                            Err(e) => err_json(&e),
                        }
                    } else {
                        res_unit($v.remove_label_values(&vr))
                    }
                }};
            }
            match env.get(s(c, "vec")).unwrap_or_else(|| panic!("harness: no vec")) {
                Slot::CVec(v) => { let v = v.clone(); vecop!(v, Counter) }
                Slot::ICVec(v) => { let v = v.clone(); vecop!(v, IntCounter) }
                Slot::GVec(v) => { let v = v.clone(); vecop!(v, Gauge) }
                Slot::IGVec(v) => { let v = v.clone(); vecop!(v, IntGauge) }
                Slot::HVec(v) => { let v = v.clone(); vecop!(v, Hist) }
                Slot::UVec(v) => { let v = v.clone(); vecop!(v, Gauge) }
                _ => panic!("harness: not a vec"),
            }
        }
        "with_map" | "remove_map" => {
            let ps = pairs(c.get("pairs"));
            let mut m: HashMap<&str, &str> = HashMap::new();
            for (k, v) in &ps {
                m.insert(k.as_str(), v.as_str());
            }
            let as_ = c.get("as").and_then(|x| x.as_str()).map(|x| x.to_owned());
            macro_rules! vecop {
                ($v:expr, $variant:ident) => {{
                    if op == "with_map" {
                        match $v.get_metric_with(&m) {
                            Ok(x) => { if let Some(a) = as_ { env.insert(a, Slot::$variant(x)); } ok0() }
                            Err(e) => err_json(&e),
                        }
                    } else {
                        res_unit($v.remove(&m))
                    }
                }};
            }
            match env.get(s(c, "vec")).unwrap_or_else(|| panic!("harness: no vec")) {
                Slot::CVec(v) => { let v = v.clone(); vecop!(v, Counter) }
                Slot::ICVec(v) => { let v = v.clone(); vecop!(v, IntCounter) }
                Slot::GVec(v) => { let v = v.clone(); vecop!(v, Gauge) }
                Slot::IGVec(v) => { let v = v.clone(); vecop!(v, IntGauge) }
                Slot::HVec(v) => { let v = v.clone(); vecop!(v, Hist) }
                _ => panic!("harness: not a vec"),
            }
        }
        "vreset" => {
            match env.get(s(c, "vec")).unwrap_or_else(|| panic!("harness: no vec")) {
                Slot::CVec(v) => v.reset(),
                Slot::ICVec(v) => v.reset(),
                Slot::GVec(v) => v.reset(),
                Slot::IGVec(v) => v.reset(),
                Slot::HVec(v) => v.reset(),
                _ => panic!("harness: not a vec"),
            }
            ok0()
        }
        // ------------------------------------------------------------ local metrics
        "local" => {
            let slot = match env.get(s(c, "of")).unwrap_or_else(|| panic!("harness: no slot")) {
                Slot::Counter(x) => Slot::LCounter(x.local()),
                Slot::IntCounter(x) => Slot::LICounter(x.local()),
                Slot::Hist(x) => Slot::LHist(x.local()),
                Slot::CVec(x) => Slot::LCVec(x.local()),
                Slot::ICVec(x) => Slot::LICVec(x.local()),
                Slot::HVec(x) => Slot::LHVec(x.local()),
                _ => panic!("harness: local of what"),
            };
            env.insert(s(c, "as").to_owned(), slot);
            ok0()
        }
        "linc" | "linc_by" | "lget" | "lreset" | "lflush" | "lobserve" | "lclear" | "lcount" | "lsum" => {
            let v = c.get("v").map(fparse).unwrap_or(0.0);
            if op == "lflush" && c.get("via").and_then(|x| x.as_str()) == Some("trait") {
                // the flush as a holder of `&dyn LocalMetric` (a list of mixed local metrics flushed in a loop) makes it
                use prometheus::local::LocalMetric;
                let m: &dyn LocalMetric = match env.get(s(c, "obj")).unwrap_or_else(|| panic!("harness: no slot {}", s(c, "obj"))) {
                    Slot::LCounter(x) => x,
                    Slot::LICounter(x) => x,
                    Slot::LHist(x) => x,
                    Slot::LCVec(x) => x,
                    Slot::LICVec(x) => x,
                    Slot::LHVec(x) => x,
                    _ => panic!("harness: lflush on non-local slot"),
                };
                m.flush();
                return ok0();
            }
            match env.get(s(c, "obj")).unwrap_or_else(|| panic!("harness: no slot {}", s(c, "obj"))) {
                Slot::LCounter(x) => match op {
                    "linc" => { x.inc(); ok0() }
                    "linc_by" => { x.inc_by(v); ok0() }
                    "lget" => okv(fnum(x.get())),
                    "lreset" | "lclear" => { x.reset(); ok0() }
                    "lflush" => { x.flush(); ok0() }
                    _ => panic!("harness: op {} on local counter", op),
                },
                Slot::LICounter(x) => match op {
                    "linc" => { x.inc(); ok0() }
                    "linc_by" => { x.inc_by(v as u64); ok0() }
                    "lget" => okv(fnum(x.get() as f64)),
                    "lreset" | "lclear" => { x.reset(); ok0() }
                    "lflush" => { x.flush(); ok0() }
                    _ => panic!("harness: op {} on local int counter", op),
                },
                Slot::LHist(x) => match op {
                    "lobserve" => { x.observe(v); ok0() }
                    "lclear" | "lreset" => { x.clear(); ok0() }
                    "lflush" => { x.flush(); ok0() }
                    "lcount" => okv(json!(x.get_sample_count())),
                    "lsum" => okv(fnum(x.get_sample_sum())),
                    _ => panic!("harness: op {} on local histogram", op),
                },
                Slot::LCVec(x) => match op { "lflush" => { x.flush(); ok0() } _ => panic!("harness: op on lvec") },
                Slot::LICVec(x) => match op { "lflush" => { x.flush(); ok0() } _ => panic!("harness: op on lvec") },
                Slot::LHVec(x) => match op { "lflush" => { x.flush(); ok0() } _ => panic!("harness: op on lvec") },
                _ => panic!("harness: op {} on non-local slot", op),
            }
        }
        "lclone" => {
            let slot = match env.get(s(c, "obj")).unwrap_or_else(|| panic!("harness: no slot")) {
                Slot::LCounter(x) => Slot::LCounter(x.clone()),
                Slot::LICounter(x) => Slot::LICounter(x.clone()),
                Slot::LHist(x) => Slot::LHist(x.clone()),
                Slot::LCVec(x) => Slot::LCVec(x.clone()),
                Slot::LICVec(x) => Slot::LICVec(x.clone()),
                Slot::LHVec(x) => Slot::LHVec(x.clone()),
                _ => panic!("harness: lclone of what"),
            };
            env.insert(s(c, "as").to_owned(), slot);
            ok0()
        }
        "lclone_from" => {
            // target.clone_from(&source) on two live local handles of the same kind
            let src = match env.get(s(c, "from")).unwrap_or_else(|| panic!("harness: no slot")) {
                Slot::LCounter(x) => Slot::LCounter(x.clone()),
                Slot::LICounter(x) => Slot::LICounter(x.clone()),
                Slot::LHist(x) => Slot::LHist(x.clone()),
                _ => panic!("harness: lclone_from of what"),
            };
            // (the clone above only stands in for a borrow of the source: it is empty and is dropped without effect)
            let src_ref: Slot = src;
            match (env.get_mut(s(c, "obj")).unwrap(), &src_ref) {
                (Slot::LCounter(t), Slot::LCounter(sv)) => t.clone_from(sv),
                (Slot::LICounter(t), Slot::LICounter(sv)) => t.clone_from(sv),
                (Slot::LHist(t), Slot::LHist(sv)) => t.clone_from(sv),
                _ => panic!("harness: lclone_from kinds differ"),
            }
            ok0()
        }
        "drop" => {
            let slot = env.remove(s(c, "obj"));
            if c.get("unwinding").and_then(|x| x.as_bool()).unwrap_or(false) {
                // the value is dropped by stack unwinding of a panic that the process survives
                let r = std::panic::catch_unwind(std::panic::AssertUnwindSafe(move || {
                    let _owned = slot;
                    std::panic::panic_any(0u8);
                }));
                let _ = r;
            }
            ok0()
        }
        "fam_edit" => {
            // in-place edit of stored families (after they may have been encoded once)
            match env.get_mut(s(c, "fam")) {
                Some(Slot::Families(fs)) => {
                    let i = c.get("idx").and_then(|x| x.as_u64()).unwrap_or(0) as usize;
                    if let Some(n) = c.get("rename").and_then(|x| x.as_str()) {
                        fs[i].set_name(n.to_owned());
                    }
                    if let Some(h) = c.get("help").and_then(|x| x.as_str()) {
                        fs[i].set_help(h.to_owned());
                    }
                    if let Some(l) = c.get("add_label").and_then(|x| x.as_array()) {
                        for m in fs[i].mut_metric().iter_mut() {
                            let mut ls = m.take_label();
                            let mut lp = proto::LabelPair::default();
                            lp.set_name(l[0].as_str().unwrap().to_owned());
                            lp.set_value(l[1].as_str().unwrap().to_owned());
                            ls.push(lp);
                            m.set_label(ls);
                        }
                    }
                    if let Some(m) = c.get("push_metric") {
                        let extra = family_from(&json!({"name": "x", "type": "COUNTER", "metrics": [m]}));
                        let mm = extra.get_metric()[0].clone();
                        fs[i].mut_metric().push(mm);
                    }
                    if let Some(f) = c.get("push_family") {
                        fs.push(family_from(f));
                    }
                    ok0()
                }
                _ => panic!("harness: no families"),
            }
        }
        "lv_inc_by" | "lv_observe" | "lv_get" | "lv_remove" | "lv_flush_child" | "lv_reset_child" => {
            let vals = vals_of(c);
            let vr: Vec<&str> = vals.iter().map(|x| x.as_str()).collect();
            let v = c.get("v").map(fparse).unwrap_or(0.0);
            match env.get_mut(s(c, "obj")).unwrap_or_else(|| panic!("harness: no slot")) {
                Slot::LCVec(x) => match op {
                    "lv_inc_by" => { x.with_label_values(&vr).inc_by(v); ok0() }
                    "lv_get" => okv(fnum(x.with_label_values(&vr).get())),
                    "lv_flush_child" => { x.with_label_values(&vr).flush(); ok0() }
                    "lv_reset_child" => { x.with_label_values(&vr).reset(); ok0() }
                    "lv_remove" => res_unit(x.remove_label_values(&vr)),
                    _ => panic!("harness: op {} on local counter vec", op),
                },
                Slot::LICVec(x) => match op {
                    "lv_inc_by" => { x.with_label_values(&vr).inc_by(v as u64); ok0() }
                    "lv_get" => okv(fnum(x.with_label_values(&vr).get() as f64)),
                    "lv_flush_child" => { x.with_label_values(&vr).flush(); ok0() }
                    "lv_reset_child" => { x.with_label_values(&vr).reset(); ok0() }
                    "lv_remove" => res_unit(x.remove_label_values(&vr)),
                    _ => panic!("harness: op {} on local int counter vec", op),
                },
                Slot::LHVec(x) => match op {
                    "lv_observe" | "lv_inc_by" => { x.with_label_values(&vr).observe(v); ok0() }
                    "lv_get" => okv(json!(x.with_label_values(&vr).get_sample_count())),
                    "lv_flush_child" => { x.with_label_values(&vr).flush(); ok0() }
                    "lv_reset_child" => { x.with_label_values(&vr).clear(); ok0() }
                    "lv_remove" => res_unit(x.remove_label_values(&vr)),
                    _ => panic!("harness: op {} on local histogram vec", op),
                },
                _ => panic!("harness: not a local vec"),
            }
        }
        // ------------------------------------------------------------ timers
        "start_timer" => {
            let slot = match env.get(s(c, "of")).unwrap_or_else(|| panic!("harness: no slot")) {
                Slot::Hist(h) => Slot::Timer(Some(h.start_timer())),
                Slot::LHist(h) => Slot::LTimer(Some(h.start_timer())),
                _ => panic!("harness: timer of what"),
            };
            env.insert(s(c, "as").to_owned(), slot);
            ok0()
        }
        "observe_duration" | "stop_and_record" | "stop_and_discard" | "drop_timer" => {
            let on_thread = c.get("thread").and_then(|x| x.as_bool()).unwrap_or(false);
            let opn = op.to_owned();
            match env.get_mut(s(c, "obj")).unwrap_or_else(|| panic!("harness: no timer")) {
                Slot::Timer(t) => {
                    let t = match t.take() { Some(t) => t, None => return json!({"ok": "consumed"}) };
                    let unwinding = c.get("unwinding").and_then(|x| x.as_bool()).unwrap_or(false);
                    let f = move || -> f64 {
                        if unwinding {
                            // the timer is dropped by the stack unwinding of a panic that the process survives
                            let _ = std::panic::catch_unwind(std::panic::AssertUnwindSafe(move || { let _owned = t; std::panic::panic_any(0u8); }));
                            return -1.0;
                        }
                        match opn.as_str() {
                            "observe_duration" => { t.observe_duration(); -1.0 }
                            "stop_and_record" => t.stop_and_record(),
                            "stop_and_discard" => t.stop_and_discard(),
                            _ => { drop(t); -1.0 }
                        }
                    };
                    let r = if on_thread { std::thread::spawn(f).join().unwrap() } else { f() };
                    okv(fnum(r))
                }
                Slot::LTimer(t) => {
                    let t = match t.take() { Some(t) => t, None => return json!({"ok": "consumed"}) };
                    let unwinding = c.get("unwinding").and_then(|x| x.as_bool()).unwrap_or(false);
                    let f = move || -> f64 {
                        if unwinding {
                            let _ = std::panic::catch_unwind(std::panic::AssertUnwindSafe(move || { let _owned = t; std::panic::panic_any(0u8); }));
                            return -1.0;
                        }
                        match opn.as_str() {
                            "observe_duration" => { t.observe_duration(); -1.0 }
                            "stop_and_record" => t.stop_and_record(),
                            "stop_and_discard" => t.stop_and_discard(),
                            _ => { drop(t); -1.0 }
                        }
                    };
                    let r = if on_thread { std::thread::spawn(f).join().unwrap() } else { f() };
                    okv(fnum(r))
                }
                _ => panic!("harness: not a timer"),
            }
        }
        "sleep" => {
            std::thread::sleep(std::time::Duration::from_millis(c["ms"].as_u64().unwrap_or(0)));
            ok0()
        }
        "observe_closure" if c.get("sleep_ms").is_some() => {
            let ms = c["sleep_ms"].as_u64().unwrap();
            let r = match env.get(s(c, "of")).unwrap_or_else(|| panic!("harness: no slot")) {
                Slot::Hist(h) => h.observe_closure_duration(|| { std::thread::sleep(std::time::Duration::from_millis(ms)); 7 }),
                Slot::LHist(h) => h.observe_closure_duration(|| { std::thread::sleep(std::time::Duration::from_millis(ms)); 7 }),
                _ => panic!("harness: closure of what"),
            };
            okv(json!(r))
        }
        "observe_closure" => {
            let ret = c.get("ret").and_then(|x| x.as_i64()).unwrap_or(7);
            let re = c.get("reenter").and_then(|x| x.as_bool()).unwrap_or(false);
            let r = match env.get(s(c, "of")).unwrap_or_else(|| panic!("harness: no slot")) {
                // "reenter": the timed section itself observes into the same histogram (a nested timed section)
                Slot::Hist(h) => h.observe_closure_duration(|| { if re { h.observe_closure_duration(|| ()); } ret }),
                Slot::LHist(h) => h.observe_closure_duration(|| { if re { h.observe_closure_duration(|| ()); } ret }),
                _ => panic!("harness: closure of what"),
            };
            okv(json!(r))
        }
        // ------------------------------------------------------------ bucket helpers
        "linear_buckets" => match linear_buckets(fl(c, "start"), fl(c, "width"), c["count"].as_u64().unwrap() as usize) {
            Ok(b) => okv(Value::Array(b.into_iter().map(fnum).collect())),
            Err(e) => err_json(&e),
        },
        "exponential_buckets" => match exponential_buckets(fl(c, "start"), fl(c, "factor"), c["count"].as_u64().unwrap() as usize) {
            Ok(b) => okv(Value::Array(b.into_iter().map(fnum).collect())),
            Err(e) => err_json(&e),
        },
        // ------------------------------------------------------------ encoders
        "text_encode" => {
            let owned;
            let fams: &[MetricFamily] = match c.get("fam").and_then(|x| x.as_str()).and_then(|f| env.get(f)) {
                Some(Slot::Families(f)) => f,
                _ => { owned = families_of(env, c); &owned }
            };
            let enc = TextEncoder::new();
            let prefix = c.get("prefix").and_then(|x| x.as_str()).unwrap_or("");
            let mode = c.get("mode").and_then(|x| x.as_str()).unwrap_or("encode");
            match mode {
                "encode" => {
                    let mut buf: Vec<u8> = prefix.as_bytes().to_vec();
                    match enc.encode(&fams, &mut buf) {
                        Ok(()) => okv(json!({"hex": hex(&buf), "utf8": std::str::from_utf8(&buf).is_ok()})),
                        Err(e) => { let mut j = err_json(&e); j["written"] = json!(hex(&buf)); j }
                    }
                }
                "utf8" => {
                    let mut buf = prefix.to_owned();
                    match enc.encode_utf8(&fams, &mut buf) {
                        Ok(()) => okv(json!({"hex": hex(buf.as_bytes()), "utf8": true})),
                        Err(e) => { let mut j = err_json(&e); j["written"] = json!(hex(buf.as_bytes())); j }
                    }
                }
                "to_string" => match enc.encode_to_string(&fams) {
                    Ok(st) => okv(json!({"hex": hex(st.as_bytes()), "utf8": true})),
                    Err(e) => err_json(&e),
                },
                "failing_writer" => {
                    let mut w = FailingWriter { after: c.get("after").and_then(|x| x.as_u64()).unwrap_or(0) as usize, n: 0 };
                    res_unit(enc.encode(&fams, &mut w))
                }
                "wouldblock" => {
                    let mut w = WouldBlockWriter { room: c.get("after").and_then(|x| x.as_u64()).unwrap_or(0) as usize, blocked: false, buf: vec![] };
                    match enc.encode(&fams, &mut w) {
                        Ok(()) => okv(json!({"hex": hex(&w.buf), "blocked": w.blocked})),
                        Err(e) => { let mut j = err_json(&e); j["blocked"] = json!(w.blocked); j }
                    }
                }
                "chunked" => {
                    let mut w = ChunkWriter { k: c.get("after").and_then(|x| x.as_u64()).unwrap_or(1) as usize, buf: prefix.as_bytes().to_vec() };
                    match enc.encode(&fams, &mut w) {
                        Ok(()) => okv(json!({"hex": hex(&w.buf), "utf8": std::str::from_utf8(&w.buf).is_ok()})),
                        Err(e) => err_json(&e),
                    }
                }
                _ => panic!("harness: text mode"),
            }
        }
        #[cfg(feature = "protobuf")]
        "pb_encode" => {
            let owned;
            let fams: &[MetricFamily] = match c.get("fam").and_then(|x| x.as_str()).and_then(|f| env.get(f)) {
                Some(Slot::Families(f)) => f,
                _ => { owned = families_of(env, c); &owned }
            };
            let enc = ProtobufEncoder::new();
            let mode = c.get("mode").and_then(|x| x.as_str()).unwrap_or("encode");
            if mode == "failing_writer" {
                let mut w = FailingWriter { after: c.get("after").and_then(|x| x.as_u64()).unwrap_or(0) as usize, n: 0 };
                return res_unit(enc.encode(&fams, &mut w));
            }
            if mode == "chunked" {
                let mut w = ChunkWriter { k: c.get("after").and_then(|x| x.as_u64()).unwrap_or(1) as usize, buf: vec![] };
                return match enc.encode(&fams, &mut w) {
                    Ok(()) => okv(json!({"hex": hex(&w.buf)})),
                    Err(e) => err_json(&e),
                };
            }
            if mode == "wouldblock" {
                let mut w = WouldBlockWriter { room: c.get("after").and_then(|x| x.as_u64()).unwrap_or(0) as usize, blocked: false, buf: vec![] };
                return match enc.encode(&fams, &mut w) {
                    Ok(()) => okv(json!({"hex": hex(&w.buf), "blocked": w.blocked})),
                    Err(e) => { let mut j = err_json(&e); j["blocked"] = json!(w.blocked); j }
                };
            }
            let mut buf: Vec<u8> = vec![];
            match enc.encode(&fams, &mut buf) {
                Ok(()) => okv(json!({"hex": hex(&buf)})),
                Err(e) => { let mut j = err_json(&e); j["written"] = json!(hex(&buf)); j }
            }
        }
        "encode_concurrent" => {
            let fams = families_of(env, c);
            encode_concurrently(&fams, c.get("enc").and_then(|x| x.as_str()) == Some("text"), c.get("threads").and_then(|x| x.as_u64()).unwrap_or(4) as usize, c.get("rounds").and_then(|x| x.as_u64()).unwrap_or(100) as usize)
        }
        "families_json" => okv(families_json(&families_of(env, c))),
        _ => {
            if let Some(r) = crate::macro_arms::call(env, c) {
                return r;
            }
            panic!("harness: unknown op {}", op)
        }
    }
}

/// progress shared with the watchdog: a call that never returns is an outcome, not a reason to lose the run
pub struct Progress {
    pub job: Value,
    pub results: Vec<Value>,
    pub ncalls: usize,
    pub tick: u64,
    pub current: String,
}

pub fn run_job(job: &Value, prog: &std::sync::Arc<std::sync::Mutex<Progress>>) -> Value {
    let mut env: Env = HashMap::new();
    let mut results = vec![];
    let calls = job["calls"].as_array().unwrap();
    {
        let mut p = prog.lock().unwrap();
        p.job = job["id"].clone();
        p.results.clear();
        p.ncalls = calls.len();
        p.tick += 1;
    }
    for c in calls {
        {
            let mut p = prog.lock().unwrap();
            p.current = c["op"].as_str().unwrap_or("?").to_owned();
            p.tick += 1;
        }
        let r = std::panic::catch_unwind(std::panic::AssertUnwindSafe(|| call(&mut env, c)));
        let r = match r {
            Ok(v) => v,
            Err(e) => {
                let msg = e.downcast_ref::<String>().cloned().or_else(|| e.downcast_ref::<&str>().map(|s| s.to_string())).unwrap_or_else(|| "panic".to_owned());
                if msg.starts_with("harness: no ") {
                    // refers to a slot whose constructor was refused earlier in the job
                    results.push(json!({ "skip": msg }));
                    prog.lock().unwrap().results.push(json!({ "skip": "" }));
                    continue;
                }
                if msg.starts_with("harness:") {
                    eprintln!("harness error in job {}: {} (call {})", job["id"], msg, c);
                    std::process::exit(4);
                }
                json!({ "panic": msg })
            }
        };
        prog.lock().unwrap().results.push(r.clone());
        results.push(r);
    }
    // drop order: locals before shared metrics is irrelevant for results already taken
    let mut o = Map::new();
    o.insert("id".into(), job["id"].clone());
    o.insert("res".into(), Value::Array(results));
    Value::Object(o)
}

pub fn run_file(input: &str, output: &str) {
    std::panic::set_hook(Box::new(|_| {}));
    let f = std::io::BufReader::new(std::fs::File::open(input).expect("input"));
    let w = std::sync::Arc::new(std::sync::Mutex::new(std::io::BufWriter::new(std::fs::File::create(output).expect("output"))));
    let prog = std::sync::Arc::new(std::sync::Mutex::new(Progress { job: Value::Null, results: vec![], ncalls: 0, tick: 0, current: String::new() }));
    let limit: u64 = std::env::var("VH_HANG_SECS").ok().and_then(|x| x.parse().ok()).unwrap_or(10);
    {
        // watchdog: when no call returns for `limit` seconds, the pending call is recorded as hanging (as a panic-class
        // outcome "HANG"), the calls after it as not executed, and the process leaves with code 3; the driver re-runs the
        // jobs that were not reached
        let (w, prog) = (w.clone(), prog.clone());
        std::thread::spawn(move || {
            let mut last = (0u64, std::time::Instant::now());
            loop {
                std::thread::sleep(std::time::Duration::from_millis(500));
                let p = prog.lock().unwrap();
                if p.tick != last.0 {
                    last = (p.tick, std::time::Instant::now());
                    continue;
                }
                if p.ncalls > 0 && last.1.elapsed().as_secs() >= limit {
                    let mut res = p.results.clone();
                    res.push(json!({ "panic": format!("HANG: call `{}` did not return within {} s", p.current, limit), "hang": true }));
                    while res.len() < p.ncalls {
                        res.push(json!({ "skip": "not executed: an earlier call of this job never returned" }));
                    }
                    let mut o = Map::new();
                    o.insert("id".into(), p.job.clone());
                    o.insert("res".into(), Value::Array(res));
                    let mut w = w.lock().unwrap();
                    writeln!(w, "{}", Value::Object(o)).unwrap();
                    w.flush().unwrap();
                    std::process::exit(3);
                }
            }
        });
    }
    for line in f.lines() {
        let line = line.unwrap();
        if line.trim().is_empty() {
            continue;
        }
        let job: Value = serde_json::from_str(&line).unwrap();
        let r = run_job(&job, &prog);
        prog.lock().unwrap().ncalls = 0;
        {
            // flushed per job: if the library aborts the process (a panic while panicking), everything before that job is on disk
            let mut w = w.lock().unwrap();
            writeln!(w, "{}", r).unwrap();
            w.flush().unwrap();
        }
    }
    w.lock().unwrap().flush().unwrap();
}
