//! Group A driver: run scripted threads on one shared object under the deterministic scheduler.
//! Input: first line = scenario, following lines = jobs (schedules).  Output: one JSON line per job.
use crate::sched::*;
use prometheus::core::{Collector, Metric};
use prometheus::verif_sync::OpKind;
use prometheus::*;
use rand::{rngs::StdRng, Rng, SeedableRng};
use serde_json::{json, Map, Value};
use std::collections::{BTreeMap, HashMap};
use std::io::{BufRead, Write};
use std::sync::{Arc, Mutex};

/// value transformation of a scenario: float metrics are driven with `amount * scale` and observed as `value / scale`
/// (scale is a power of two, so both are exact); integer gauges are offset by `base` with wrapping arithmetic, so that a
/// scenario can sit next to the i64 boundaries while the specification keeps talking about small integers.
#[derive(Clone, Copy)]
pub struct Xf {
    pub scale: f64,
    pub base: i64,
}
static XF_SCALE: std::sync::atomic::AtomicU64 = std::sync::atomic::AtomicU64::new(0x3ff0000000000000);
static XF_BASE: std::sync::atomic::AtomicI64 = std::sync::atomic::AtomicI64::new(0);
/// histograms: every observed value and every bound is shifted down by this amount (so the stored sums are negative);
/// snapshots are reported as `sum + shift * count`, which is exact for the small integers used
static XF_SHIFT: std::sync::atomic::AtomicI64 = std::sync::atomic::AtomicI64::new(0);
/// "shape": "odd" — vectors with a constant label and two variable labels declared out of alphabetical order (["z", "l"]); the
/// scripts' key is the value of "l", the value of "z" is fixed
static VEC_ODD: std::sync::atomic::AtomicBool = std::sync::atomic::AtomicBool::new(false);
fn odd() -> bool {
    VEC_ODD.load(std::sync::atomic::Ordering::Relaxed)
}
fn shift() -> f64 {
    XF_SHIFT.load(std::sync::atomic::Ordering::Relaxed) as f64
}
fn xf() -> Xf {
    Xf { scale: f64::from_bits(XF_SCALE.load(std::sync::atomic::Ordering::Relaxed)), base: XF_BASE.load(std::sync::atomic::Ordering::Relaxed) }
}
fn set_xf(o: &Value) {
    let scale = o.get("scale").map(crate::pm::fparse).unwrap_or(1.0);
    let base = o.get("base").and_then(|x| x.as_i64()).unwrap_or(0);
    XF_SCALE.store(scale.to_bits(), std::sync::atomic::Ordering::Relaxed);
    XF_BASE.store(base, std::sync::atomic::Ordering::Relaxed);
    XF_SHIFT.store(o.get("shift").and_then(|x| x.as_i64()).unwrap_or(0), std::sync::atomic::Ordering::Relaxed);
    VEC_ODD.store(o.get("shape").and_then(|x| x.as_str()) == Some("odd"), std::sync::atomic::Ordering::Relaxed);
}

#[derive(Clone)]
pub enum Obj {
    Counter(Counter),
    IntCounter(IntCounter),
    Gauge(Gauge),
    IntGauge(IntGauge),
    Hist { h: Histogram, vec: Option<HistogramVec>, reg: Option<Registry>, via: String },
    CVec(CounterVec),
    ICVec(IntCounterVec),
    HVec(HistogramVec),
    Reg { r: Registry, cols: Vec<RegCol> },
}

#[derive(Clone)]
pub struct RegCol {
    pub cid: String,
    pub c: IntCounter,
    pub name: String,
    pub help: String,
    pub k: String,
}

fn num(v: f64) -> Value {
    if v.fract() == 0.0 && v.abs() < 9.0e15 {
        json!(v as i64)
    } else if v.is_nan() {
        json!("NaN")
    } else if v.is_infinite() {
        json!(if v > 0.0 { "+Inf" } else { "-Inf" })
    } else {
        json!(v)
    }
}

pub fn make_obj(o: &Value) -> Obj {
    let kind = o["kind"].as_str().unwrap();
    set_xf(o);
    let ob = make_obj_inner(o, kind);
    if let Obj::IntGauge(g) = &ob {
        g.set(xf().base);
    }
    ob
}

fn make_obj_inner(o: &Value, kind: &str) -> Obj {
    match kind {
        "counter" => Obj::Counter(Counter::new("c", "h").unwrap()),
        "intcounter" => Obj::IntCounter(IntCounter::new("c", "h").unwrap()),
        "countervec_child" => {
            let v = CounterVec::new(Opts::new("c", "h"), &["l"]).unwrap();
            Obj::Counter(v.with_label_values(&["x"]))
        }
        "intcountervec_child" => {
            let v = IntCounterVec::new(Opts::new("c", "h"), &["l"]).unwrap();
            Obj::IntCounter(v.with_label_values(&["x"]))
        }
        "gaugevec_child" => {
            let v = GaugeVec::new(Opts::new("g", "h"), &["l"]).unwrap();
            Obj::Gauge(v.with_label_values(&["x"]))
        }
        "intgaugevec_child" => {
            let v = IntGaugeVec::new(Opts::new("g", "h"), &["l"]).unwrap();
            Obj::IntGauge(v.with_label_values(&["x"]))
        }
        "gauge" => Obj::Gauge(Gauge::new("g", "h").unwrap()),
        "intgauge" => Obj::IntGauge(IntGauge::new("g", "h").unwrap()),
        "histogram" => {
            let mut bounds: Vec<f64> = o["bounds"].as_array().unwrap().iter().map(|x| x.as_f64().unwrap() - shift()).collect();
            if bounds.is_empty() {
                // a count-and-sum-only histogram: no finite bucket at all (an empty list would mean "the default buckets")
                bounds.push(f64::INFINITY);
            }
            let via = o.get("via").and_then(|x| x.as_str()).unwrap_or("direct").to_owned();
            let opts = HistogramOpts::new("h", "h").buckets(bounds);
            match via.as_str() {
                "direct" => Obj::Hist { h: Histogram::with_opts(opts).unwrap(), vec: None, reg: None, via },
                "vec" => {
                    let v = HistogramVec::new(opts, &["l"]).unwrap();
                    Obj::Hist { h: v.with_label_values(&["x"]), vec: Some(v), reg: None, via }
                }
                "registry" => {
                    let h = Histogram::with_opts(opts).unwrap();
                    let r = Registry::new();
                    r.register(Box::new(h.clone())).unwrap();
                    Obj::Hist { h, vec: None, reg: Some(r), via }
                }
                _ => panic!("via"),
            }
        }
        "countervec" if odd() => Obj::CVec(CounterVec::new(Opts::new("c", "h").const_label("zc", "c"), &["z", "l"]).unwrap()),
        "intcountervec" if odd() => Obj::ICVec(IntCounterVec::new(Opts::new("c", "h").const_label("zc", "c"), &["z", "l"]).unwrap()),
        "countervec" => Obj::CVec(CounterVec::new(Opts::new("c", "h"), &["l"]).unwrap()),
        "intcountervec" => Obj::ICVec(IntCounterVec::new(Opts::new("c", "h"), &["l"]).unwrap()),
        "histogramvec" => {
            let bounds: Vec<f64> = o["bounds"].as_array().unwrap().iter().map(|x| x.as_f64().unwrap()).collect();
            Obj::HVec(HistogramVec::new(HistogramOpts::new("h", "h").buckets(bounds), &["l"]).unwrap())
        }
        "registry" => {
            let mut cols = vec![];
            let mut ids: Vec<&String> = o["collectors"].as_object().unwrap().keys().collect();
            ids.sort();
            for cid in ids {
                let d = &o["collectors"][cid];
                let mut opts = Opts::new(d["name"].as_str().unwrap(), d["help"].as_str().unwrap());
                let k = d["k"].as_str().unwrap_or("-").to_owned();
                if k != "-" {
                    opts = opts.const_label("k", k.clone());
                }
                cols.push(RegCol { cid: cid.clone(), c: IntCounter::with_opts(opts).unwrap(), name: d["name"].as_str().unwrap().to_owned(), help: d["help"].as_str().unwrap().to_owned(), k });
            }
            Obj::Reg { r: Registry::new(), cols }
        }
        _ => panic!("unknown object kind {}", kind),
    }
}

fn reg_gather(r: &Registry, cols: &[RegCol]) -> Value {
    let mut out = vec![];
    for mf in r.gather() {
        for m in mf.get_metric() {
            let k = m.get_label().iter().find(|l| l.name() == "k").map(|l| l.value().to_owned()).unwrap_or_else(|| "-".to_owned());
            let cid = cols.iter().find(|c| c.name == mf.name() && c.help == mf.help() && c.k == k).map(|c| c.cid.clone()).unwrap_or_else(|| format!("?{}|{}|{}", mf.name(), mf.help(), k));
            out.push(json!([cid, num(crate::pm::counter_value(m))]));
        }
    }
    out.sort_by(|a, b| a[0].as_str().unwrap().cmp(b[0].as_str().unwrap()));
    Value::Array(out)
}

fn hist_json(hh: &proto::Histogram) -> Value {
    let b: Vec<u64> = hh.get_bucket().iter().map(|b| b.cumulative_count()).collect();
    json!({"count": hh.get_sample_count(), "sum": num(hh.get_sample_sum() + shift() * hh.get_sample_count() as f64), "b": b})
}

fn label_of(m: &proto::Metric, name: &str) -> String {
    m.get_label().iter().find(|l| l.name() == name).map(|l| l.value().to_owned()).unwrap_or_default()
}

/// thread-local state of a scripted thread
#[derive(Default)]
pub struct Locals {
    lc: Option<local::LocalCounter>,
    lic: Option<local::LocalIntCounter>,
    lh: Option<local::LocalHistogram>,
    ch: HashMap<i64, Counter>,
    ich: HashMap<i64, IntCounter>,
    hh: HashMap<i64, Histogram>,
}

fn collect_vec_pairs(mfs: Vec<proto::MetricFamily>, hist: bool) -> Value {
    let mut out = vec![];
    for mf in &mfs {
        for m in mf.get_metric() {
            let key = label_of(m, "l");
            if hist {
                out.push(json!([key, hist_json(m.get_histogram())]));
            } else {
                out.push(json!([key, num(crate::pm::counter_value(m))]));
            }
        }
    }
    out.sort_by(|a, b| a[0].as_str().unwrap().cmp(b[0].as_str().unwrap()));
    Value::Array(out)
}

/// vector requests through the labels-map entry points (`with`, `get_metric_with`, `remove`) instead of the positional ones
fn map_form(op: &Value) -> bool {
    op.get("form").and_then(|x| x.as_str()) == Some("map")
}

/// Execute one scripted API call on the real object.
pub fn exec(obj: &Obj, loc: &mut Locals, op: &Value) -> Value {
    let k = op["k"].as_str().unwrap();
    // amounts are JSON numbers; the non-finite ones (and -0) travel as strings ("+Inf", "-Inf", "NaN", "-0")
    let v = op.get("v").map(|x| match x.as_str() {
        Some("MIN") => i64::MIN as f64,
        Some("MAX") => i64::MAX as f64,
        Some("-MAX") => -(i64::MAX as f64),
        Some(_) => crate::pm::fparse(x),
        None => x.as_f64().unwrap_or(0.0),
    }).unwrap_or(0.0);
    // integer amounts; the extreme ones travel as names ("MIN" = i64::MIN, "MAX" = i64::MAX, "-MAX")
    let vi = match op.get("v") {
        Some(Value::String(x)) if x == "MIN" => i64::MIN,
        Some(Value::String(x)) if x == "MAX" => i64::MAX,
        Some(Value::String(x)) if x == "-MAX" => -i64::MAX,
        Some(x) => x.as_i64().unwrap_or(0),
        None => 0,
    };
    let vs: Vec<f64> = op.get("vs").and_then(|x| x.as_array()).map(|a| a.iter().map(|x| if x.is_string() { crate::pm::fparse(x) } else { x.as_f64().unwrap() }).collect()).unwrap_or_default();
    let t = xf();
    match obj {
        Obj::Counter(c) => match k {
            "inc" => { if t.scale == 1.0 { c.inc() } else { c.inc_by(t.scale) }; json!(0) }
            "incby" => { c.inc_by(v * t.scale); json!(0) }
            "get" if op.get("via").and_then(|x| x.as_str()) == Some("metric") => { use prometheus::core::Metric; num(crate::pm::counter_value(&c.metric()) / t.scale) }
            "get" => num(c.get() / t.scale),
            "reset" => { c.reset(); json!(0) }
            "lflush" => {
                let l = loc.lc.get_or_insert_with(|| c.local());
                for x in &vs { l.inc_by(*x * t.scale); }
                l.flush();
                json!(0)
            }
            _ => panic!("op {}", k),
        },
        Obj::IntCounter(c) => match k {
            "inc" => { c.inc(); json!(0) }
            "incby" => { c.inc_by(v as u64); json!(0) }
            "get" if op.get("via").and_then(|x| x.as_str()) == Some("metric") => { use prometheus::core::Metric; json!(crate::pm::counter_value(&c.metric()) as u64) }
            "get" => json!(c.get()),
            "reset" => { c.reset(); json!(0) }
            "lflush" => {
                let l = loc.lic.get_or_insert_with(|| c.local());
                for x in &vs { l.inc_by(*x as u64); }
                l.flush();
                json!(0)
            }
            _ => panic!("op {}", k),
        },
        Obj::Gauge(g) => match k {
            "set" => { g.set(v * t.scale); json!(0) }
            "inc" => { if t.scale == 1.0 { g.inc() } else { g.add(t.scale) }; json!(0) }
            "dec" => { if t.scale == 1.0 { g.dec() } else { g.sub(t.scale) }; json!(0) }
            "add" => { g.add(v * t.scale); json!(0) }
            "sub" => { g.sub(v * t.scale); json!(0) }
            "get" if op.get("via").and_then(|x| x.as_str()) == Some("metric") => { use prometheus::core::Metric; num(crate::pm::gauge_value(&g.metric()) / t.scale) }
            "get" => num(g.get() / t.scale),
            _ => panic!("op {}", k),
        },
        Obj::IntGauge(g) => match k {
            "set" => { g.set(t.base.wrapping_add(vi)); json!(0) }
            "inc" => { g.inc(); json!(0) }
            "dec" => { g.dec(); json!(0) }
            "add" => { g.add(vi); json!(0) }
            "sub" => { g.sub(vi); json!(0) }
            "get" if op.get("via").and_then(|x| x.as_str()) == Some("metric") => { use prometheus::core::Metric; json!((crate::pm::gauge_value(&g.metric()) as i64).wrapping_sub(t.base)) }
            "get" => json!(g.get().wrapping_sub(t.base)),
            _ => panic!("op {}", k),
        },
        Obj::Hist { h, vec, reg, via } => match k {
            "obs" => { h.observe(v - shift()); json!(0) }
            "flush" => {
                let l = loc.lh.get_or_insert_with(|| h.local());
                for x in &vs { l.observe(*x - shift()); }
                l.flush();
                json!(0)
            }
            "collect" => match via.as_str() {
                "direct" => hist_json(h.metric().get_histogram()),
                "vec" => {
                    let mf = vec.as_ref().unwrap().collect();
                    hist_json(mf[0].get_metric()[0].get_histogram())
                }
                _ => {
                    let mf = reg.as_ref().unwrap().gather();
                    hist_json(mf[0].get_metric()[0].get_histogram())
                }
            },
            "sum" => {
                let sm = h.get_sample_sum();
                // (the extra read of the count is made only in shifted scenarios: it is one more atomic step)
                if shift() != 0.0 { num(sm + shift() * h.get_sample_count() as f64) } else { num(sm) }
            }
            "count" => json!(h.get_sample_count()),
            _ => panic!("op {}", k),
        },
        Obj::CVec(cv) => {
            let key = op.get("key").and_then(|x| x.as_str()).unwrap_or("");
            let hs = op.get("h").and_then(|x| x.as_i64()).unwrap_or(0);
            match k {
                "with" if map_form(op) && odd() => { loc.ch.insert(hs, cv.with(&HashMap::from([("l", key), ("z", "f")]))); json!(0) }
                "remove" if map_form(op) && odd() => json!(if cv.remove(&HashMap::from([("l", key), ("z", "f")])).is_ok() { "ok" } else { "err" }),
                "with" if odd() => { loc.ch.insert(hs, cv.with_label_values(&["f", key])); json!(0) }
                "remove" if odd() => json!(if cv.remove_label_values(&["f", key]).is_ok() { "ok" } else { "err" }),
                "with" if map_form(op) => { loc.ch.insert(hs, cv.with(&HashMap::from([("l", key)]))); json!(0) }
                "remove" if map_form(op) => json!(if cv.remove(&HashMap::from([("l", key)])).is_ok() { "ok" } else { "err" }),
                "with" => { loc.ch.insert(hs, cv.with_label_values(&[key])); json!(0) }
                "hinc" => { loc.ch.get(&hs).expect("handle").inc_by(v); json!(0) }
                "hget" => num(loc.ch.get(&hs).expect("handle").get()),
                "remove" => json!(if cv.remove_label_values(&[key]).is_ok() { "ok" } else { "err" }),
                "reset" => { cv.reset(); json!(0) }
                "collect" => collect_vec_pairs(cv.collect(), false),
                _ => panic!("op {}", k),
            }
        }
        Obj::ICVec(cv) => {
            let key = op.get("key").and_then(|x| x.as_str()).unwrap_or("");
            let hs = op.get("h").and_then(|x| x.as_i64()).unwrap_or(0);
            match k {
                "with" if map_form(op) && odd() => { loc.ich.insert(hs, cv.with(&HashMap::from([("l", key), ("z", "f")]))); json!(0) }
                "remove" if map_form(op) && odd() => json!(if cv.remove(&HashMap::from([("l", key), ("z", "f")])).is_ok() { "ok" } else { "err" }),
                "with" if odd() => { loc.ich.insert(hs, cv.with_label_values(&["f", key])); json!(0) }
                "remove" if odd() => json!(if cv.remove_label_values(&["f", key]).is_ok() { "ok" } else { "err" }),
                "with" if map_form(op) => { loc.ich.insert(hs, cv.with(&HashMap::from([("l", key)]))); json!(0) }
                "remove" if map_form(op) => json!(if cv.remove(&HashMap::from([("l", key)])).is_ok() { "ok" } else { "err" }),
                "with" => { loc.ich.insert(hs, cv.with_label_values(&[key])); json!(0) }
                "hinc" => { loc.ich.get(&hs).expect("handle").inc_by(v as u64); json!(0) }
                "hget" => json!(loc.ich.get(&hs).expect("handle").get()),
                "remove" => json!(if cv.remove_label_values(&[key]).is_ok() { "ok" } else { "err" }),
                "reset" => { cv.reset(); json!(0) }
                "collect" => collect_vec_pairs(cv.collect(), false),
                _ => panic!("op {}", k),
            }
        }
        Obj::Reg { r, cols } => {
            let col = |cid: &str| cols.iter().find(|c| c.cid == cid).unwrap_or_else(|| panic!("collector {}", cid));
            let res = |x: prometheus::Result<()>| match x {
                Ok(()) => json!("Ok"),
                Err(prometheus::Error::AlreadyReg) => json!("AlreadyReg"),
                Err(_) => json!("Err"),
            };
            match k {
                "reg" => res(r.register(Box::new(col(op["c"].as_str().unwrap()).c.clone()))),
                "unreg" => res(r.unregister(Box::new(col(op["c"].as_str().unwrap()).c.clone()))),
                "gather" => reg_gather(r, cols),
                "cinc" => { col(op["c"].as_str().unwrap()).c.inc_by(vi as u64); json!(0) }
                _ => panic!("op {}", k),
            }
        }
        Obj::HVec(hv) => {
            let key = op.get("key").and_then(|x| x.as_str()).unwrap_or("");
            let hs = op.get("h").and_then(|x| x.as_i64()).unwrap_or(0);
            match k {
                "with" if map_form(op) => { loc.hh.insert(hs, hv.with(&HashMap::from([("l", key)]))); json!(0) }
                "remove" if map_form(op) => json!(if hv.remove(&HashMap::from([("l", key)])).is_ok() { "ok" } else { "err" }),
                "with" => { loc.hh.insert(hs, hv.with_label_values(&[key])); json!(0) }
                "hinc" => { loc.hh.get(&hs).expect("handle").observe(v); json!(0) }
                "hget" => num(loc.hh.get(&hs).expect("handle").get_sample_sum()),
                "remove" => json!(if hv.remove_label_values(&[key]).is_ok() { "ok" } else { "err" }),
                "reset" => { hv.reset(); json!(0) }
                "collect" => collect_vec_pairs(hv.collect(), true),
                _ => panic!("op {}", k),
            }
        }
    }
}

fn fin_obs(obj: &Obj, loc: &mut Locals) -> Value {
    match obj {
        Obj::Hist { .. } => json!({
            "collect": exec(obj, loc, &json!({"k": "collect"})),
            "count": exec(obj, loc, &json!({"k": "count"})),
            "sum": exec(obj, loc, &json!({"k": "sum"})),
        }),
        Obj::CVec(_) | Obj::ICVec(_) | Obj::HVec(_) => json!({"collect": exec(obj, loc, &json!({"k": "collect"}))}),
        Obj::Reg { .. } => json!({"gather": exec(obj, loc, &json!({"k": "gather"}))}),
        _ => json!({"get": exec(obj, loc, &json!({"k": "get"}))}),
    }
}

/// symbolic names of known synchronisation cells
fn known_cells(obj: &Obj) -> HashMap<usize, String> {
    let mut m = HashMap::new();
    match obj {
        Obj::Hist { h, .. } => {
            for (n, a) in h.verif_cells() {
                m.insert(a, n);
            }
        }
        Obj::CVec(v) => { m.insert(v.verif_lock_addr(), "lock".to_owned()); }
        Obj::ICVec(v) => { m.insert(v.verif_lock_addr(), "lock".to_owned()); }
        Obj::HVec(v) => { m.insert(v.verif_lock_addr(), "lock".to_owned()); }
        Obj::Reg { r, .. } => { m.insert(r.verif_lock_addr(), "lock".to_owned()); }
        _ => {}
    }
    m
}

fn lock_json(l: &LockState, names: &[String]) -> Value {
    let mut r = Map::new();
    for (t, n) in names.iter().enumerate() {
        r.insert(n.clone(), json!(l.readers.contains(&t)));
    }
    json!({"w": l.writer.map(|t| names[t].clone()).unwrap_or_else(|| "none".to_owned()), "r": r})
}

fn children_json(mfs: Vec<proto::MetricFamily>, keys: &[String]) -> Value {
    let mut ch = BTreeMap::new();
    for k in keys {
        ch.insert(k.clone(), json!(-1));
    }
    for mf in mfs {
        for m in mf.get_metric() {
            ch.insert(label_of(m, "l"), num(crate::pm::counter_value(m)));
        }
    }
    json!(ch)
}

/// Projection of the real object onto the model's shared state (called by the controller thread,
/// which has no hook installed, so nothing here is a scheduling point).
fn project(obj: &Obj, s: &Sched, names: &[String], keys: &[String]) -> Value {
    match obj {
        Obj::Counter(c) => json!({"v": num(c.get() / xf().scale)}),
        Obj::IntCounter(c) => json!({"v": c.get()}),
        Obj::Gauge(g) => json!({"v": num(g.get() / xf().scale)}),
        Obj::IntGauge(g) => json!({"v": g.get().wrapping_sub(xf().base)}),
        Obj::Hist { h, .. } => {
            let p = h.verif_peek();
            let nb = (p.len() - 1) / 2 - 2;
            let sh = |i: usize| -> (Value, Value, Value) {
                let base = 1 + i * (2 + nb);
                let b: Vec<u64> = (0..nb).map(|j| p[base + 2 + j]).collect();
                (json!(p[base]), num(f64::from_bits(p[base + 1])), json!(b))
            };
            let (c0, s0, b0) = sh(0);
            let (c1, s1, b1) = sh(1);
            let lock_addr = h.verif_cells()[0].1;
            let l = s.lock_state(lock_addr);
            json!({
                "sc": {"hot": (p[0] >> 63), "n": (p[0] & ((1u64 << 63) - 1))},
                "cnt": [c0, c1], "sum": [s0, s1], "bkt": [b0, b1],
                "lock": l.writer.map(|t| names[t].clone()).unwrap_or_else(|| "none".to_owned()),
            })
        }
        Obj::CVec(v) => {
            let l = s.lock_state(v.verif_lock_addr());
            let mut o = json!({"lock": lock_json(&l, names)});
            if l.writer.is_none() && l.readers.is_empty() {
                o["children"] = children_json(v.collect(), keys);
            }
            o
        }
        Obj::ICVec(v) => {
            let l = s.lock_state(v.verif_lock_addr());
            let mut o = json!({"lock": lock_json(&l, names)});
            if l.writer.is_none() && l.readers.is_empty() {
                o["children"] = children_json(v.collect(), keys);
            }
            o
        }
        Obj::HVec(v) => {
            let l = s.lock_state(v.verif_lock_addr());
            json!({"lock": lock_json(&l, names)})
        }
        Obj::Reg { r, cols } => {
            let l = s.lock_state(r.verif_lock_addr());
            let mut o = json!({"lock": lock_json(&l, names)});
            let mut cv = Map::new();
            for c in cols {
                cv.insert(c.cid.clone(), json!(c.c.get()));
            }
            o["cval"] = Value::Object(cv);
            if l.writer.is_none() && l.readers.is_empty() {
                let shown: Vec<String> = reg_gather(r, cols).as_array().unwrap().iter().map(|p| p[0].as_str().unwrap().to_owned()).collect();
                let mut reg = Map::new();
                for c in cols {
                    reg.insert(c.cid.clone(), json!(shown.contains(&c.cid)));
                }
                o["registered"] = Value::Object(reg);
            }
            o
        }
    }
}

/// compare only the keys present in `expected`
fn subset_eq(expected: &Value, actual: &Value) -> bool {
    match (expected, actual) {
        (Value::Object(e), Value::Object(a)) => e.iter().all(|(k, ev)| match a.get(k) {
            Some(av) => subset_eq(ev, av),
            None => k == "children" || k == "pc" || k == "registered",
        }),
        _ => expected == actual,
    }
}

struct Run {
    out: Map<String, Value>,
}

pub fn run_file(input: &str, output: &str, want_ops: bool) {
    let f = std::io::BufReader::new(std::fs::File::open(input).expect("input"));
    let mut lines = f.lines();
    let scen: Value = serde_json::from_str(&lines.next().unwrap().unwrap()).unwrap();
    let names: Vec<String> = scen["threads"].as_array().unwrap().iter().map(|x| x.as_str().unwrap().to_owned()).collect();
    let budget = scen.get("budget").and_then(|x| x.as_u64()).unwrap_or(5000) as usize;
    let w = Arc::new(Mutex::new(std::io::BufWriter::new(std::fs::File::create(output).expect("output"))));
    // watchdog: a schedule under which a thread (or the controller's projection) blocks on something the scheduler does not
    // control cannot be driven any further; it is recorded as "stuck" (no verdict), and the driver re-runs the jobs after it
    let cur: Arc<Mutex<Option<(Value, std::time::Instant)>>> = Arc::new(Mutex::new(None));
    let limit: u64 = std::env::var("VH_STUCK_SECS").ok().and_then(|x| x.parse().ok()).unwrap_or(60);
    {
        let (cur, w) = (cur.clone(), w.clone());
        std::thread::spawn(move || loop {
            std::thread::sleep(std::time::Duration::from_millis(500));
            let c = cur.lock().unwrap();
            if let Some((id, t0)) = &*c {
                if t0.elapsed().as_secs() >= limit {
                    let mut w = w.lock().unwrap();
                    writeln!(w, "{}", json!({"id": id, "stuck": true})).unwrap();
                    w.flush().unwrap();
                    std::process::exit(4);
                }
            }
        });
    }
    for line in lines {
        let line = line.unwrap();
        if line.trim().is_empty() {
            continue;
        }
        let job: Value = serde_json::from_str(&line).unwrap();
        *cur.lock().unwrap() = Some((job["id"].clone(), std::time::Instant::now()));
        let r = run_job(&scen, &names, &job, budget, want_ops);
        *cur.lock().unwrap() = None;
        let nonterm = r.out.get("nonterm").and_then(|x| x.as_bool()).unwrap_or(false);
        let mut w = w.lock().unwrap();
        writeln!(w, "{}", Value::Object(r.out)).unwrap();
        if nonterm {
            // parked threads cannot be joined: flush and leave
            w.flush().unwrap();
            std::process::exit(3);
        }
    }
    w.lock().unwrap().flush().unwrap();
}

fn run_job(scen: &Value, names: &[String], job: &Value, budget: usize, want_ops: bool) -> Run {
    let n = names.len();
    // "share": "ref" — all threads use ONE handle by reference (as `&Gauge` in thread::scope or an `Arc<Gauge>` would);
    // default: every thread owns a clone of the handle
    let share_ref = scen["obj"].get("share").and_then(|x| x.as_str()) == Some("ref");
    // "creator": "<thread>" — the object under test is created ON that scripted thread (before it comes under the scheduler)
    // instead of on the controller, so that one of the racing threads is the thread that built the metric
    let creator: Option<usize> = scen["obj"].get("creator").and_then(|x| x.as_str()).and_then(|c| names.iter().position(|x| x == c));
    let mut sched = Sched::new(n);
    let cur_call: Arc<Mutex<Vec<String>>> = Arc::new(Mutex::new(vec![String::new(); n]));
    let (otx, orx) = std::sync::mpsc::channel::<Arc<Obj>>();
    let mut order: Vec<usize> = (0..n).collect();
    if let Some(k) = creator {
        order.retain(|x| *x != k);
        order.insert(0, k);
    }
    let mut obj_slot: Option<Arc<Obj>> = if creator.is_none() { Some(Arc::new(make_obj(&scen["obj"]))) } else { None };
    for tid in order {
        let script: Vec<Value> = scen["scripts"][&names[tid]].as_array().cloned().unwrap_or_default();
        let cc = cur_call.clone();
        let tname = names[tid].clone();
        let pre: Box<dyn FnOnce() -> Arc<Obj> + Send> = if Some(tid) == creator {
            let spec = scen["obj"].clone();
            let otx = otx.clone();
            Box::new(move || { let o = Arc::new(make_obj(&spec)); otx.send(o.clone()).unwrap(); o })
        } else {
            let base = obj_slot.as_ref().unwrap().clone();
            let o: Arc<Obj> = if share_ref { base } else { Arc::new((*base).clone()) };
            Box::new(move || o)
        };
        sched.spawn_pre(tid, pre, move |ctx, o: Arc<Obj>| {
            let mut loc = Locals::default();
            for (i, op) in script.iter().enumerate() {
                cc.lock().unwrap()[ctx.tid] = op["k"].as_str().unwrap().to_owned();
                let inv = ctx.call_start();
                let res = exec(&o, &mut loc, op);
                let ret = ctx.now();
                let mut rec = op.as_object().unwrap().clone();
                rec.insert("t".into(), json!(tname));
                rec.insert("i".into(), json!(i + 1));
                rec.insert("inv".into(), json!(inv));
                rec.insert("ret".into(), json!(ret));
                rec.insert("res".into(), res);
                ctx.record(Value::Object(rec));
            }
            // make sure thread-local handles are dropped while still hooked? (drop of locals may flush)
            drop(loc);
        });
        if Some(tid) == creator {
            obj_slot = Some(orx.recv().expect("creator thread"));
        }
    }
    let obj_arc: Arc<Obj> = obj_slot.unwrap();
    let obj: &Obj = &obj_arc;
    let cells = known_cells(obj);
    let keys: Vec<String> = scen["obj"].get("keys").and_then(|x| x.as_array()).map(|a| a.iter().map(|x| x.as_str().unwrap().to_owned()).collect()).unwrap_or_default();
    // "pre": calls made by the controller before any thread starts (initial population); recorded as a strictly
    // ordered prefix of the history with negative time stamps
    let pre: Vec<Value> = scen.get("pre").and_then(|x| x.as_array()).cloned().unwrap_or_default();
    if !pre.is_empty() {
        let mut ploc = Locals::default();
        let n = pre.len() as i64;
        let mut recs = vec![];
        for (k, op) in pre.iter().enumerate() {
            let res = exec(&obj, &mut ploc, op);
            let mut rec = op.as_object().unwrap().clone();
            rec.insert("t".into(), json!("pre"));
            rec.insert("i".into(), json!(k + 1));
            rec.insert("inv".into(), json!(-2 * (n - k as i64) - 1));
            rec.insert("ret".into(), json!(-2 * (n - k as i64)));
            rec.insert("res".into(), res);
            recs.push(Value::Object(rec));
        }
        sched.c.calls.lock().unwrap().extend(recs);
    }
    let mode = job["mode"].as_str().unwrap_or("choices");
    let mut out = Map::new();
    out.insert("id".into(), job["id"].clone());
    out.insert("mode".into(), json!(mode));
    let mut ops: Vec<Value> = vec![];
    let mut ords: BTreeMap<String, String> = BTreeMap::new();
    let mut choices_taken: Vec<String> = vec![];
    // systematic exploration support (preemption-bounded search driven by checks/grpa.py): the enabled set before every step
    let trace_en = job.get("trace_enabled").and_then(|x| x.as_bool()).unwrap_or(false);
    let sticky = job.get("tail").and_then(|x| x.as_str()) == Some("sticky");
    let mut en_trace: Vec<Vec<String>> = vec![];
    let mut kind_trace: Vec<String> = vec![];
    // spin detection for the systematic search: a thread whose last step repeated its previous observation (same load / failed
    // compare-exchange / failed try-lock on the same cell with the same result, no write to that cell in between) is waiting;
    // scheduling it again is a stutter step, so it is left out of the choice set while another thread can run
    // (a waiting loop may read several cells per round: any period up to 4 counts)
    let mut last_obs: Vec<Vec<(OpKind, usize, u64, bool)>> = vec![vec![]; n];
    let mut spinning: Vec<bool> = vec![false; n];
    let mut nsteps = 0usize;
    let mut drift: Option<Value> = None;
    let mut diverged = false;
    let mut unknown_ctr = 0usize;
    let mut unknown_names: HashMap<usize, String> = HashMap::new();

    let mut cell_name = |addr: usize| -> (String, bool) {
        if let Some(n) = cells.get(&addr) {
            (n.clone(), true)
        } else {
            let e = unknown_names.entry(addr).or_insert_with(|| {
                unknown_ctr += 1;
                format!("x{}", unknown_ctr)
            });
            (e.clone(), false)
        }
    };
    // for counter/gauge objects every cell is "known" (there is only the value cell)
    let all_known = matches!(obj, Obj::Counter(_) | Obj::IntCounter(_) | Obj::Gauge(_) | Obj::IntGauge(_));
    let child_cells_known = matches!(obj, Obj::CVec(_) | Obj::ICVec(_) | Obj::HVec(_) | Obj::Reg { .. });

    macro_rules! do_grant {
        ($t:expr) => {{
            let t: usize = $t;
            if trace_en {
                let en = sched.enabled();
                let awake: Vec<usize> = en.iter().cloned().filter(|x| !spinning[*x]).collect();
                en_trace.push((if awake.is_empty() { en } else { awake }).into_iter().map(|x| names[x].clone()).collect());
            }
            let (pend, dones) = sched.grant(t);
            nsteps += 1;
            choices_taken.push(names[t].clone());
            for d in &dones {
                let passive = match d.op.kind {
                    OpKind::Load => true,
                    OpKind::CasWeak | OpKind::CasStrong | OpKind::TryLock | OpKind::TryRLock | OpKind::TryWLock => !d.ok,
                    _ => false,
                };
                if passive {
                    let h = &mut last_obs[t];
                    h.push((d.op.kind, d.op.addr, d.val, d.ok));
                    if h.len() > 8 {
                        h.remove(0);
                    }
                    let l = h.len();
                    spinning[t] = (1..=4).any(|p| l >= 2 * p && h[l - p..] == h[l - 2 * p..l - p]);
                } else {
                    spinning[t] = false;
                    last_obs[t].clear();
                    // a write (or a lock transition) on a cell wakes up whoever is waiting on it
                    for u in 0..n {
                        if u != t && last_obs[u].iter().any(|o| o.1 == d.op.addr) {
                            spinning[u] = false;
                            last_obs[u].clear();
                        }
                    }
                }
            }
            if dones.is_empty() {
                spinning[t] = false;
                last_obs[t].clear();
            }
            let mut desc = String::from("CallStart");
            if let Pend::Op(_) = pend {
                for d in &dones {
                    let (cn, _) = cell_name(d.op.addr);
                    let call = cur_call.lock().unwrap()[t].clone();
                    let pref: String = cn.trim_end_matches(|c: char| c.is_ascii_digit() || c == '_').to_owned();
                    let flip = d.op.kind == OpKind::FetchAdd && d.op.a == (1u64 << 63);
                    let site = format!("{}/{}{}/{}", call, kind_name(d.op.kind), if flip { "Flip" } else { "" }, pref);
                    if d.op.ord.is_some() {
                        let o = if d.op.kind == OpKind::CasWeak {
                            format!("{}/{}", ord_name(d.op.ord), ord_name(d.op.ord_fail))
                        } else {
                            ord_name(d.op.ord).to_owned()
                        };
                        ords.insert(site, o);
                    }
                    desc = format!("{}:{}", kind_name(d.op.kind), pref);
                    if want_ops {
                        ops.push(done_json(&names[t], d, &cn));
                    }
                }
            } else if want_ops {
                ops.push(json!({"t": names[t], "k": "CallStart"}));
            }
            if trace_en {
                kind_trace.push(desc.clone());
            }
            desc
        }};
    }
    let is_unknown_pending = |sched: &Sched, t: usize, cells: &HashMap<usize, String>| -> bool {
        if all_known || child_cells_known {
            return false;
        }
        match sched.pending(t) {
            Pend::Op(op) => !cells.contains_key(&op.addr),
            _ => false,
        }
    };

    sched.wait_quiet();
    match mode {
        "model" => {
            let steps = job["steps"].as_array().unwrap();
            for (si, step) in steps.iter().enumerate() {
                let tn = step["t"].as_str().unwrap();
                let t = names.iter().position(|x| x == tn).unwrap();
                // stutter over operations on cells the model does not know
                let mut guard = 0;
                while is_unknown_pending(&sched, t, &cells) && sched.enabled().contains(&t) && guard < 16 {
                    do_grant!(t);
                    guard += 1;
                }
                if sched.all_finished() {
                    break;
                }
                if !sched.enabled().contains(&t) {
                    if drift.is_none() {
                        drift = Some(json!({"step": si, "why": "thread not enabled", "t": tn, "pending": format!("{:?}", sched.pending(t))}));
                    }
                    // after a drift the remaining steps are still used as a schedule (thread choices only)
                    let en = sched.enabled();
                    if en.is_empty() {
                        break;
                    }
                    do_grant!(en[nsteps % en.len()]);
                    continue;
                }
                let desc = do_grant!(t);
                if drift.is_some() {
                    continue;
                }
                if let Some(exp_op) = step.get("op").and_then(|x| x.as_str()) {
                    if exp_op != desc {
                        drift = Some(json!({"step": si, "why": "operation differs", "t": tn, "expected": exp_op, "actual": desc}));
                        continue;
                    }
                }
                if let Some(post) = step.get("post") {
                    let real = project(&obj, &sched, names, &keys);
                    if !subset_eq(post, &real) {
                        drift = Some(json!({"step": si, "why": "post-state differs", "t": tn, "expected": post, "actual": real}));
                    }
                }
            }
        }
        "choices" => {
            let ch = job["choices"].as_array().unwrap();
            for c in ch {
                if sched.all_finished() {
                    break;
                }
                let t = names.iter().position(|x| x == c.as_str().unwrap()).unwrap();
                let en = sched.enabled();
                if en.contains(&t) {
                    do_grant!(t);
                } else {
                    diverged = true;
                    if en.is_empty() {
                        break;
                    }
                    do_grant!(en[nsteps % en.len()]);
                }
            }
        }
        "random" => {
            let seed = job["seed"].as_u64().unwrap_or(0);
            let mut rng = StdRng::seed_from_u64(seed);
            let style = job.get("style").and_then(|x| x.as_str()).unwrap_or("uniform");
            // pct: random priorities, a few priority change points
            let mut prio: Vec<u32> = (0..n).map(|_| rng.gen_range(10..1000)).collect();
            let cps: Vec<usize> = (0..3).map(|_| rng.gen_range(1..200)).collect();
            while !sched.all_finished() && nsteps < budget {
                let en = sched.enabled();
                if en.is_empty() {
                    break;
                }
                let t = if style == "pct" {
                    if cps.contains(&nsteps) {
                        let cur = *en.iter().max_by_key(|t| prio[**t]).unwrap();
                        prio[cur] = rng.gen_range(0..10);
                    }
                    // a spinning thread (failed CAS) must not starve the others
                    if rng.gen_range(0..8) == 0 { en[rng.gen_range(0..en.len())] } else { *en.iter().max_by_key(|t| prio[**t]).unwrap() }
                } else {
                    en[rng.gen_range(0..en.len())]
                };
                do_grant!(t);
            }
        }
        "starve" => {
            // lock-freedom stress: the victim's compare-exchange is made to fail `rounds` times in a row — every time it
            // is about to attempt it, some other thread first completes a write to the same cell
            let victim = names.iter().position(|x| x == job["victim"].as_str().unwrap()).unwrap();
            let rounds = job.get("rounds").and_then(|x| x.as_u64()).unwrap_or(12) as usize;
            let mut rr2 = 0usize;
            'outer: for _ in 0..rounds {
                // advance the victim up to its next compare-exchange
                let mut guard = 0;
                loop {
                    if !sched.enabled().contains(&victim) { break 'outer; }
                    match sched.pending(victim) {
                        Pend::Op(op) if matches!(op.kind, OpKind::CasWeak | OpKind::CasStrong) => break,
                        _ => { do_grant!(victim); }
                    }
                    guard += 1;
                    if guard > 50 || nsteps >= budget { break 'outer; }
                }
                let cell = match sched.pending(victim) { Pend::Op(op) => op.addr, _ => break };
                // let somebody else complete a write to that cell
                let mut wrote = false;
                let mut tries = 0;
                while !wrote && tries < 60 && nsteps < budget {
                    let en: Vec<usize> = sched.enabled().into_iter().filter(|t| *t != victim).collect();
                    if en.is_empty() { break 'outer; }
                    rr2 += 1;
                    let t = en[rr2 % en.len()];
                    let (_, dones) = sched.grant(t);
                    nsteps += 1;
                    choices_taken.push(names[t].clone());
                    for d in &dones {
                        if d.op.addr == cell && d.ok && matches!(d.op.kind, OpKind::CasWeak | OpKind::CasStrong | OpKind::FetchAdd | OpKind::FetchSub | OpKind::Store | OpKind::Swap | OpKind::FetchOther) {
                            wrote = true;
                        }
                    }
                    tries += 1;
                }
                if !wrote { break; }
                if sched.enabled().contains(&victim) { do_grant!(victim); }     // the victim's attempt (fails if the value changed)
            }
        }
        _ => panic!("mode"),
    }
    // drain: finish remaining threads round robin
    let mut rr = 0usize;
    let mut nonterm = false;
    let mut deadlock = false;
    loop {
        sched.wait_quiet();
        if sched.all_finished() {
            break;
        }
        if nsteps >= budget {
            nonterm = true;
            break;
        }
        let en = sched.enabled();
        if en.is_empty() {
            deadlock = true;
            nonterm = true;
            break;
        }
        rr += 1;
        if sticky {
            // non-preemptive tail: stay on the thread that ran last while it can run, else the first enabled one
            let last = choices_taken.last().and_then(|l| names.iter().position(|x| x == l));
            let awake: Vec<usize> = en.iter().cloned().filter(|x| !spinning[*x]).collect();
            let pool = if awake.is_empty() { en.clone() } else { awake };
            let t = match last { Some(l) if pool.contains(&l) => l, _ => pool[rr % pool.len()] };
            do_grant!(t);
        } else {
            do_grant!(en[rr % en.len()]);
        }
    }
    let calls = sched.take_calls();
    let panics: Vec<Value> = sched.panics().into_iter().enumerate().filter_map(|(t, p)| p.map(|m| json!({"t": names[t], "msg": m}))).collect();
    if !nonterm {
        sched.join();
        out.insert("final".into(), project(&obj, &sched, names, &keys));
        // observations made by the controller after every thread has finished (quiescent state); a collect that never
        // returns even now (the object was left in a state no collect can get out of) is the outcome `nonterminating`
        let objc = obj.clone();
        let (tx, rx) = std::sync::mpsc::channel();
        std::thread::spawn(move || {
            let obj = objc;
            let mut loc = Locals::default();
            let fin = fin_obs(&obj, &mut loc);
            let _ = tx.send(fin);
        });
        let fin = match rx.recv_timeout(std::time::Duration::from_secs(10)) {
            Ok(f) => f,
            Err(_) => {
                out.insert("fin_hang".into(), json!(true));
                nonterm = true;
                json!({})
            }
        };
        out.insert("fin".into(), fin);
    }
    out.insert("drift".into(), drift.unwrap_or(Value::Bool(false)));
    out.insert("diverged".into(), json!(diverged));
    out.insert("nonterm".into(), json!(nonterm));
    out.insert("deadlock".into(), json!(deadlock));
    out.insert("panics".into(), Value::Array(panics));
    out.insert("nsteps".into(), json!(nsteps));
    out.insert("calls".into(), Value::Array(calls));
    out.insert("ords".into(), json!(ords));
    out.insert("choices".into(), json!(choices_taken));
    if trace_en {
        out.insert("enabled".into(), json!(en_trace));
        out.insert("kinds".into(), json!(kind_trace));
    }
    if want_ops {
        out.insert("ops".into(), Value::Array(ops));
    }
    Run { out }
}

/// Sequential (single-threaded) execution of call sequences: one JSON line per job {id, obj, ops}.
pub fn run_seq(input: &str, output: &str) {
    let f = std::io::BufReader::new(std::fs::File::open(input).expect("input"));
    let mut w = std::io::BufWriter::new(std::fs::File::create(output).expect("output"));
    for line in f.lines() {
        let line = line.unwrap();
        if line.trim().is_empty() {
            continue;
        }
        let job: Value = serde_json::from_str(&line).unwrap();
        let obj = make_obj(&job["obj"]);
        let mut loc = Locals::default();
        let mut calls = vec![];
        for (i, op) in job["ops"].as_array().unwrap().iter().enumerate() {
            let res = match std::panic::catch_unwind(std::panic::AssertUnwindSafe(|| exec(&obj, &mut loc, op))) {
                Ok(v) => v,
                Err(_) => json!("panic"),
            };
            let mut rec = op.as_object().unwrap().clone();
            rec.insert("t".into(), json!("s"));
            rec.insert("i".into(), json!(i + 1));
            rec.insert("inv".into(), json!(2 * i + 1));
            rec.insert("ret".into(), json!(2 * i + 2));
            rec.insert("res".into(), res);
            calls.push(Value::Object(rec));
        }
        let mut l2 = Locals::default();
        let fin = match &obj {
            Obj::Hist { .. } => json!({
                "collect": exec(&obj, &mut l2, &json!({"k": "collect"})),
                "count": exec(&obj, &mut l2, &json!({"k": "count"})),
                "sum": exec(&obj, &mut l2, &json!({"k": "sum"})),
            }),
            Obj::CVec(_) | Obj::ICVec(_) | Obj::HVec(_) => json!({"collect": exec(&obj, &mut l2, &json!({"k": "collect"}))}),
            Obj::Reg { .. } => json!({"gather": exec(&obj, &mut l2, &json!({"k": "gather"}))}),
            _ => json!({"get": exec(&obj, &mut l2, &json!({"k": "get"}))}),
        };
        writeln!(w, "{}", json!({"id": job["id"], "obj": job["obj"], "calls": calls, "fin": fin})).unwrap();
    }
    w.flush().unwrap();
}
