//! vh — conformance harness binding the TLA+ specifications in /verif/spec to tikv/rust-prometheus.
#![allow(dead_code, deprecated)]
mod api;
mod conc;
mod macro_arms;
mod pm;
mod sched;

fn main() {
    let args: Vec<String> = std::env::args().collect();
    if args.len() < 2 {
        eprintln!("usage: vh <subcommand> ...");
        std::process::exit(2);
    }
    match args[1].as_str() {
        // vh conc <scenario+jobs.ndjson> <out.ndjson> [ops]
        "conc" => conc::run_file(&args[2], &args[3], args.get(4).map(|s| s == "ops").unwrap_or(false)),
        "api" => api::run_file(&args[2], &args[3]),
        "seq" => conc::run_seq(&args[2], &args[3]),
        other => {
            eprintln!("unknown subcommand {}", other);
            std::process::exit(2);
        }
    }
}
